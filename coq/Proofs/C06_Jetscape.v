(* C06 (JETSCAPE): the written file is the rendering of a document whose events are the held events numbered
   from 1; by C01 it reads back to the held data rounded to the printed precision; re-writing is a fixpoint. *)
From Coq Require Import List String Ascii ZArith QArith Qabs Bool Arith Lia.
From SX Require Import Lib.Strs Lib.StrLemmas Gen.GenParticleMap Gen.GenFormats Model.Oscar Model.OscarDoc
  Model.Jetscape Model.JetscapeDoc Model.Writer
  Proofs.C01_Oscar Proofs.C01_Columns Proofs.C01_Shapes Proofs.C01_Jetscape Proofs.C06_Row Proofs.C06_Oscar Proofs.C06_Formats.
Import ListNotations.
Local Open Scope string_scope.

Section J.
  Variable tok_float : string -> option Q.
  Variable tok_int : string -> option Q.
  Variable pdg_valid : Q -> bool.
  Variable pdg_charge : Q -> Q.
  Variable usqrt : Q -> Q.
  Variable fmt : colfmt -> Q -> string.
  Variable dec : Z -> string.
  Variable rnd : colfmt -> Q -> Q.
  Hypothesis parse_float : forall f v, is_int_fmt f = false -> tok_float (fmt f v) = Some (rnd f v).
  Hypothesis parse_int : forall v, tok_int (fmt FD v) = Some (rnd FD v).
  Hypothesis fmt_idem : forall f v, fmt f (rnd f v) = fmt f v.
  Hypothesis fmt_numeric : forall f v, numeric (fmt f v) = true.
  Hypothesis dec_numeric : forall z, numeric (dec z) = true.
  Hypothesis dec_int : forall z, (0 <= z)%Z -> tok_int (dec z) = Some (zq z).

  Notation FJ := (format_jet_particle fmt).
  Notation MKJ := (mk_jet_particle tok_float tok_int pdg_valid pdg_charge usqrt).
  Notation TOKS := (toks_of fmt).

  Definition cs_jet : scheme := mk_scheme jet_cols gen_format_jetscape.

  (* ---------------------------------------------------------------- one particle line *)
  Definition jrow_rt (p : particle) : Prop :=
    exists row p', FJ p = Ok row /\ forallb numeric row = true /\ MKJ row = Ok p' /\ FJ p' = Ok row.

  Lemma fj_scheme p vs : has_vals cs_jet p vs -> FJ p = Ok (TOKS cs_jet vs).
  Proof.
    intros Hv. unfold format_jet_particle.
    rewrite (col_values jet_cols p vs) by (apply (has_vals_scheme jet_cols gen_format_jetscape); [reflexivity|exact Hv]).
    cbn [bind]. apply zipfmt_scheme; [reflexivity|]. apply has_vals_length in Hv. rewrite Hv. reflexivity.
  Qed.

  Theorem jrow_rt_ok p vs : has_vals cs_jet p vs -> jrow_rt p.
  Proof.
    intros Hv. pose proof (has_vals_length cs_jet p vs Hv) as Hl.
    destruct (row_roundtrip tok_float tok_int fmt rnd parse_float parse_int false cs_jet vs blank Hl)
      as (p1 & Hfill & Hslots & Hother & Hlen); try reflexivity.
    { apply nodup_nat. vm_compute. reflexivity. }
    { repeat constructor; cbn; lia. }
    exists (TOKS cs_jet vs).
    (* the particle the loader builds from the printed line *)
    assert (Hmk : mk_particle tok_float tok_int pdg_valid "JETSCAPE" [] (TOKS cs_jet vs) = Ok (set_pdg_valid pdg_valid p1)).
    { unfold mk_particle.
      assert (Hmap : mapping_of "JETSCAPE" [] = Ok (mapping_from 0 cs_jet)) by (vm_compute; reflexivity).
      rewrite Hmap. cbn [bind]. rewrite (toks_length fmt cs_jet vs Hl).
      change (List.length (mapping_from 0 cs_jet)) with 7%nat. change (List.length cs_jet) with 7%nat.
      cbn [Nat.eqb orb]. change ("JETSCAPE" =? "ASCII") with false. cbn [orb].
      rewrite Hfill. reflexivity. }
    assert (Hs10 : forall s, s <> 10%nat -> get_slot s (set_pdg_valid pdg_valid p1) = get_slot s p1).
    { intros s Hs. unfold set_pdg_valid. destruct (get_slot 9 p1); apply get_set_other; congruence. }
    (* its seven columns are the rounded printed values *)
    do 7 (destruct vs as [|? vs]; [discriminate|]). destruct vs; [|discriminate].
    assert (G : forall j x v, nth_error cs_jet j = Some x -> nth_error [q; q0; q1; q2; q3; q4; q5] j = Some v ->
                get_slot (s_slot x) (set_pdg_valid pdg_valid p1) = Some (rnd (s_fmt x) v)).
    { intros j x v Hx Hvv. rewrite Hs10.
      - eapply Hslots; eauto.
      - do 7 (destruct j as [|j]; [inversion Hx; subst; cbn; lia|]). destruct j; discriminate. }
    pose proof (G 0%nat _ _ eq_refl eq_refl) as G0. pose proof (G 1%nat _ _ eq_refl eq_refl) as G1.
    pose proof (G 2%nat _ _ eq_refl eq_refl) as G2. pose proof (G 3%nat _ _ eq_refl eq_refl) as G3.
    pose proof (G 4%nat _ _ eq_refl eq_refl) as G4. pose proof (G 5%nat _ _ eq_refl eq_refl) as G5.
    pose proof (G 6%nat _ _ eq_refl eq_refl) as G6.
    cbn [s_slot s_fmt fst snd] in G0, G1, G2, G3, G4, G5, G6.
    set (pr := set_pdg_valid pdg_valid p1) in *.
    (* derived mass / charge are put into slots 4 and 12, which are not printed *)
    assert (Hmkj : exists p', MKJ (TOKS cs_jet [q; q0; q1; q2; q3; q4; q5]) = Ok p' /\
                              (forall s, s <> 4%nat -> s <> 12%nat -> get_slot s p' = get_slot s pr)).
    { unfold mk_jet_particle. rewrite Hmk. cbn [bind]. fold pr. rewrite G3, G4, G5, G6, G1.
      eexists. split; [reflexivity|]. intros s H4 H12. rewrite !get_set_other by congruence. reflexivity. }
    destruct Hmkj as (p' & Hp' & Hsame).
    exists p'. split; [apply fj_scheme; exact Hv|]. split; [apply toks_numeric; exact fmt_numeric|]. split; [exact Hp'|].
    assert (Hv' : has_vals cs_jet p' (map (fun cv => rnd (s_fmt (fst cv)) (snd cv)) (combine cs_jet [q; q0; q1; q2; q3; q4; q5]))).
    { unfold has_vals. cbn [cs_jet mk_scheme jet_cols gen_format_jetscape combine map s_slot s_fmt fst snd].
      rewrite !Hsame by lia. rewrite G0, G1, G2, G3, G4, G5, G6. reflexivity. }
    rewrite (fj_scheme p' _ Hv'). f_equal. apply toks_idem; [exact fmt_idem|reflexivity].
  Qed.

  (* ---------------------------------------------------------------- the state and its document *)
  Fixpoint jheld_ok (evs : list (list particle)) (cnts : list (Z * Z)) : Prop :=
    match evs, cnts with
    | [], [] => True
    | ev :: evs', (_, n) :: cnts' => n = Z.of_nat (List.length ev) /\ jheld_ok evs' cnts'
    | _, _ => False
    end.
  Definition JInv (s : jstate) : Prop :=
    js_nevents s = Z.of_nat (List.length (js_events s)) /\ jheld_ok (js_events s) (js_counts s).

  Definition jrow_of (p : particle) : line := match FJ p with Ok l => l | Err _ => [] end.
  Fixpoint jdoc_events (defstr : string) (pos : nat) (evs : list (list particle)) (cnts : list (Z * Z)) : list jevent :=
    match evs, cnts with
    | ev :: evs', (_, n) :: cnts' =>
      {| je_head := ["#"; "Event"; dec (Z.of_nat pos + 1); "weight"; "1"; "EPangle"; "0"; defstr; dec n];
         je_rows := map jrow_of ev |} :: jdoc_events defstr (S pos) evs' cnts'
    | _, _ => []
    end.
  Definition jdoc_of (s : jstate) : jdoc :=
    {| jd_h0 := js_header s; jd_events := jdoc_events (js_defstr s) 0 (js_events s) (js_counts s);
       jd_trailer := js_last s |}.

  Lemma jwrite_events_render defstr : forall evs cnts pos,
    jheld_ok evs cnts -> Forall (Forall jrow_rt) evs ->
    write_jet_events fmt dec defstr pos evs cnts = Ok (jrender_events (jdoc_events defstr pos evs cnts)).
  Proof.
    induction evs as [|ev evs IH]; intros cnts pos Hh Hr.
    - destruct cnts; [reflexivity|contradiction].
    - destruct cnts as [|[l n] cnts]; [contradiction|]. destruct Hh as (Hn & Hrest).
      inversion Hr as [|? ? Hr1 Hr2]; subst.
      cbn [write_jet_events jdoc_events]. rewrite Nat2Z.id, take_all. cbn [bind].
      assert (Hm : mapr FJ ev = Ok (map jrow_of ev)).
      { clear - Hr1. induction Hr1 as [|p ev (row & p' & Hrow & _) _ IH]; [reflexivity|].
        cbn [mapr map]. unfold jrow_of at 1. rewrite Hrow, IH. reflexivity. }
      rewrite Hm. cbn [bind]. rewrite (IH cnts (S pos) Hrest Hr2). cbn [bind].
      unfold jrender_events. cbn [flat_map]. unfold jrender_event at 1. cbn [je_head je_rows]. reflexivity.
  Qed.

  Theorem jwrite_is_render s :
    JInv s -> js_events s <> [] -> Forall (Forall jrow_rt) (js_events s) ->
    write_jetscape fmt dec s = Ok (jrender (jdoc_of s)).
  Proof.
    intros (Hn & Hh) Hne Hr. unfold write_jetscape.
    replace (js_nevents s =? 0)%Z with false
      by (symmetry; apply Z.eqb_neq; rewrite Hn; destruct (js_events s); [congruence|cbn; lia]).
    rewrite (jwrite_events_render _ _ _ 0 Hh Hr). reflexivity.
  Qed.

  (* ---------------------------------------------------------------- the written document is well-formed *)
  Definition std_defstr (d : string) : Prop := d = "N_hadrons" \/ d = "N_partons".

  Lemma jhead_ok defstr pos n : std_defstr defstr ->
    let h := ["#"; "Event"; dec (Z.of_nat pos + 1); "weight"; "1"; "EPangle"; "0"; defstr; dec n] in
    is_count_line defstr h = true /\ is_trailer h = false /\ is_evhead h = true.
  Proof.
    intros Hd h. unfold h, is_count_line, is_trailer, is_evhead, has. cbn [existsb].
    assert (A1 := numeric_no contains "sigmaGen" "s"%char (dec (Z.of_nat pos + 1)) (contains_chars "sigmaGen")
                    ltac:(cbn; tauto) eq_refl (dec_numeric _)).
    assert (A2 := numeric_no contains "sigmaGen" "s"%char (dec n) (contains_chars "sigmaGen")
                    ltac:(cbn; tauto) eq_refl (dec_numeric _)).
    set (t1 := dec (Z.of_nat pos + 1)) in *. set (t2 := dec n) in *. clearbody t1 t2.
    rewrite A1, A2.
    destruct Hd as [-> | ->]; consts; cbn [orb andb]; repeat split; vars; reflexivity.
  Qed.

  Lemma jrow_ok defstr row : std_defstr defstr -> forallb numeric row = true ->
    is_count_line defstr row = false /\ is_trailer row = false /\ is_evhead row = false.
  Proof.
    intros _ Hn. unfold is_count_line, is_trailer, is_evhead.
    rewrite (has_numeric "#" row numeric_contains_hash Hn).
    assert (HE : has "Event" row = false).
    { apply has_numeric; [|exact Hn]. intros t Ht.
      apply (numeric_no contains "Event" "v"%char t (contains_chars "Event")); [cbn; tauto|reflexivity|exact Ht]. }
    rewrite HE. repeat split; reflexivity.
  Qed.

  Lemma jdoc_events_wf defstr : std_defstr defstr -> forall evs cnts pos,
    jheld_ok evs cnts -> Forall (Forall jrow_rt) evs ->
    jwf_events tok_float tok_int pdg_valid pdg_charge usqrt defstr pos (jdoc_events defstr pos evs cnts).
  Proof.
    intros Hd. induction evs as [|ev evs IH]; intros cnts pos Hh Hr.
    - destruct cnts; [exact I|contradiction].
    - destruct cnts as [|[l n] cnts]; [contradiction|]. destruct Hh as (Hn & Hrest).
      inversion Hr as [|? ? Hr1 Hr2]; subst.
      cbn [jdoc_events jwf_events]. split; [|apply IH; assumption].
      destruct (jhead_ok defstr pos (Z.of_nat (List.length ev)) Hd) as (H1 & H2 & H3).
      unfold jwf_event. cbn [je_head je_rows]. rewrite map_length.
      refine (conj H1 (conj H2 (conj H3 (conj _ _)))).
      + exists (dec (Z.of_nat pos + 1)), (dec (Z.of_nat (List.length ev))).
        repeat split; try reflexivity; apply dec_int; lia.
      + apply Forall_forall. intros r Hin. apply in_map_iff in Hin. destruct Hin as (p & <- & Hp).
        rewrite Forall_forall in Hr1. destruct (Hr1 p Hp) as (row & p' & Hrow & Hnum & Hmk & _).
        unfold jrow_of. rewrite Hrow. destruct (jrow_ok defstr row Hd Hnum) as (K1 & K2 & K3).
        unfold jwf_row. repeat split; try assumption. exists p'. exact Hmk.
  Qed.

  Theorem jdoc_wf s s1 s2 :
    JInv s -> js_events s <> [] -> std_defstr (js_defstr s) ->
    is_count_line (js_defstr s) (js_header s) = false ->
    is_trailer (js_last s) = true -> is_count_line (js_defstr s) (js_last s) = false ->
    first_floats tok_float 2 (filter (fun t => negb (t =? "")) (js_last s)) = [s1; s2] ->
    Forall (Forall jrow_rt) (js_events s) ->
    jwf tok_float tok_int pdg_valid pdg_charge usqrt (js_defstr s) (jdoc_of s) s1 s2.
  Proof.
    intros (Hn & Hh) Hne Hd Hh0 Ht Htc Hs Hr. unfold jwf, jdoc_of. cbn [jd_h0 jd_events jd_trailer].
    refine (conj Hh0 (conj _ (conj _ (conj Ht (conj Htc Hs))))).
    - destruct (js_events s) as [|ev evs]; [congruence|]. destruct (js_counts s) as [|[l n] c]; [contradiction|]. discriminate.
    - apply jdoc_events_wf; assumption.
  Qed.

  (* ---------------------------------------------------------------- reading back, and writing again *)
  Notation JLOAD := (jload tok_float tok_int pdg_valid pdg_charge usqrt None).
  Notation JEXP := (jexpected tok_float tok_int pdg_valid pdg_charge usqrt).

  Theorem jread_back s s1 s2 :
    JInv s -> js_events s <> [] -> Forall (Forall jrow_rt) (js_events s) ->
    jwf tok_float tok_int pdg_valid pdg_charge usqrt (js_defstr s) (jdoc_of s) s1 s2 ->
    exists file, write_jetscape fmt dec s = Ok file /\
                 JLOAD file (js_defstr s) SelAll = Ok (JEXP (jdoc_of s) s1 s2).
  Proof.
    intros Hi Hne Hr Hwf. exists (jrender (jdoc_of s)). split; [apply jwrite_is_render; assumption|].
    apply jload_render, Hwf.
  Qed.

  Definition jrt_particle (p : particle) : particle := match MKJ (jrow_of p) with Ok p' => p' | Err _ => blank end.

  Definition jreread (s : jstate) (s1 s2 : Q) : jstate :=
    let ld := JEXP (jdoc_of s) s1 s2 in
    {| js_events := j_events ld; js_nevents := j_nevents ld; js_counts := j_counts ld;
       js_defstr := js_defstr s; js_header := js_header s; js_last := js_last s |}.

  Lemma jparse_rt ev : Forall jrow_rt ev ->
    jparse_rows tok_float tok_int pdg_valid pdg_charge usqrt (map jrow_of ev) = map jrt_particle ev.
  Proof.
    induction 1 as [|p ev (row & p' & Hrow & _ & Hmk & _) _ IH]; [reflexivity|].
    assert (E : jrow_of p = row) by (unfold jrow_of; rewrite Hrow; reflexivity).
    cbn [map jparse_rows]. unfold jrt_particle at 1. rewrite E, Hmk, IH. reflexivity.
  Qed.
  Lemma jrows_rt ev : Forall jrow_rt ev -> map jrow_of (map jrt_particle ev) = map jrow_of ev.
  Proof.
    induction 1 as [|p ev (row & p' & Hrow & _ & Hmk & Hrow') _ IH]; [reflexivity|].
    cbn [map]. rewrite IH. f_equal. unfold jrt_particle, jrow_of. rewrite Hrow, Hmk, Hrow'. reflexivity.
  Qed.

  Lemma jdoc_events_rt defstr : forall evs cnts pos,
    jheld_ok evs cnts -> Forall (Forall jrow_rt) evs ->
    let devs := jdoc_events defstr pos evs cnts in
    jdoc_events defstr pos
      (map (fun e => jparse_rows tok_float tok_int pdg_valid pdg_charge usqrt (je_rows e)) devs)
      (jcounts_from pos devs) = devs.
  Proof.
    induction evs as [|ev evs IH]; intros cnts pos Hh Hr; destruct cnts as [|[l n] cnts]; try contradiction; [reflexivity|].
    destruct Hh as (Hn & Hrest). inversion Hr as [|? ? Hr1 Hr2]; subst.
    cbn [jdoc_events map jcounts_from je_rows]. rewrite map_length.
    cbn [jdoc_events]. f_equal.
    - rewrite (jparse_rt ev Hr1), (jrows_rt ev Hr1). reflexivity.
    - apply (IH cnts (S pos) Hrest Hr2).
  Qed.

  Theorem jrewrite_fixpoint s s1 s2 :
    JInv s -> js_events s <> [] -> Forall (Forall jrow_rt) (js_events s) ->
    write_jetscape fmt dec (jreread s s1 s2) = write_jetscape fmt dec s.
  Proof.
    intros Hi Hne Hr. pose proof Hi as (Hn & Hh).
    rewrite (jwrite_is_render s Hi Hne Hr).
    unfold write_jetscape, jreread, jexpected. cbn [js_nevents js_events js_counts js_defstr js_header js_last
                                                    j_events j_nevents j_counts].
    unfold jdoc_of at 1 2 3. cbn [jd_events].
    set (devs := jdoc_events (js_defstr s) 0 (js_events s) (js_counts s)).
    assert (Hlen : List.length devs = List.length (js_events s)).
    { unfold devs. clear - Hh. revert Hh. generalize 0%nat as pos. generalize (js_counts s) as cnts.
      induction (js_events s) as [|ev evs IH]; intros [|[l n] cnts] pos H; try contradiction; [reflexivity|].
      destruct H as (_ & Hr). cbn [jdoc_events List.length]. rewrite (IH cnts (S pos) Hr). reflexivity. }
    rewrite Hlen.
    replace (Z.of_nat (List.length (js_events s)) =? 0)%Z with false
      by (symmetry; apply Z.eqb_neq; destruct (js_events s); [congruence|cbn; lia]).
    pose proof (jdoc_events_rt (js_defstr s) (js_events s) (js_counts s) 0 Hh Hr) as Hd. cbn zeta in Hd. fold devs in Hd.
    assert (Hwe : write_jet_events fmt dec (js_defstr s) 0
                    (map (fun e => jparse_rows tok_float tok_int pdg_valid pdg_charge usqrt (je_rows e)) devs)
                    (jcounts_from 0 devs) = Ok (jrender_events devs)).
    { rewrite <- Hd at 3. apply jwrite_events_render.
      - (* the re-read state is consistent *)
        unfold devs. clear - Hh Hr. revert Hh Hr. generalize 0%nat as pos. generalize (js_counts s) as cnts.
        induction (js_events s) as [|ev evs IH]; intros [|[l n] cnts] pos Hh Hr; try contradiction; [exact I|].
        destruct Hh as (Hn' & Hrest). inversion Hr as [|? ? H1 H2]; subst.
        cbn [jdoc_events map jcounts_from je_rows jheld_ok]. rewrite (jparse_rt ev H1), !map_length.
        split; [reflexivity|]. apply IH; assumption.
      - (* and printable *)
        unfold devs. clear - Hh Hr. revert Hh Hr. generalize 0%nat as pos. generalize (js_counts s) as cnts.
        induction (js_events s) as [|ev evs IH]; intros [|[l n] cnts] pos Hh Hr; try contradiction; [constructor|].
        destruct Hh as (_ & Hrest). inversion Hr as [|? ? H1 H2]; subst.
        cbn [jdoc_events map je_rows]. constructor; [|apply IH; assumption].
        rewrite (jparse_rt ev H1). apply Forall_forall. intros p' Hp'. apply in_map_iff in Hp'.
        destruct Hp' as (p & <- & Hp0). rewrite Forall_forall in H1. destruct (H1 p Hp0) as (row & q & Hrow & Hnum & Hmk & Hrow').
        assert (E : jrow_of p = row) by (unfold jrow_of; rewrite Hrow; reflexivity).
        exists row, q. unfold jrt_particle. rewrite E, Hmk. repeat split; assumption. }
    rewrite Hwe. reflexivity.
  Qed.
End J.

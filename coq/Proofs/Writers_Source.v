(* Source tie for C06: the hand model of the two file writers (Model/Writer.v) equals the method bodies of
   Oscar.py / Jetscape.py as regenerated on every run (Gen/GenWriters.v over Model/WritersRt.v).
   The domain on which the hand model is claimed to describe the code is spelled out as hypotheses
   ([odom] / [jdom] below); what differs outside it is listed in the builder's report. *)
From Coq Require Import List String ZArith QArith Qround Bool Arith Lia.
From SX Require Lib.Py Model.Storer Model.StorerRt Gen.GenStorer Proofs.C04_Source Proofs.C06_Oscar Proofs.C06_Jetscape Proofs.C06_Example.
From SX Require Import Lib.Strs Gen.GenFormats Model.Oscar Model.Writer Model.WritersRt Gen.GenWriters.
Import ListNotations.
Local Open Scope string_scope.

(* ------------------------------------------------------------------ generic *)
Lemma bind_ok {A} (r : result A) : (x <- r ;; Ok x) = r.
Proof. destruct r; reflexivity. Qed.

Lemma mapr_app {A B} (f : A -> result B) (l1 l2 : list A) :
  mapr f (l1 ++ l2) = (a <- mapr f l1 ;; b <- mapr f l2 ;; Ok (a ++ b)%list).
Proof.
  induction l1 as [|x l1 IH]; cbn [mapr app bind].
  - destruct (mapr f l2); reflexivity.
  - destruct (f x); cbn [bind]; [|reflexivity]. rewrite IH.
    destruct (mapr f l1); cbn [bind]; [|reflexivity]. destruct (mapr f l2); reflexivity.
Qed.

Lemma mapr_map {A B C} (g : A -> B) (f : B -> result C) (l : list A) : mapr f (map g l) = mapr (fun a => f (g a)) l.
Proof. induction l as [|x l IH]; cbn [mapr map]; [reflexivity|]. rewrite IH. reflexivity. Qed.

Lemma mapr_ext {A B} (f g : A -> result B) (l : list A) : Forall (fun a => f a = g a) l -> mapr f l = mapr g l.
Proof. induction 1 as [|x l H _ IH]; cbn [mapr]; [reflexivity|]. rewrite H, IH. reflexivity. Qed.

Lemma mapr_total {A B} (f : A -> B) (l : list A) : mapr (fun a => Ok (f a)) l = Ok (map f l).
Proof. induction l as [|x l IH]; cbn [mapr map bind]; [reflexivity|]. rewrite IH. reflexivity. Qed.

Lemma zlen_nil {A} : zlen (@nil A) = 0%Z.
Proof. reflexivity. Qed.
Lemma zlen_cons {A} (a : A) l : zlen (a :: l) = (zlen l + 1)%Z.
Proof. unfold zlen. cbn [List.length]. lia. Qed.
Lemma zlen_app {A} (l m : list A) : zlen (l ++ m) = (zlen l + zlen m)%Z.
Proof. unfold zlen. rewrite app_length. lia. Qed.
Lemma zlen_nonneg {A} (l : list A) : (0 <= zlen l)%Z.
Proof. unfold zlen. lia. Qed.

Lemma pyidx_nat {A} (l : list A) (j : nat) :
  pyidx l (Z.of_nat j) = match nth_error l j with Some a => Ok a | None => Err IndexError end.
Proof.
  unfold pyidx. destruct (Z.of_nat j <? 0)%Z eqn:E; [apply Z.ltb_lt in E; lia|]. rewrite E, Nat2Z.id. reflexivity.
Qed.

(* a loop that appends one computed element per pass *)
Lemma fold_append {A B} (body : list B -> A -> result (list B)) (f : A -> result B) (l : list A) :
  (forall acc a, body acc a = (v <- f a ;; Ok (acc ++ [v])%list)) ->
  forall acc, fold_leftM body l acc = (r <- mapr f l ;; Ok (acc ++ r)%list).
Proof.
  intros Hb. induction l as [|x l IH]; intros acc; cbn [fold_leftM mapr bind].
  - rewrite app_nil_r. reflexivity.
  - rewrite Hb. destruct (f x) as [v|e]; cbn [bind]; [|reflexivity]. rewrite IH.
    destruct (mapr f l); cbn [bind]; [|reflexivity]. rewrite <- app_assoc. reflexivity.
Qed.

(* for i in range(len(l)): the pass number i sees the i-th element *)
Fixpoint foldi {St A} (g : St -> nat -> A -> result St) (j : nat) (l : list A) (s : St) : result St :=
  match l with [] => Ok s | a :: t => s' <- g s j a ;; foldi g (S j) t s' end.

Lemma fold_index {St A} (body : St -> Z -> result St) (g : St -> nat -> A -> result St) (l : list A) :
  forall pre s,
  (forall s j a, nth_error (pre ++ l) j = Some a -> body s (Z.of_nat j) = g s j a) ->
  fold_leftM body (zrange_n (Z.of_nat (List.length pre)) (List.length l)) s = foldi g (List.length pre) l s.
Proof.
  induction l as [|a l IH]; intros pre s Hb; cbn [List.length zrange_n fold_leftM foldi]; [reflexivity|].
  rewrite (Hb s (List.length pre) a) by (rewrite nth_error_app2, Nat.sub_diag by lia; reflexivity).
  destruct (g s (List.length pre) a) as [s'|e]; cbn [bind]; [|reflexivity].
  specialize (IH (pre ++ [a])%list s'). rewrite app_length in IH. cbn [List.length] in IH.
  replace (Z.of_nat (List.length pre) + 1)%Z with (Z.of_nat (List.length pre + 1)) by lia.
  rewrite IH; [replace (List.length pre + 1)%nat with (S (List.length pre)) by lia; reflexivity|].
  intros s0 j a0 Hn. apply Hb. rewrite <- app_assoc in Hn. exact Hn.
Qed.

Lemma py_while_ext {St} (f g : St -> result (St * bool)) : (forall s, f s = g s) ->
  forall n s, py_while n f s = py_while n g s.
Proof. intros H n. induction n as [|n IH]; intros s; cbn [py_while]; [reflexivity|]. rewrite H. destruct (g s) as [[s' b]|e]; cbn [bind snd fst]; [|reflexivity]. destruct b; [reflexivity|apply IH]. Qed.

Lemma while_fuel_big : (2000000 <= Z.of_nat while_fuel)%Z.
Proof. unfold while_fuel. rewrite Z2Nat.id; lia. Qed.
Global Opaque while_fuel.

(* ------------------------------------------------------------------ BaseStorer.particle_list() on the writer state *)
Definition counts_match (evs : list (list particle)) (cnts : list (Z * Z)) : Prop :=
  Forall2 (fun ev c => snd c = zlen ev) evs cnts.

Lemma zrange_n_length a n : List.length (zrange_n a n) = n.
Proof. revert a; induction n as [|n IH]; intros a; cbn [zrange_n List.length]; [reflexivity|]. rewrite IH. reflexivity. Qed.

Lemma storer_zrange a n : StorerRt.zrange_n a n = zrange_n a n.
Proof. revert a; induction n as [|n IH]; intros a; cbn; [reflexivity|]. rewrite IH. reflexivity. Qed.

Lemma take_event_all (ev : list Z) c : c = Storer.zlen ev -> Storer.take_event c (Some ev) = Py.Ok ev.
Proof.
  intros ->. unfold Storer.take_event. destruct (Storer.zlen ev <=? 0)%Z eqn:E.
  - apply Z.leb_le in E. destruct ev; [reflexivity|]. unfold Storer.zlen in E. cbn [List.length] in E. lia.
  - rewrite Z.leb_refl. unfold Storer.zlen. rewrite Nat2Z.id, firstn_all. reflexivity.
Qed.

Lemma plist_loop_all : forall evs cnts k, counts_match evs cnts ->
  Storer.plist_loop (List.length evs) (map snd cnts) (numbering k evs) = Py.Ok (numbering k evs).
Proof.
  induction evs as [|ev evs IH]; intros cnts k H; inversion H as [|? c ? cnts' Hc Hr]; subst; cbn [List.length Storer.plist_loop numbering map]; [reflexivity|].
  cbn [hd_error tl]. rewrite take_event_all by (rewrite Hc; unfold Storer.zlen, zlen; rewrite zrange_n_length; reflexivity).
  cbn [Py.rbind]. rewrite (IH cnts' _ Hr). reflexivity.
Qed.

Lemma rowk_range (rowf : particle -> result row) (ev post : list particle) : forall pre,
  mapr (fun k => p <- lookup_p (pre ++ ev ++ post) k ;; rowf p) (zrange_n (zlen pre) (List.length ev)) = mapr rowf ev.
Proof.
  induction ev as [|p ev IH]; intros pre; cbn [List.length zrange_n mapr]; [reflexivity|].
  unfold lookup_p at 1. destruct (zlen pre <? 0)%Z eqn:E; [apply Z.ltb_lt in E; pose proof (zlen_nonneg pre); lia|].
  unfold zlen at 1. rewrite Nat2Z.id, nth_error_app2, Nat.sub_diag by lia. cbn [nth_error app bind].
  destruct (rowf p) as [r|e]; cbn [bind]; [|reflexivity].
  specialize (IH (pre ++ [p])%list). rewrite zlen_app in IH. change (zlen [p]) with 1%Z in IH.
  rewrite <- app_assoc in IH. cbn [app] in IH. rewrite IH. reflexivity.
Qed.

Lemma rowk_numbering (rowf : particle -> result row) : forall (evs : list (list particle)) pre,
  mapr (mapr (fun k => p <- lookup_p (pre ++ List.concat evs) k ;; rowf p)) (numbering (zlen pre) evs) = mapr (mapr rowf) evs.
Proof.
  induction evs as [|ev evs IH]; intros pre; cbn [numbering mapr List.concat]; [reflexivity|].
  rewrite rowk_range. destruct (mapr rowf ev) as [r|e]; cbn [bind]; [|reflexivity].
  specialize (IH (pre ++ ev)%list). rewrite zlen_app, <- app_assoc in IH. rewrite IH. reflexivity.
Qed.

Lemma particle_list_spec (rowf : particle -> result row) evs cnts :
  counts_match evs cnts ->
  py_particle_list GenStorer.gen_particle_list rowf (Some evs) (Some cnts) (Some (zlen evs))
  = match evs with
    | [] => Ok PL0
    | [ev] => match ev with [] => Ok PL0 | _ :: _ => rs <- mapr rowf ev ;; Ok (PFlat rs) end
    | _ :: _ :: _ => rss <- mapr (mapr rowf) evs ;; Ok (PNested rss)
    end.
Proof.
  intros H. unfold py_particle_list. rewrite C04_Source.source_particle_list.
  unfold Storer.particle_list, storer_view. cbn [Storer.nevents Storer.counts Storer.events].
  destruct evs as [|ev [|ev2 evs]].
  - reflexivity.
  - inversion H as [|? c ? cnts' Hc Hr]; subst. inversion Hr; subst. destruct c as [lab c]. cbn [snd] in Hc.
    cbn [numbering hd_error]. change (zlen [ev]) with 1%Z. cbn [Z.eqb Pos.eqb Py.rbind].
    rewrite take_event_all by (rewrite Hc; unfold Storer.zlen, zlen; rewrite zrange_n_length; reflexivity).
    cbn [Py.rbind Py.rmap lift_py bind]. destruct ev as [|p ev].
    + reflexivity.
    + cbn [List.length zrange_n StorerRt.plres_pv]. cbn [List.concat]. rewrite app_nil_r.
      pose proof (rowk_range rowf (p :: ev) [] []) as R. rewrite app_nil_r in R. cbn [app List.length zrange_n] in R.
      change (zlen []) with 0%Z in R. rewrite R. reflexivity.
  - assert (E0 : (zlen (ev :: ev2 :: evs) =? 0)%Z = false) by (apply Z.eqb_neq; rewrite !zlen_cons; pose proof (zlen_nonneg evs); lia).
    assert (E1 : (zlen (ev :: ev2 :: evs) =? 1)%Z = false) by (apply Z.eqb_neq; rewrite !zlen_cons; pose proof (zlen_nonneg evs); lia).
    rewrite E0, E1. cbn [Py.rbind]. unfold zlen at 1. rewrite Nat2Z.id.
    rewrite (plist_loop_all _ _ 0%Z H). cbn [Py.rmap lift_py bind numbering StorerRt.plres_pv].
    pose proof (rowk_numbering rowf (ev :: ev2 :: evs) []) as R. cbn [app numbering] in R.
    change (zlen []) with 0%Z in R. rewrite R. destruct ev; reflexivity.
Qed.

(* ------------------------------------------------------------------ _particle_as_list *)
Definition trq (v : Q) : Q := inject_Z (Py.Qtrunc v).

Lemma qtrunc_inject z : Py.Qtrunc (inject_Z z) = z.
Proof.
  unfold Py.Qtrunc. destruct (Qle_bool 0 (inject_Z z)); unfold inject_Z, Qfloor, Qopp; cbn [Qnum Qden];
    rewrite Z.div_1_r; lia.
Qed.
Lemma trq_idem v : trq (trq v) = trq v.
Proof. unfold trq. rewrite qtrunc_inject. reflexivity. Qed.

(* the cell an int() / float() column contributes (int(int(x)): the getter of an integer property already truncates) *)
Definition cellf (p : particle) (c : wcol) : result (option Q) :=
  if snd c then match get_slot (snd (fst c)) p with Some v => Ok (Some (trq (trq v))) | None => Err ValueError end
  else Ok (get_slot (snd (fst c)) p).
(* `if not np.isnan(particle.a): append(int(particle.a))` for an integer / a float property *)
Definition optcol_i (p : particle) (slot : nat) : row :=
  match get_slot slot p with Some v => [Some (trq (trq v))] | None => [] end.
Definition optcol_f (p : particle) (slot : nat) : row :=
  match get_slot slot p with Some v => [Some (trq v)] | None => [] end.
Definition is_ext3 (f : string) : bool :=
  (f =? "Oscar2013Extended") || (f =? "Oscar2013Extended_IC") || (f =? "Oscar2013Extended_Photons").

(* closed form of Oscar._particle_as_list: every input, every exception *)
Definition oscar_row_spec (format : string) (attrs : list string) (p : particle) : result row :=
  if format =? "ASCII" then mapr (py_prop gen_particle_props p) attrs
  else
    base <- mapr (cellf p) wcols_2013 ;;
    if is_ext3 format then
      e8 <- mapr (cellf p) (skipn 12 wcols_ext20) ;;
      Ok (base ++ e8 ++ (if negb (format =? "Oscar2013Extended_Photons") then optcol_i p 22 ++ optcol_i p 23
                         else optcol_f p 24))%list
    else if negb (format =? "Oscar2013") then Err TypeError else Ok base.

Lemma py_prop_lit p name slot isint : assoc name gen_particle_props = Some (slot, isint) ->
  py_prop gen_particle_props p name = Ok (if isint then option_map (fun v => inject_Z (Py.Qtrunc v)) (get_slot slot p) else get_slot slot p).
Proof. intros H. unfold py_prop. rewrite H. reflexivity. Qed.

Ltac props_lit :=
  repeat match goal with
         | |- context [py_prop gen_particle_props ?q (String ?a ?s)] =>
           rewrite (py_prop_lit q (String a s) _ _ eq_refl)
         end.
Ltac step_int p :=
  match goal with
  | |- context [py_int (option_map ?f (get_slot ?k p))] => destruct (get_slot k p) eqn:?
  | |- context [py_isnan (option_map ?f (get_slot ?k p))] => destruct (get_slot k p) eqn:?
  | |- context [py_isnan (get_slot ?k p)] => destruct (get_slot k p) eqn:?
  end; cbn [bind py_int option_map py_float py_isnan notM negb].

Theorem source_oscar_particle_as_list_spec self p :
  gen_oscar_particle_as_list self p = oscar_row_spec (o_format self) (o_attrs self) p.
Proof.
  unfold gen_oscar_particle_as_list, oscar_row_spec, is_ext3. set (f := o_format self).
  destruct (f =? "ASCII") eqn:EA.
  - rewrite bind_ok. rewrite (fold_append _ (py_prop gen_particle_props p)) by (intros; apply bind_ok).
    cbn [app]. apply bind_ok.
  - cbv zeta. props_lit.
    cbn [mapr cellf wcols_2013 wcols_ext20 skipn app fst snd optcol_i optcol_f].
    destruct (f =? "Oscar2013Extended") eqn:E1; destruct (f =? "Oscar2013Extended_IC") eqn:E2;
      destruct (f =? "Oscar2013Extended_Photons") eqn:E3; destruct (f =? "Oscar2013") eqn:E4;
      cbn [orb andb negb bind py_int option_map py_float py_isnan notM];
      repeat step_int p; unfold optcol_i, optcol_f;
      repeat match goal with H : get_slot _ p = _ |- _ => rewrite H; clear H end; reflexivity.
Qed.

(* ---- the hand model's values and the cells of the source *)
Definition cellq (b : bool) (v : Q) : option Q := Some (if b then trq v else v).
Definition cellsQ (flags : list bool) (vs : list Q) : row := map (fun bv => cellq (fst bv) (snd bv)) (combine flags vs).
Definition ascii_flag (a : string) : bool := match assoc a attr_table with Some (_, b) => b | None => false end.
(* which columns of the row are written through int() *)
Definition row_flags (format : string) (attrs : list string) (p : particle) : list bool :=
  if format =? "ASCII" then map ascii_flag attrs
  else match wcols_of format p with Ok cs => map snd cs | Err _ => [] end.

Lemma mapr_cellf p cs : forall vs, mapr (fun c => col_value c p) cs = Ok vs -> mapr (cellf p) cs = Ok (cellsQ (map snd cs) vs).
Proof.
  induction cs as [|c cs IH]; intros vs H; cbn [mapr map] in *.
  - injection H as <-. reflexivity.
  - unfold col_value at 1 in H. unfold cellf at 1. destruct (get_slot (snd (fst c)) p) as [v|] eqn:E.
    + cbn [bind] in H. destruct (mapr (fun c0 => col_value c0 p) cs) as [vs'|] eqn:E2; cbn [bind] in H; [|discriminate].
      injection H as <-. rewrite (IH vs' eq_refl). unfold cellsQ. cbn [combine map fst snd bind]. unfold cellq.
      destruct (snd c); [rewrite trq_idem|]; reflexivity.
    + destruct (snd c); discriminate.
Qed.

Lemma spec_is_cellf f attrs p cs : (f =? "ASCII") = false -> wcols_of f p = Ok cs ->
  oscar_row_spec f attrs p = mapr (cellf p) cs.
Proof.
  intros EA H. unfold oscar_row_spec. rewrite EA. unfold wcols_of in H.
  destruct (f =? "Oscar2013") eqn:E1.
  - injection H as <-. apply String.eqb_eq in E1. subst f. cbn [is_ext3 String.eqb Ascii.eqb Bool.eqb orb negb].
    destruct (mapr (cellf p) wcols_2013); reflexivity.
  - destruct ((f =? "Oscar2013Extended") || (f =? "Oscar2013Extended_IC")) eqn:E2; [|discriminate].
    assert (Hcs : cs = ((wcols_2013 ++ skipn 12 wcols_ext20)
                        ++ (match get_slot 22 p with Some _ => [wcol_baryon] | None => [] end)
                        ++ (match get_slot 23 p with Some _ => [wcol_strange] | None => [] end))%list)
      by (injection H as <-; reflexivity).
    subst cs. clear H.
    assert (E3 : is_ext3 f = true) by (unfold is_ext3; rewrite E2; reflexivity).
    assert (E4 : (f =? "Oscar2013Extended_Photons") = false).
    { apply orb_true_iff in E2. destruct E2 as [E|E]; apply String.eqb_eq in E; subst f; reflexivity. }
    rewrite E3, E4. cbn [negb].
    rewrite !mapr_app.
    destruct (mapr (cellf p) wcols_2013) as [a|]; cbn [bind]; [|reflexivity].
    destruct (mapr (cellf p) (skipn 12 wcols_ext20)) as [b|]; cbn [bind]; [|reflexivity].
    unfold optcol_i, wcol_baryon, wcol_strange.
    destruct (get_slot 22 p) eqn:S22; destruct (get_slot 23 p) eqn:S23;
      cbn [mapr bind app fst snd cellf]; rewrite ?S22, ?S23; cbn [bind app]; rewrite ?app_nil_r, <- ?app_assoc; reflexivity.
Qed.

Lemma attr_table_props a x : assoc a attr_table = Some x -> assoc a gen_particle_props = Some x.
Proof.
  unfold attr_table, gen_particle_props; cbn [assoc].
  repeat match goal with
         | |- context [(a =? ?k)%string] =>
           destruct (a =? k)%string eqn:E;
           [apply String.eqb_eq in E; subst a; vm_compute; intro H; first [exact H | discriminate H] | clear E]
         end.
  intro H; discriminate H.
Qed.

Lemma spec_ascii p attrs : forall vs,
  mapr (fun a => match assoc a attr_table with Some (s, isint) => col_value (a, s, isint) p | None => Err OtherError end) attrs = Ok vs ->
  mapr (py_prop gen_particle_props p) attrs = Ok (cellsQ (map ascii_flag attrs) vs).
Proof.
  induction attrs as [|a attrs IH]; intros vs H; cbn [mapr map] in *.
  - injection H as <-. reflexivity.
  - destruct (assoc a attr_table) as [[s isint]|] eqn:E; [|discriminate].
    unfold py_prop at 1. rewrite (attr_table_props _ _ E). unfold col_value in H at 1. cbn [fst snd] in H.
    destruct (get_slot s p) as [v|]; [|destruct isint; discriminate]. cbn [bind] in H |- *.
    destruct (mapr _ attrs) as [vs'|] eqn:E2; cbn [bind] in H; [|discriminate]. injection H as <-.
    rewrite (IH vs' eq_refl). unfold cellsQ, ascii_flag. rewrite E. cbn [combine map fst snd bind]. unfold cellq, trq.
    destruct isint; reflexivity.
Qed.

(* what the hand model takes as the values of a row are the cells of the source row (integer columns truncated) *)
Theorem source_oscar_particle_as_list self p vs :
  row_values (o_format self) (o_attrs self) p = Ok vs ->
  gen_oscar_particle_as_list self p = Ok (cellsQ (row_flags (o_format self) (o_attrs self) p) vs).
Proof.
  intros H. rewrite source_oscar_particle_as_list_spec. unfold row_values, row_flags in *.
  destruct (o_format self =? "ASCII") eqn:EA.
  - unfold oscar_row_spec. rewrite EA. apply spec_ascii. exact H.
  - destruct (wcols_of (o_format self) p) as [cs|] eqn:E; cbn [bind] in H; [|discriminate].
    rewrite (spec_is_cellf _ _ _ cs EA E). apply mapr_cellf. exact H.
Qed.

(* ---- Jetscape._particle_as_list *)
Theorem source_jetscape_particle_as_list_spec self p :
  gen_jetscape_particle_as_list self p = mapr (cellf p) jet_cols.
Proof.
  unfold gen_jetscape_particle_as_list. cbv zeta. props_lit.
  cbn [mapr cellf jet_cols fst snd bind py_int option_map py_float].
  repeat step_int p; reflexivity.
Qed.

Theorem source_jetscape_particle_as_list self p vs :
  mapr (fun c => col_value c p) jet_cols = Ok vs ->
  gen_jetscape_particle_as_list self p = Ok (cellsQ (map snd jet_cols) vs).
Proof. intros H. rewrite source_jetscape_particle_as_list_spec. apply mapr_cellf. exact H. Qed.

(* ---- formatting a row: integer columns are printed with %d, which prints the integer part *)
Fixpoint fl_ok (flags : list bool) (fs : list colfmt) : bool :=
  match flags, fs with
  | b :: bs, f :: fs' => implb b (match f with FD => true | _ => false end) && fl_ok bs fs'
  | _, _ => true
  end.

Lemma cellsQ_length flags vs : List.length flags = List.length vs -> List.length (cellsQ flags vs) = List.length vs.
Proof. intros H. unfold cellsQ. rewrite map_length, combine_length, H. lia. Qed.

Section FmtRow.
  Variable fmt : colfmt -> Q -> string.
  Hypothesis Hfd : forall v, fmt FD (trq v) = fmt FD v.

  Lemma fmt_row_cells : forall fs flags vs, fl_ok flags fs = true -> List.length flags = List.length vs ->
    fmt_row fmt fs (cellsQ flags vs) = zipfmt fmt fs vs.
  Proof.
    induction fs as [|f fs IH]; intros flags vs Hok Hlen.
    - destruct vs as [|v vs]; destruct flags as [|b bs]; try discriminate; reflexivity.
    - destruct vs as [|v vs]; destruct flags as [|b bs]; try discriminate; [reflexivity|].
      cbn [fl_ok] in Hok. apply andb_true_iff in Hok. destruct Hok as [Hb Hok]. cbn [List.length] in Hlen.
      unfold cellsQ. cbn [combine map fst snd fmt_row zipfmt fmt_cell cellq bind].
      change (map (fun bv => cellq (fst bv) (snd bv)) (combine bs vs)) with (cellsQ bs vs).
      rewrite (IH bs vs Hok) by lia.
      assert (E : fmt f (if b then trq v else v) = fmt f v).
      { destruct b; [|reflexivity]. destruct f; try discriminate. apply Hfd. }
      rewrite E. destruct (zipfmt fmt fs vs); reflexivity.
  Qed.
End FmtRow.

(* ------------------------------------------------------------------ Oscar.__event_footer *)
Theorem source_oscar_event_footer dec self lab (pos : nat) :
  (0 <= lab)%Z ->
  (forall f, nth_error (o_end_lines self) (Z.to_nat lab) = Some f -> (4 <= List.length f)%nat) ->
  gen_oscar_event_footer dec self lab (Z.of_nat pos) = footer_for dec (o_end_lines self) lab pos.
Proof.
  intros Hl H4. unfold gen_oscar_event_footer, footer_for, pyidx.
  destruct (lab <? 0)%Z eqn:E; [apply Z.ltb_lt in E; lia|]. rewrite E.
  destruct (nth_error (o_end_lines self) (Z.to_nat lab)) as [f|] eqn:En; [|reflexivity].
  specialize (H4 f eq_refl). destruct f as [|a [|b [|c [|d t]]]]; cbn [List.length] in H4; try lia.
  cbn [bind]. unfold py_nl_set, pyset, py_split_nl, py_nl_join. cbn [Z.ltb Z.compare].
  assert (Hn : zlen (a :: b :: c :: d :: t) = (zlen t + 4)%Z) by (rewrite !zlen_cons; lia).
  rewrite Hn. pose proof (zlen_nonneg t) as Hp.
  destruct (zlen t + 4 <=? 2)%Z eqn:E1; [apply Z.leb_le in E1; lia|].
  destruct (2 =? zlen t + 4 - 1)%Z eqn:E2; [apply Z.eqb_eq in E2; lia|].
  cbn [orb bind]. reflexivity.
Qed.

(* the label is looked up as a Python index: a label past the end lines is an IndexError in both *)

(* ------------------------------------------------------------------ the header scan of Oscar.print_particle_lists_to_file *)
Definition line_is_end (t : list string) : result bool :=
  andM (x <- pyidx t 0 ;; Ok (x =? "#")) (x <- pyidx t 3 ;; Ok (x =? "end")).
Definition scan_step (st : Z * list rline * list line) : result ((Z * list rline * list line) * bool) :=
  let '(c, h, f) := st in
  let '(l, f') := py_readline f in
  if (c <? 3)%Z then Ok ((c + 1, h ++ [l], f')%Z%list, false)
  else b <- line_is_end (py_split_line l) ;;
       if b then Ok ((c, h, f'), true)
       else if (c >? 1000000)%Z then Err OtherError else Ok ((c + 1, h, f')%Z, false).

(* the source file: three header lines, then lines that are not end lines up to the first end line *)
Definition src_ok (src : list line) (header : list line) : Prop :=
  exists h1 h2 h3 pre endl post,
    header = [h1; h2; h3] /\ src = (h1 :: h2 :: h3 :: pre ++ endl :: post)%list /\
    Forall (fun l => line_is_end l = Ok false) pre /\ line_is_end endl = Ok true /\
    (Z.of_nat (List.length pre) + 2 <= 1000000)%Z.

Lemma scan_tail endl post : line_is_end endl = Ok true ->
  forall pre m c h, Forall (fun l => line_is_end l = Ok false) pre -> (3 <= c)%Z -> (c + Z.of_nat (List.length pre) <= 1000001)%Z ->
  py_while (List.length pre + 1 + m) scan_step (c, h, pre ++ endl :: post)%list = Ok ((c + Z.of_nat (List.length pre))%Z, h, post).
Proof.
  intros He. induction pre as [|l pre IH]; intros m c h Hp Hc Hb; cbn [List.length Nat.add py_while app].
  - unfold scan_step. cbn [py_readline py_split_line]. destruct (c <? 3)%Z eqn:E; [apply Z.ltb_lt in E; lia|].
    rewrite He. cbn [bind snd fst]. rewrite Z.add_0_r. reflexivity.
  - inversion Hp as [|? ? Hl Hp']; subst. unfold scan_step at 1. cbn [py_readline py_split_line].
    destruct (c <? 3)%Z eqn:E; [apply Z.ltb_lt in E; lia|]. rewrite Hl. cbn [bind].
    destruct (c >? 1000000)%Z eqn:E2; [apply Z.gtb_lt in E2; cbn [List.length] in Hb; lia|]. cbn [bind snd fst].
    rewrite IH by (try assumption; cbn [List.length] in Hb; lia). f_equal. f_equal. f_equal. cbn [List.length]. lia.
Qed.

Lemma scan_step_head c h l f : (c <? 3)%Z = true -> scan_step (c, h, l :: f) = Ok ((c + 1)%Z, (h ++ [RL l])%list, f, false).
Proof. intros E. unfold scan_step. cbn [py_readline]. rewrite E. reflexivity. Qed.

Lemma scan_run src header : src_ok src header ->
  exists c post, py_while while_fuel scan_step (0%Z, [], src) = Ok (c, map RL header, post).
Proof.
  intros (h1 & h2 & h3 & pre & endl & post & -> & -> & Hp & He & Hb).
  pose proof while_fuel_big as Hf.
  assert (Hm : exists m, while_fuel = S (S (S (List.length pre + 1 + m)))) by (exists (while_fuel - 3 - List.length pre - 1)%nat; lia).
  destruct Hm as [m ->]. clear Hf. eexists. exists post.
  cbn [py_while].
  rewrite scan_step_head by reflexivity. cbn [bind snd fst].
  rewrite scan_step_head by reflexivity. cbn [bind snd fst].
  rewrite scan_step_head by reflexivity. cbn [bind snd fst app].
  assert (A1 : (3 <= 0 + 1 + 1 + 1)%Z) by lia.
  assert (A2 : (0 + 1 + 1 + 1 + Z.of_nat (List.length pre) <= 1000001)%Z) by lia.
  rewrite (scan_tail endl post He pre m (0 + 1 + 1 + 1)%Z _ Hp A1 A2). reflexivity.
Qed.

(* ------------------------------------------------------------------ np.asarray + np.savetxt of rows without NaN *)
Definition no_nan (r : row) : Prop := Forall (fun c => c <> None) r.

Section Savetxt.
  Variable fmt : colfmt -> Q -> string.

  Lemma fmt_row_ok : forall fs r, no_nan r -> List.length r = List.length fs -> exists l, fmt_row fmt fs r = Ok l.
  Proof.
    induction fs as [|f fs IH]; intros [|c r] Hn Hl; try discriminate; [exists []; reflexivity|].
    inversion Hn as [|? ? Hc Hn']; subst. destruct c as [v|]; [|congruence]. cbn [fmt_row fmt_cell bind].
    destruct (IH r Hn') as [l ->]; [cbn [List.length] in Hl; lia|]. eexists; reflexivity.
  Qed.
  Lemma fmt_row_bad : forall fs r, no_nan r -> List.length r <> List.length fs -> fmt_row fmt fs r = Err ValueError.
  Proof.
    induction fs as [|f fs IH]; intros [|c r] Hn Hl; try reflexivity; [cbn [List.length] in Hl; lia|].
    inversion Hn as [|? ? Hc Hn']; subst. destruct c as [v|]; [|congruence]. cbn [fmt_row fmt_cell bind].
    rewrite (IH r Hn') by (cbn [List.length] in Hl; lia). reflexivity.
  Qed.
  Lemma mapr_rows_bad fs : forall rows, Forall no_nan rows ->
    forallb (fun r => (List.length r =? List.length fs)%nat) rows = false -> mapr (fmt_row fmt fs) rows = Err ValueError.
  Proof.
    induction rows as [|r rows IH]; intros Hn Hb; [discriminate|]. inversion Hn as [|? ? Hr Hn']; subst.
    cbn [forallb mapr] in *. destruct (List.length r =? List.length fs)%nat eqn:E.
    - apply Nat.eqb_eq in E. destruct (fmt_row_ok fs r Hr E) as [l ->]. cbn [bind]. rewrite (IH Hn' Hb). reflexivity.
    - apply Nat.eqb_neq in E. rewrite (fmt_row_bad fs r Hr E). reflexivity.
  Qed.

  Lemma savetxt_rows h rows fs : rows <> [] -> Forall no_nan rows ->
    (x <- py_asarray_rows rows ;; py_savetxt fmt h x fs) = (ls <- mapr (fmt_row fmt fs) rows ;; Ok (h ++ ls)%list).
  Proof.
    intros Hne Hn. destruct rows as [|r0 t]; [congruence|]. unfold py_asarray_rows.
    destruct (forallb (fun r => (List.length r =? List.length fs)%nat) (r0 :: t)) eqn:Eall.
    - cbn [forallb] in Eall. apply andb_true_iff in Eall. destruct Eall as [E0 Et]. apply Nat.eqb_eq in E0.
      assert (Eh : forallb (fun y => (List.length y =? List.length r0)%nat) t = true).
      { rewrite E0. exact Et. }
      rewrite Eh. cbn [bind]. unfold py_savetxt. rewrite E0, Nat.eqb_refl. reflexivity.
    - rewrite (mapr_rows_bad fs (r0 :: t) Hn Eall). cbn [bind].
      destruct (forallb (fun y => (List.length y =? List.length r0)%nat) t) eqn:Eh; [|reflexivity].
      cbn [bind]. unfold py_savetxt. destruct (List.length r0 =? List.length fs)%nat eqn:E0; [|reflexivity].
      exfalso. apply Nat.eqb_eq in E0. cbn [forallb] in Eall. rewrite E0, Nat.eqb_refl in Eall. cbn [andb] in Eall.
      rewrite <- E0 in Eall. congruence.
  Qed.
End Savetxt.

(* ------------------------------------------------------------------ formats against integer columns *)
Lemma mapr_length {A B} (f : A -> result B) : forall l r, mapr f l = Ok r -> List.length r = List.length l.
Proof.
  induction l as [|x l IH]; intros r H; cbn [mapr] in H; [injection H as <-; reflexivity|].
  destruct (f x); cbn [bind] in H; [|discriminate]. destruct (mapr f l) eqn:E; cbn [bind] in H; [|discriminate].
  injection H as <-. cbn [List.length]. rewrite (IH _ eq_refl). reflexivity.
Qed.

Lemma ascii_fd a s f : assoc a attr_table = Some (s, true) -> assoc a gen_format_map = Some f -> f = FD.
Proof.
  unfold attr_table, gen_format_map; cbn [assoc].
  repeat match goal with
         | |- context [(a =? ?k)%string] =>
           destruct (a =? k)%string eqn:E;
           [apply String.eqb_eq in E; subst a; vm_compute; intros H1 H2; congruence | clear E]
         end.
  intro H; discriminate H.
Qed.

Lemma fl_ok_app f1 f2 g1 g2 : List.length f1 = List.length g1 -> fl_ok f1 g1 = true -> fl_ok f2 g2 = true -> fl_ok (f1 ++ f2) (g1 ++ g2) = true.
Proof.
  revert g1. induction f1 as [|b f1 IH]; intros [|g g1] Hl H1 H2; try discriminate; [exact H2|].
  cbn [app fl_ok] in *. apply andb_true_iff in H1. destruct H1 as [Ha Hb]. rewrite Ha. cbn [andb]. apply IH; [cbn [List.length] in Hl; lia|assumption..].
Qed.

Lemma fl_ok_fd flags k : fl_ok flags (repeat FD k) = true.
Proof. revert k. induction flags as [|b flags IH]; intros [|k]; cbn [repeat fl_ok]; try reflexivity. rewrite IH. destruct b; reflexivity. Qed.

Definition ext2 (f : string) : bool := (f =? "Oscar2013Extended") || (f =? "Oscar2013Extended_IC").
Definition ext_fmt (ncols : nat) : list colfmt := (gen_format_extended ++ repeat FD (ncols - 20))%list.

Lemma row_formats_cases f attrs n fs : row_formats f attrs n = Ok fs ->
  ((f =? "Oscar2013") = true /\ fs = gen_format_oscar2013) \/
  ((f =? "Oscar2013") = false /\ ext2 f = true /\ fs = ext_fmt n) \/
  ((f =? "Oscar2013") = false /\ ext2 f = false /\ (f =? "ASCII") = true /\
   mapr (fun a => match assoc a gen_format_map with Some x => Ok x | None => Err KeyError end) attrs = Ok fs).
Proof.
  unfold row_formats, ext2, ext_fmt. destruct (f =? "Oscar2013").
  - intros H; injection H as <-. left. split; reflexivity.
  - destruct ((f =? "Oscar2013Extended") || (f =? "Oscar2013Extended_IC")).
    + intros H; injection H as <-. right; left. repeat split.
    + destruct (f =? "ASCII"); [|discriminate]. intros H. right; right. repeat split. exact H.
Qed.

(* the formats of a row and which of its columns are integers agree; the row has one flag per value *)
Lemma flags_ok f attrs n p vs fs : row_values f attrs p = Ok vs -> row_formats f attrs n = Ok fs ->
  fl_ok (row_flags f attrs p) fs = true /\ List.length (row_flags f attrs p) = List.length vs.
Proof.
  intros Hv Hf. destruct (row_formats_cases _ _ _ _ Hf) as [(E1 & ->)|[(E1 & E2 & ->)|(E1 & E2 & E3 & Hm)]]; unfold row_values, row_flags in *.
  - apply String.eqb_eq in E1. subst f. cbn [String.eqb Ascii.eqb Bool.eqb wcols_of bind] in *.
    apply mapr_length in Hv. rewrite map_length. split; [reflexivity|symmetry; exact Hv].
  - assert (EA : (f =? "ASCII") = false).
    { unfold ext2 in E2. apply orb_true_iff in E2. destruct E2 as [E|E]; apply String.eqb_eq in E; subst f; reflexivity. }
    rewrite EA in *. unfold wcols_of in *. rewrite E1 in *. unfold ext2 in E2. rewrite E2 in *. cbn [bind] in Hv.
    apply mapr_length in Hv. rewrite map_length. split; [|symmetry; exact Hv].
    rewrite map_app. unfold ext_fmt. apply fl_ok_app; [reflexivity|reflexivity|].
    apply fl_ok_fd.
  - rewrite E3 in *. split; [|rewrite map_length; apply mapr_length in Hv; symmetry; exact Hv].
    clear Hf. revert vs fs Hv Hm. induction attrs as [|a attrs IH]; intros vs fs Hv Hm; [reflexivity|].
    cbn [mapr map] in *. destruct (assoc a attr_table) as [[s isint]|] eqn:Ea; [|discriminate].
    destruct (col_value (a, s, isint) p); cbn [bind] in Hv; [|discriminate].
    destruct (mapr _ attrs) as [vs'|] eqn:Ev in Hv; cbn [bind] in Hv; [|discriminate].
    destruct (assoc a gen_format_map) as [x|] eqn:Ex; cbn [bind] in Hm; [|discriminate].
    destruct (mapr _ attrs) as [fs'|] eqn:Efs in Hm; cbn [bind] in Hm; [|discriminate]. injection Hm as <-.
    cbn [fl_ok]. rewrite (IH vs' fs' Ev Efs). unfold ascii_flag. rewrite Ea.
    destruct isint; [|reflexivity]. rewrite (ascii_fd _ _ _ Ea Ex). reflexivity.
Qed.

(* ------------------------------------------------------------------ Oscar.print_particle_lists_to_file *)
Definition oself_of (src : list line) (s : ostate) : oself :=
  mkOself src (os_format s) (os_attrs s) (os_footers s) (Some (os_events s)) (Some (os_counts s)) (Some (os_nevents s)).

(* the row of a held particle as the source computes it *)
Definition crow (s : ostate) (p : particle) : row :=
  match row_values (os_format s) (os_attrs s) p with
  | Ok vs => cellsQ (row_flags (os_format s) (os_attrs s) p) vs
  | Err _ => []
  end.
Definition ncols_of (s : ostate) : nat := first_ncols (os_format s) (os_attrs s) (os_events s).
Definition row_ok (s : ostate) (p : particle) : Prop := exists vs, row_values (os_format s) (os_attrs s) p = Ok vs.
Definition rows_ok (s : ostate) : Prop := Forall (Forall (row_ok s)) (os_events s).
Definition formats_ok (s : ostate) : Prop := exists fs, row_formats (os_format s) (os_attrs s) (ncols_of s) = Ok fs.
Definition footers4 (s : ostate) : Prop :=
  Forall (fun c => forall f, nth_error (os_footers s) (Z.to_nat (fst c)) = Some f -> (4 <= List.length f)%nat) (os_counts s).
Definition late_ext_free (s : ostate) (evs : list (list particle)) : Prop :=
  ext2 (os_format s) = true ->
  Forall (fun ev => match ev with p :: _ => (20 < List.length (crow s p))%nat -> (20 < ncols_of s)%nat | [] => True end) evs.

Record odom (src : list line) (s : ostate) : Prop := {
  d_inv : C06_Oscar.Inv s;                 (* counts describe the held events, labels have end lines, 3 header lines *)
  d_src : src_ok src (os_header s);        (* the header is the first three lines of the input file, which has an end line *)
  d_foot : footers4 s;                     (* end lines have a token after the event number *)
  d_fmt : formats_ok s;                    (* a format the model writes; ASCII: every column has a printf format *)
  d_rows : rows_ok s;                      (* every column that is written is set (no NaN) *)
  d_ext : late_ext_free s (os_events s) }. (* no event with more than 20 columns after a first one with 20 *)

Lemma crow_no_nan s p : no_nan (crow s p).
Proof.
  unfold crow, no_nan. destruct (row_values _ _ p); [|constructor]. unfold cellsQ. apply Forall_forall.
  intros c Hc. apply in_map_iff in Hc. destruct Hc as (bv & <- & _). discriminate.
Qed.

Lemma crow_length s p vs : row_values (os_format s) (os_attrs s) p = Ok vs -> List.length (crow s p) = List.length vs.
Proof.
  intros H. unfold crow. rewrite H. apply cellsQ_length.
  destruct (row_formats (os_format s) (os_attrs s) 0) eqn:E.
  - apply (flags_ok _ _ _ _ _ _ H E).
  - (* the length of the flags does not depend on the formats *)
    unfold row_flags, row_values in *. destruct (os_format s =? "ASCII").
    + rewrite map_length. apply mapr_length in H. symmetry; exact H.
    + destruct (wcols_of (os_format s) p); cbn [bind] in H; [|discriminate]. rewrite map_length. apply mapr_length in H. symmetry; exact H.
Qed.

Lemma first_ncols_crow s : forall evs, Forall (Forall (row_ok s)) evs ->
  first_ncols (os_format s) (os_attrs s) evs
  = match List.concat evs with p :: _ => List.length (crow s p) | [] => 0%nat end.
Proof.
  induction evs as [|ev evs IH]; intros H; [reflexivity|]. inversion H as [|? ? He Hr]; subst.
  destruct ev as [|p ev]; cbn [first_ncols List.concat app]; [exact (IH Hr)|].
  inversion He as [|? ? (vs & Hv) _]; subst. rewrite Hv. symmetry. apply crow_length. exact Hv.
Qed.

Section OscarPrint.
  Variable fmt : colfmt -> Q -> string.
  Variable dec : Z -> string.
  Hypothesis Hfd : forall v, fmt FD (trq v) = fmt FD v.

  (* one event's rows: np.asarray + np.savetxt against the model's per-particle formatting *)
  Lemma event_rows s n fs ev h : Forall (row_ok s) ev -> ev <> [] ->
    row_formats (os_format s) (os_attrs s) n = Ok fs ->
    (x <- py_asarray_rows (map (crow s) ev) ;; py_savetxt fmt h x fs)
    = (toks <- mapr (format_particle fmt (os_format s) (os_attrs s) n) ev ;; Ok (h ++ toks)%list).
  Proof.
    intros Hr Hne Hf. rewrite savetxt_rows.
    - rewrite mapr_map. rewrite (mapr_ext _ (format_particle fmt (os_format s) (os_attrs s) n)); [reflexivity|].
      apply Forall_forall. intros p Hp. rewrite Forall_forall in Hr. destruct (Hr p Hp) as (vs & Hv).
      unfold format_particle, crow. rewrite Hv, Hf. cbn [bind].
      destruct (flags_ok _ _ _ _ _ _ Hv Hf) as (H1 & H2). apply fmt_row_cells; assumption.
    - destruct ev; [congruence|discriminate].
    - apply Forall_forall. intros r Hin. apply in_map_iff in Hin. destruct Hin as (p & <- & _). apply crow_no_nan.
  Qed.
End OscarPrint.

Section OscarMain.
  Variable fmt : colfmt -> Q -> string.
  Variable dec : Z -> string.
  Hypothesis Hfd : forall v, fmt FD (trq v) = fmt FD v.
  Variable s : ostate.

  Definition hdr (j : nat) (c : Z) : line := ["#"; "event"; dec (Z.of_nat j); "out"; dec c].

  (* one pass of the loop over the events, after the lookups at position j *)
  Definition ev_closed (fcustom : option (list colfmt)) (st : list line * list colfmt) (j : nat)
             (z : (Z * Z) * list particle) : result (list line * list colfmt) :=
    let f1 := (fst st ++ [hdr j (snd (fst z))])%list in
    let fx := snd st in
    rows <- py_asarray_rows (map (crow s) (snd z)) ;;
    if (zlen rows =? 0)%Z then foot <- footer_for dec (os_footers s) (fst (fst z)) j ;; Ok ((f1 ++ [foot])%list, fx)
    else
      c0 <- andM (Ok (py_fmt_count fx =? 20)%Z)
                 (andM (v <- (r0 <- pyidx rows 0 ;; Ok (zlen r0)) ;; Ok (v >? 20)%Z)
                       (Ok ((os_format s =? "Oscar2013Extended") || (os_format s =? "Oscar2013Extended_IC")))) ;;
      fx' <- (if c0 : bool then n <- (r0 <- pyidx rows 0 ;; Ok (zlen r0)) ;; Ok (fx ++ py_fmt_repeat (n - 20) [FD])%list
              else Ok fx) ;;
      f2 <- (if os_format s =? "Oscar2013" then py_savetxt fmt f1 rows gen_format_oscar2013
             else if is_ext3 (os_format s) then py_savetxt fmt f1 rows fx'
             else if os_format s =? "ASCII" then fc <- py_unbound fcustom ;; py_savetxt fmt f1 rows fc
             else Ok f1) ;;
      foot <- footer_for dec (os_footers s) (fst (fst z)) j ;; Ok ((f2 ++ [foot])%list, fx').

  (* what is known about the held events and their count rows *)
  Definition held (z : (Z * Z) * list particle) : Prop :=
    snd (fst z) = zlen (snd z) /\ (0 <= fst (fst z))%Z /\
    (forall f, nth_error (os_footers s) (Z.to_nat (fst (fst z))) = Some f -> (4 <= List.length f)%nat) /\
    Forall (row_ok s) (snd z).

  Definition fx_inv (fx : list colfmt) (rem : list (list particle)) : Prop :=
    ext2 (os_format s) = true ->
    (fx = gen_format_extended /\ first_ncols (os_format s) (os_attrs s) rem = ncols_of s) \/ fx = ext_fmt (ncols_of s).

  Lemma take_all {A} (l : list A) : take (List.length l) l = Ok l.
  Proof. induction l as [|x t IH]; cbn [List.length take]; [reflexivity|]. rewrite IH. reflexivity. Qed.

  Lemma zlen_to_nat {A} (l : list A) : Z.to_nat (zlen l) = List.length l.
  Proof. unfold zlen. apply Nat2Z.id. Qed.

  Lemma asarray_same r x : py_asarray_rows r = Ok x -> x = r.
  Proof. unfold py_asarray_rows. destruct r; [congruence|]. destruct (forallb _ _); congruence. Qed.

  Lemma fmt_repeat_fd k : py_fmt_repeat k [FD] = repeat FD (Z.to_nat k).
  Proof. unfold py_fmt_repeat. induction (Z.to_nat k) as [|n IH]; cbn [repeat List.concat app]; [reflexivity|]. rewrite IH. reflexivity. Qed.

  Lemma c0_val (a b : bool) (r : row) (t : list row) :
    andM (Ok a) (andM (v <- (r0 <- pyidx (r :: t) 0 ;; Ok (zlen r0)) ;; Ok (v >? 20)%Z) (Ok b))
    = Ok (a && (zlen r >? 20)%Z && b).
  Proof. unfold pyidx. cbn. destruct a; cbn; [|reflexivity]. destruct (zlen r >? 20)%Z; reflexivity. Qed.

  Lemma ext_fmt_le n : (n <= 20)%nat -> ext_fmt n = gen_format_extended.
  Proof. intros H. unfold ext_fmt. replace (n - 20)%nat with 0%nat by lia. apply app_nil_r. Qed.

  (* one pass against one step of the model's write_events *)
  Lemma ev_closed_model fcustom fs :
    row_formats (os_format s) (os_attrs s) (ncols_of s) = Ok fs ->
    ((os_format s =? "ASCII") = true -> fcustom = Some fs) ->
    forall acc fx j lab ev rem, held ((lab, zlen ev), ev) -> late_ext_free s (ev :: rem) -> fx_inv fx (ev :: rem) ->
    exists fx', fx_inv fx' rem /\
      ev_closed fcustom (acc, fx) j ((lab, zlen ev), ev)
      = (toks <- mapr (format_particle fmt (os_format s) (os_attrs s) (ncols_of s)) ev ;;
         foot <- footer_for dec (os_footers s) lab j ;;
         Ok ((acc ++ hdr j (zlen ev) :: toks ++ [foot])%list, fx')).
  Proof.
    intros Hfs Hfc acc fx j lab ev rem (_ & Hlab & Hf4 & Hrows) Hl Hx. cbn [fst snd] in *.
    unfold ev_closed. cbn [fst snd].
    destruct ev as [|p ev].
    - exists fx. split.
      + intros E. destruct (Hx E) as [(H1 & H2)|H1]; [left; split; assumption|right; exact H1].
      + cbn [map py_asarray_rows bind mapr app]. change (zlen [] =? 0)%Z with true. cbn iota.
        destruct (footer_for dec (os_footers s) lab j); cbn [bind]; [|reflexivity]. rewrite <- app_assoc. reflexivity.
    - assert (Hne : p :: ev <> []) by discriminate.
      pose proof (event_rows fmt Hfd s (ncols_of s) fs (p :: ev) (acc ++ [hdr j (zlen (p :: ev))])%list Hrows Hne Hfs) as ER.
      set (L := List.length (crow s p)).
      assert (HL : first_ncols (os_format s) (os_attrs s) ((p :: ev) :: rem) = L).
      { cbn [first_ncols]. inversion Hrows as [|? ? (vs & Hv) _]; subst. rewrite Hv. unfold L. symmetry. apply crow_length. exact Hv. }
      assert (Hfin : forall fx' , fx_inv fx' rem ->
                (f2 <- (x <- py_asarray_rows (map (crow s) (p :: ev)) ;; py_savetxt fmt (acc ++ [hdr j (zlen (p :: ev))]) x fs) ;;
                 foot <- footer_for dec (os_footers s) lab j ;; Ok ((f2 ++ [foot])%list, fx'))
                = (toks <- mapr (format_particle fmt (os_format s) (os_attrs s) (ncols_of s)) (p :: ev) ;;
                   foot <- footer_for dec (os_footers s) lab j ;;
                   Ok ((acc ++ hdr j (zlen (p :: ev)) :: toks ++ [foot])%list, fx'))).
      { intros fx' _. rewrite ER. destruct (mapr _ (p :: ev)); cbn [bind]; [|reflexivity].
        destruct (footer_for dec (os_footers s) lab j); cbn [bind]; [|reflexivity]. rewrite <- !app_assoc. reflexivity. }
      clear ER.
      assert (Htriv : fx_inv (ext_fmt (ncols_of s)) rem) by (intros _; right; reflexivity).
      destruct (py_asarray_rows (map (crow s) (p :: ev))) as [rows|e] eqn:Ea.
      2:{ exists (ext_fmt (ncols_of s)). split; [exact Htriv|]. rewrite <- (Hfin _ Htriv). reflexivity. }
      apply asarray_same in Ea as Er. subst rows. cbn [bind].
      cbn [map]. rewrite zlen_cons. destruct (zlen (map (crow s) ev) + 1 =? 0)%Z eqn:E0;
        [apply Z.eqb_eq in E0; pose proof (zlen_nonneg (map (crow s) ev)); lia|].
      rewrite c0_val. cbn [bind]. unfold pyidx. cbn [zlen List.length Z.of_nat Z.ltb Z.compare Z.to_nat nth_error bind].
      fold (zlen (crow s p)).
      destruct (row_formats_cases _ _ _ _ Hfs) as [(E1 & ->)|[(E1 & E2 & ->)|(E1 & E2 & E3 & Hm)]].
      + (* Oscar2013 *)
        rewrite E1. assert (E2 : ((os_format s =? "Oscar2013Extended") || (os_format s =? "Oscar2013Extended_IC")) = false).
        { apply String.eqb_eq in E1. rewrite E1. reflexivity. }
        rewrite E2, andb_false_r. cbn [bind]. exists fx. split; [intros E; unfold ext2 in E; congruence|].
        apply Hfin. intros E; unfold ext2 in E; congruence.
      + (* Oscar2013Extended / _IC *)
        rewrite E1. unfold ext2 in E2. assert (E3 : is_ext3 (os_format s) = true) by (unfold is_ext3; rewrite E2; reflexivity).
        rewrite E2, E3, andb_true_r.
        exists (ext_fmt (ncols_of s)). split; [exact Htriv|].
        assert (Hfx : (if (py_fmt_count fx =? 20)%Z && (zlen (crow s p) >? 20)%Z
                       then Ok (fx ++ py_fmt_repeat (zlen (crow s p) - 20) [FD])%list else Ok fx)
                      = Ok (ext_fmt (ncols_of s))).
        { unfold py_fmt_count. fold L. unfold zlen at 2 3. fold L.
          specialize (Hl E2). inversion Hl as [|? ? HlL _]; subst. fold L in HlL.
          destruct (Hx E2) as [(H1 & H2)|H1].
          - rewrite HL in H2. subst fx. change (zlen gen_format_extended =? 20)%Z with true. cbn [andb].
            destruct (Z.of_nat L >? 20)%Z eqn:EL.
            + rewrite fmt_repeat_fd. unfold ext_fmt. rewrite <- H2. do 3 f_equal. lia.
            + rewrite ext_fmt_le; [reflexivity|]. rewrite Z.gtb_ltb in EL. apply Z.ltb_ge in EL. lia.
          - subst fx. destruct (Nat.le_gt_cases (ncols_of s) 20) as [Hle|Hgt].
            + rewrite ext_fmt_le by exact Hle. change (zlen gen_format_extended =? 20)%Z with true. cbn [andb].
              destruct (Z.of_nat L >? 20)%Z eqn:EL; [|reflexivity]. exfalso. apply Z.gtb_lt in EL.
              assert (20 < L)%nat by lia. specialize (HlL H). lia.
            + assert (Ec : (zlen (ext_fmt (ncols_of s)) =? 20)%Z = false).
              { apply Z.eqb_neq. unfold ext_fmt. rewrite zlen_app. unfold zlen at 2. rewrite repeat_length.
                change (zlen gen_format_extended) with 20%Z. lia. }
              rewrite Ec. reflexivity. }
        rewrite Hfx. cbn [bind]. apply Hfin. exact Htriv.
      + (* ASCII *)
        assert (Ef : os_format s = "ASCII") by (apply String.eqb_eq; exact E3). unfold ext2 in E2.
        rewrite E1, E2, E3, andb_false_r. cbn [bind]. rewrite Ef. cbn [is_ext3 String.eqb Ascii.eqb Bool.eqb orb].
        rewrite (Hfc E3). cbn [py_unbound bind]. exists fx. split; [intros E; unfold ext2 in E; rewrite Ef in E; discriminate|].
        rewrite <- Ef. apply Hfin. intros E; unfold ext2 in E; rewrite Ef in E; discriminate.
  Qed.

  Lemma events_loop fcustom fs :
    row_formats (os_format s) (os_attrs s) (ncols_of s) = Ok fs ->
    ((os_format s =? "ASCII") = true -> fcustom = Some fs) ->
    forall zs j acc fx, Forall held zs -> late_ext_free s (map snd zs) -> fx_inv fx (map snd zs) ->
    match foldi (ev_closed fcustom) j zs (acc, fx) with Ok r => Ok (fst r) | Err e => Err e end
    = (body <- write_events fmt dec (os_format s) (os_attrs s) (os_footers s) (ncols_of s) j (map snd zs) (map fst zs) ;;
       Ok (acc ++ body)%list).
  Proof.
    intros Hfs Hfc. induction zs as [|[[lab c] ev] zs IH]; intros j acc fx Hh Hl Hx.
    - cbn [foldi map write_events bind fst]. rewrite app_nil_r. reflexivity.
    - inversion Hh as [|? ? Hz Hh']; subst. pose proof Hz as (Hc & _). cbn [fst snd] in Hc. subst c.
      cbn [foldi map write_events fst snd]. rewrite zlen_to_nat, take_all. cbn [bind].
      assert (Hl' : late_ext_free s (map snd zs)).
      { intros E. specialize (Hl E). cbn [map snd] in Hl. inversion Hl; assumption. }
      destruct (ev_closed_model fcustom fs Hfs Hfc acc fx j lab ev (map snd zs) Hz Hl Hx) as (fx' & Hx' & ->).
      destruct (mapr _ ev) as [toks|]; cbn [bind]; [|reflexivity].
      destruct (footer_for dec (os_footers s) lab j) as [foot|]; cbn [bind]; [|reflexivity].
      rewrite (IH (S j) _ fx' Hh' Hl' Hx').
      destruct (write_events _ _ _ _ _ _ _ _ _); cbn [bind]; [|reflexivity].
      unfold hdr. rewrite <- !app_assoc. reflexivity.
  Qed.

  (* ---- the method *)
  Lemma held_of_lists : forall evs cnts, C06_Oscar.held_ok (os_footers s) evs cnts ->
    Forall (fun c => forall f, nth_error (os_footers s) (Z.to_nat (fst c)) = Some f -> (4 <= List.length f)%nat) cnts ->
    Forall (Forall (row_ok s)) evs ->
    counts_match evs cnts /\ List.length cnts = List.length evs /\ Forall held (combine cnts evs).
  Proof.
    induction evs as [|ev evs IH]; intros [|[lab n] cnts] Hh Hf Hr; cbn [C06_Oscar.held_ok] in Hh; try contradiction.
    - repeat split; constructor.
    - destruct Hh as (Hc & Hl & _ & Hh'). inversion Hf as [|? ? Hf1 Hf']; subst. inversion Hr as [|? ? Hr1 Hr']; subst.
      destruct (IH cnts Hh' Hf' Hr') as (H1 & H2 & H3). repeat split.
      + constructor; [reflexivity|exact H1].
      + cbn [List.length]. rewrite H2. reflexivity.
      + cbn [combine]. constructor; [|exact H3]. repeat split; cbn [fst snd]; assumption.
  Qed.

  Lemma nth_error_combine {A B} (l : list A) (m : list B) : forall j a b,
    nth_error (combine l m) j = Some (a, b) -> nth_error l j = Some a /\ nth_error m j = Some b.
  Proof.
    revert m. induction l as [|x l IH]; intros [|y m] [|j] a b H; cbn [combine nth_error] in *; try discriminate.
    - injection H as <- <-. split; reflexivity.
    - apply IH. exact H.
  Qed.

  Lemma py_get2_nat cnts j lab c : nth_error cnts j = Some (lab, c) ->
    py_get2 cnts (Z.of_nat j) 0 = Ok lab /\ py_get2 cnts (Z.of_nat j) 1 = Ok c.
  Proof. intros H. unfold py_get2. rewrite pyidx_nat, H. split; reflexivity. Qed.

  Lemma dict_lookup : forall attrs fs,
    mapr (fun a => match assoc a gen_format_map with Some x => Ok x | None => Err KeyError end) attrs = Ok fs ->
    mapr (fun attr => py_dict_get (map (fun kf => (fst kf, [snd kf])) gen_format_map) attr) attrs = Ok (map (fun f => [f]) fs).
  Proof.
    induction attrs as [|a attrs IH]; intros fs Hm; cbn [mapr] in *; [injection Hm as <-; reflexivity|].
    unfold py_dict_get at 1.
    assert (Ha : assoc a (map (fun kf => (fst kf, [snd kf])) gen_format_map) = option_map (fun f => [f]) (assoc a gen_format_map)).
    { generalize gen_format_map. intros l. induction l as [|[k v] l IHl]; [reflexivity|]. cbn [map assoc fst snd]. destruct (a =? k); [reflexivity|exact IHl]. }
    rewrite Ha. destruct (assoc a gen_format_map) as [x|]; cbn [bind option_map] in *; [|discriminate].
    destruct (mapr _ attrs) as [fs'|] eqn:E in Hm; cbn [bind] in Hm; [|discriminate]. injection Hm as <-.
    rewrite (IH fs' E). reflexivity.
  Qed.

  Lemma ascii_custom fs : (os_format s =? "ASCII") = true ->
    row_formats (os_format s) (os_attrs s) (ncols_of s) = Ok fs ->
    mapr (fun attr => py_dict_get (map (fun kf => (fst kf, [snd kf])) gen_format_map) attr) (os_attrs s) = Ok (map (fun f => [f]) fs).
  Proof.
    intros EA Hf. destruct (row_formats_cases _ _ _ _ Hf) as [(E1 & _)|[(_ & E2 & _)|(_ & _ & _ & Hm)]].
    - apply String.eqb_eq in E1, EA. congruence.
    - apply String.eqb_eq in EA. unfold ext2 in E2. rewrite EA in E2. discriminate.
    - apply dict_lookup. exact Hm.
  Qed.

  Lemma concat_singletons {A} (l : list A) : List.concat (map (fun f => [f]) l) = l.
  Proof. induction l as [|x l IH]; cbn [map List.concat app]; [reflexivity|]. rewrite IH. reflexivity. Qed.

  Lemma combine_fst {A B} : forall (l : list A) (m : list B), List.length l = List.length m -> map fst (combine l m) = l.
  Proof. induction l as [|x l IH]; intros [|y m] H; try discriminate; [reflexivity|]. cbn [combine map fst]. rewrite IH by (cbn [List.length] in H; lia). reflexivity. Qed.
  Lemma combine_snd {A B} : forall (l : list A) (m : list B), List.length l = List.length m -> map snd (combine l m) = m.
  Proof. induction l as [|x l IH]; intros [|y m] H; try discriminate; [reflexivity|]. cbn [combine map snd]. rewrite IH by (cbn [List.length] in H; lia). reflexivity. Qed.

  Lemma py_range_0 n : py_range 0 (Z.of_nat n) = zrange_n (Z.of_nat 0) n.
  Proof. unfold py_range. rewrite Z.sub_0_r, Nat2Z.id. reflexivity. Qed.

  Lemma py_range_len {A} (l : list A) : py_range 0 (zlen l) = zrange_n (Z.of_nat 0) (List.length l).
  Proof. apply py_range_0. Qed.

  Lemma header_loop (body : list line -> Z -> result (list line)) (a b c : line) h :
    (forall f i, body f i = (v <- pyidx [RL a; RL b; RL c] i ;; Ok (py_write f v))) ->
    fold_leftM body (py_range 0 3) h = Ok (h ++ [a; b; c])%list.
  Proof.
    intros Hb. change (py_range 0 3) with [0; 1; 2]%Z. cbn [fold_leftM].
    rewrite Hb. change (pyidx [RL a; RL b; RL c] 0) with (Ok (RL a)). cbn [bind py_write].
    rewrite Hb. change (pyidx [RL a; RL b; RL c] 1) with (Ok (RL b)). cbn [bind py_write].
    rewrite Hb. change (pyidx [RL a; RL b; RL c] 2) with (Ok (RL c)). cbn [bind py_write].
    repeat rewrite <- app_assoc. reflexivity.
  Qed.

  Lemma rows_map src ev : Forall (row_ok s) ev -> mapr (gen_oscar_particle_as_list (oself_of src s)) ev = Ok (map (crow s) ev).
  Proof.
    intros H. rewrite <- mapr_total. apply mapr_ext. apply Forall_forall. intros p Hp. rewrite Forall_forall in H.
    destruct (H p Hp) as (vs & Hv). rewrite (source_oscar_particle_as_list (oself_of src s) p vs Hv). unfold crow.
    cbn [oself_of o_format o_attrs]. rewrite Hv. reflexivity.
  Qed.
  Lemma rowss_map src evs : Forall (Forall (row_ok s)) evs ->
    mapr (mapr (gen_oscar_particle_as_list (oself_of src s))) evs = Ok (map (map (crow s)) evs).
  Proof.
    intros H. rewrite <- mapr_total. apply mapr_ext. apply Forall_forall. intros ev Hev. rewrite Forall_forall in H.
    apply rows_map. apply H. exact Hev.
  Qed.

  (* case analysis on everything that is scrutinised on both sides *)
  Ltac head_step t :=
    lazymatch t with
    | bind ?r _ => head_step r
    | (if ?b then _ else _) =>
      lazymatch b with true => fail | false => fail | _ => destruct b eqn:? end
    | Ok _ => fail
    | Err _ => fail
    | _ => destruct t eqn:?
    end.
  Ltac crunch :=
    unfold andM;
    repeat (first
      [ reflexivity
      | match goal with |- ?l = ?r => first [head_step l | head_step r] end; cbn [bind] ]).

  Variable out0 : list line.
  Hypothesis Hdec0 : dec 0%Z = "0".

  Lemma footer0 self lab : (0 <= lab)%Z ->
    (forall f, nth_error (o_end_lines self) (Z.to_nat lab) = Some f -> (4 <= List.length f)%nat) ->
    gen_oscar_event_footer dec self lab 0 = footer_for dec (o_end_lines self) lab 0.
  Proof. exact (fun H1 H2 => source_oscar_event_footer dec self lab 0 H1 H2). Qed.

  Theorem source_oscar_print src : odom src s ->
    gen_oscar_print fmt dec out0 (oself_of src s) = write_oscar fmt dec s.
  Proof.
    intros [Hinv Hsrc Hfoot (fs & Hfs) Hrows Hext].
    destruct Hinv as (Hn & Hh & Hhd).
    destruct (held_of_lists _ _ Hh Hfoot Hrows) as (Hcm & Hlen & Hheld).
    destruct (scan_run _ _ Hsrc) as (cl & post & Hscan).
    destruct Hhd as (h1 & h2 & h3 & Hhdr).
    unfold gen_oscar_print. cbv zeta.
    cbn [oself_of o_src o_format o_attrs o_end_lines o_events o_counts o_nevents].
    change [("t", [FG]); ("x", [FG]); ("y", [FG]); ("z", [FG]); ("mass", [FG]); ("E", [FG9]); ("px", [FG9]); ("py", [FG9]);
            ("pz", [FG9]); ("pdg", [FD]); ("ID", [FD]); ("charge", [FD]); ("ncoll", [FD]); ("form_time", [FG]); ("xsecfac", [FG]);
            ("proc_id_origin", [FD]); ("proc_type_origin", [FD]); ("t_last_coll", [FG]); ("pdg_mother1", [FD]);
            ("pdg_mother2", [FD]); ("baryon_number", [FD]); ("strangeness", [FD])]
      with (map (fun kf : string * colfmt => (fst kf, [snd kf])) gen_format_map).
    set (fc := if os_format s =? "ASCII" then Some fs else None).
    assert (Hfc : (os_format s =? "ASCII") = true -> fc = Some fs) by (unfold fc; intros ->; reflexivity).
    destruct (os_format s =? "ASCII") eqn:EA;
      [rewrite (ascii_custom fs EA Hfs); cbn [bind]; unfold py_fmt_join; rewrite concat_singletons; change (Some fs) with fc|change (@None (list colfmt)) with fc].
    all: clearbody fc.
    all: assert (Hfc' : (os_format s =? "ASCII") = true -> fc = Some fs) by (rewrite EA; exact Hfc).
    all: rewrite (py_while_ext _ scan_step) by (intros [[c h] [|l f]]; cbn [py_readline scan_step]; unfold line_is_end; reflexivity).
    all: rewrite Hscan; cbn [bind]; rewrite Hhdr; cbn [map].
    all: rewrite (header_loop _ h1 h2 h3 _ (fun f i => bind_ok _)); cbn [bind py_is_none py_open_w py_open_a py_close app].
    all: rewrite Hn; change (Z.of_nat (List.length (os_events s))) with (zlen (os_events s)).
    all: rewrite (particle_list_spec _ _ _ Hcm).
    all: unfold write_oscar; rewrite Hn; change (Z.of_nat (List.length (os_events s))) with (zlen (os_events s)).
    all: unfold py_oz_eq.
    all: pose proof Hrows as Hrows0; pose proof Hheld as Hheld0; pose proof Hext as Hext0; pose proof Hlen as Hlen0; unfold rows_ok in Hrows0.
    all: destruct (os_events s) as [|ev [|ev2 evs]] eqn:Eevs;
      [ (* no event *)
        change (zlen (@nil (list particle)) =? 0)%Z with true; cbn [bind]; rewrite Hhdr; reflexivity
      | (* one event *)
        destruct (os_counts s) as [|[lab c] [|c2 cnts]] eqn:Ecnt; try (cbn [List.length] in Hlen0; discriminate);
        change (zlen [ev] =? 0)%Z with false; cbn [py_the bind]; change (zlen [ev] >? 1)%Z with false; cbn [bind];
        change (pyidx [(lab, c)] 0) with (Ok (lab, c)); cbn [bind];
        change (py_getcell (lab, c) 0) with (Ok lab); change (py_getcell (lab, c) 1) with (Ok c); cbn [bind];
        cbn [combine] in Hheld0; inversion Hheld0 as [|? ? Hz _]; subst;
        pose proof Hz as (Hc & Hlab & Hf4 & Hrw); cbn [fst snd] in Hc, Hlab, Hf4, Hrw; subst c;
        destruct (ev_closed_model fc fs Hfs Hfc' [h1; h2; h3] gen_format_extended 0 lab ev [] Hz Hext0) as (fx' & _ & EM);
        [ intros _; left; split; [reflexivity|unfold ncols_of; rewrite Eevs; reflexivity] |];
        transitivity (r <- ev_closed fc ([h1; h2; h3], gen_format_extended) 0 (lab, zlen ev, ev) ;; Ok (fst r));
        [ unfold ev_closed, hdr, is_ext3, gen_format_oscar2013, gen_format_extended; cbn [fst snd];
          change (Z.of_nat 0) with 0%Z; rewrite Hdec0, ?EA;
          change (py_fmt_count [FG; FG; FG; FG; FG; FG9; FG9; FG9; FG9; FD; FD; FD; FD; FG; FG; FD; FD; FG; FD; FD] =? 20)%Z with true;
          rewrite !(footer0 (oself_of src s) lab Hlab Hf4); cbn [oself_of o_end_lines py_write];
          destruct ev as [|p ev'];
          [ cbn [bind py_asarray_plist map py_asarray_rows]
          | inversion Hrows0 as [|? ? Hrw0 _]; subst; rewrite (rows_map src _ Hrw0); cbn [bind py_asarray_plist] ];
          cbn [app]; crunch
        | rewrite EM; cbn [write_events]; rewrite zlen_to_nat, take_all; cbn [bind];
          unfold ncols_of; rewrite Eevs, Hhdr; unfold hdr; crunch; cbn [fst]; rewrite ?app_nil_r; reflexivity ]
      | (* several events *)
        rewrite (rowss_map src _ Hrows0); cbn [bind];
        assert (E0 : (zlen (ev :: ev2 :: evs) =? 0)%Z = false) by (apply Z.eqb_neq; rewrite !zlen_cons; pose proof (zlen_nonneg evs); lia);
        assert (E1 : (zlen (ev :: ev2 :: evs) >? 1)%Z = true) by (apply Z.gtb_lt; rewrite !zlen_cons; pose proof (zlen_nonneg evs); lia);
        rewrite E0; cbn [py_the bind]; rewrite E1; cbn [bind];
        rewrite py_range_len;
        replace (List.length (ev :: ev2 :: evs)) with (List.length (combine (os_counts s) (ev :: ev2 :: evs)))
          by (rewrite combine_length, Hlen0; apply Nat.min_id);
        match goal with
        | |- context [fold_leftM ?b (zrange_n _ _) ?i] =>
          pose proof (fold_index b (ev_closed fc) (combine (os_counts s) (ev :: ev2 :: evs)) [] i) as FI
        end;
        cbn [List.length app] in FI; rewrite FI; clear FI ].
    (* the loop against write_events *)
    1, 3: 
      pose proof (events_loop fc fs Hfs Hfc' (combine (os_counts s) (ev :: ev2 :: evs)) 0 [h1; h2; h3] gen_format_extended) as EL;
      rewrite (combine_snd _ _ Hlen0), (combine_fst _ _ Hlen0) in EL;
      specialize (EL Hheld0 Hext0);
      unfold ncols_of in EL; rewrite ?Eevs in EL;
      rewrite Hhdr, <- EL by (intros _; left; split; [reflexivity|unfold ncols_of; rewrite Eevs; reflexivity]);
      unfold gen_format_extended;
      match goal with |- context [foldi ?g ?j ?l ?i] => destruct (foldi g j l i) as [[f fx]|] end; reflexivity.
    (* one pass of the loop *)
    all: intros [f_out fx] j [[lab c] evj] Hnth; pose proof Hnth as Hnth0;
      apply nth_error_combine in Hnth; destruct Hnth as (Hc1 & Hc2);
      destruct (py_get2_nat _ _ _ _ Hc1) as (G0 & G1); rewrite G0, G1; cbn [bind py_plist_get];
      rewrite pyidx_nat, (map_nth_error (map (crow s)) _ _ Hc2); cbn [bind];
      apply nth_error_In in Hnth0; rewrite Forall_forall in Hheld0;
      destruct (Hheld0 _ Hnth0) as (_ & Hlab & Hf4 & _); cbn [fst snd] in Hlab, Hf4;
      rewrite !(source_oscar_event_footer dec (oself_of src s) lab j Hlab Hf4);
      unfold ev_closed, hdr, is_ext3, gen_format_oscar2013; cbn [fst snd oself_of o_end_lines py_write]; rewrite ?EA.
    all: crunch.
  Qed.
End OscarMain.

(* ------------------------------------------------------------------ Jetscape.print_particle_lists_to_file *)
Definition jself_of (src : list line) (s : jstate) : jself :=
  mkJself src (js_defstr s) (js_last s) (Some (js_events s)) (Some (js_counts s)) (Some (js_nevents s)).
Definition jrow_ok (p : particle) : Prop := exists vs, mapr (fun c => col_value c p) jet_cols = Ok vs.
Definition jrow (p : particle) : row :=
  match mapr (fun c => col_value c p) jet_cols with Ok vs => cellsQ (map snd jet_cols) vs | Err _ => [] end.

Record jdom (src : list line) (s : jstate) : Prop := {
  jd_inv : C06_Jetscape.JInv s;                       (* counts describe the held events *)
  jd_src : exists rest, src = js_header s :: rest;    (* the header is the first line of the input file *)
  jd_rows : Forall (Forall jrow_ok) (js_events s) }.  (* every column that is written is set (no NaN) *)

Section JetMain.
  Variable fmt : colfmt -> Q -> string.
  Variable dec : Z -> string.
  Hypothesis Hfd : forall v, fmt FD (trq v) = fmt FD v.
  Variable s : jstate.
  Variable out0 : list line.

  Definition jhdr (j : nat) (c : Z) : line :=
    ["#"; "Event"; dec (Z.of_nat j + 1); "weight"; "1"; "EPangle"; "0"; js_defstr s; dec c].

  Lemma jrow_no_nan p : no_nan (jrow p).
  Proof.
    unfold jrow, no_nan. destruct (mapr _ jet_cols); [|constructor]. unfold cellsQ. apply Forall_forall.
    intros c Hc. apply in_map_iff in Hc. destruct Hc as (bv & <- & _). discriminate.
  Qed.

  Lemma jrows_map src ev : Forall jrow_ok ev -> mapr (gen_jetscape_particle_as_list (jself_of src s)) ev = Ok (map jrow ev).
  Proof.
    intros H. rewrite <- mapr_total. apply mapr_ext. apply Forall_forall. intros p Hp. rewrite Forall_forall in H.
    destruct (H p Hp) as (vs & Hv). rewrite (source_jetscape_particle_as_list _ p vs Hv). unfold jrow. rewrite Hv. reflexivity.
  Qed.
  Lemma jrowss_map src evs : Forall (Forall jrow_ok) evs ->
    mapr (mapr (gen_jetscape_particle_as_list (jself_of src s))) evs = Ok (map (map jrow) evs).
  Proof.
    intros H. rewrite <- mapr_total. apply mapr_ext. apply Forall_forall. intros ev Hev. rewrite Forall_forall in H.
    apply jrows_map. apply H. exact Hev.
  Qed.

  Lemma jevent_rows ev h : Forall jrow_ok ev -> ev <> [] ->
    (x <- py_asarray_rows (map jrow ev) ;; py_savetxt fmt h x gen_format_jetscape)
    = (toks <- mapr (format_jet_particle fmt) ev ;; Ok (h ++ toks)%list).
  Proof.
    intros Hr Hne. rewrite savetxt_rows.
    - rewrite mapr_map. rewrite (mapr_ext _ (format_jet_particle fmt)); [reflexivity|].
      apply Forall_forall. intros p Hp. rewrite Forall_forall in Hr. destruct (Hr p Hp) as (vs & Hv).
      unfold format_jet_particle, jrow. rewrite Hv. cbn [bind]. apply fmt_row_cells; [exact Hfd|reflexivity|].
      apply mapr_length in Hv. rewrite map_length. symmetry. exact Hv.
    - destruct ev; [congruence|discriminate].
    - apply Forall_forall. intros r Hin. apply in_map_iff in Hin. destruct Hin as (p & <- & _). apply jrow_no_nan.
  Qed.

  (* one pass of the loop over the events, after the lookups at position j *)
  Definition jev_closed (f_out : list line) (j : nat) (z : (Z * Z) * list particle) : result (list line) :=
    rows <- py_asarray_rows (map jrow (snd z)) ;;
    let f1 := (f_out ++ [jhdr j (snd (fst z))])%list in
    if negb (zlen rows =? 0)%Z then py_savetxt fmt f1 rows gen_format_jetscape else Ok f1.

  Definition jheld (z : (Z * Z) * list particle) : Prop := snd (fst z) = zlen (snd z) /\ Forall jrow_ok (snd z).

  Lemma jev_closed_model acc j lab ev : Forall jrow_ok ev ->
    jev_closed acc j ((lab, zlen ev), ev)
    = (toks <- mapr (format_jet_particle fmt) ev ;; Ok (acc ++ jhdr j (zlen ev) :: toks)%list).
  Proof.
    intros Hr. unfold jev_closed. cbn [fst snd]. destruct ev as [|p ev].
    - cbn [map py_asarray_rows bind mapr]. reflexivity.
    - pose proof (jevent_rows (p :: ev) (acc ++ [jhdr j (zlen (p :: ev))])%list Hr) as ER.
      destruct (py_asarray_rows (map jrow (p :: ev))) as [rows|e] eqn:Ea; cbn [bind] in *.
      + apply asarray_same in Ea. subst rows. cbn [map]. rewrite zlen_cons.
        destruct (zlen (map jrow ev) + 1 =? 0)%Z eqn:E0; [apply Z.eqb_eq in E0; pose proof (zlen_nonneg (map jrow ev)); lia|].
        cbn [negb]. cbn [map] in ER. rewrite ER by discriminate.
        destruct (mapr _ (p :: ev)); cbn [bind]; [|reflexivity]. rewrite <- app_assoc. reflexivity.
      + specialize (ER ltac:(discriminate)). destruct (mapr _ (p :: ev)); [discriminate|]. injection ER as <-. reflexivity.
  Qed.

  Lemma jevents_loop : forall zs j acc, Forall jheld zs ->
    foldi jev_closed j zs acc
    = (body <- write_jet_events fmt dec (js_defstr s) j (map snd zs) (map fst zs) ;; Ok (acc ++ body)%list).
  Proof.
    induction zs as [|[[lab c] ev] zs IH]; intros j acc Hh.
    - cbn [foldi map write_jet_events bind]. rewrite app_nil_r. reflexivity.
    - inversion Hh as [|? ? (Hc & Hr) Hh']; subst. cbn [fst snd] in Hc, Hr. subst c.
      cbn [foldi map write_jet_events fst snd]. rewrite zlen_to_nat, take_all. cbn [bind].
      rewrite (jev_closed_model acc j lab ev Hr).
      destruct (mapr _ ev) as [toks|]; cbn [bind]; [|reflexivity]. rewrite (IH (S j) _ Hh').
      destruct (write_jet_events _ _ _ _ _ _); cbn [bind]; [|reflexivity].
      unfold jhdr. rewrite <- !app_assoc. reflexivity.
  Qed.

  Lemma jheld_of_lists : forall evs cnts, C06_Jetscape.jheld_ok evs cnts -> Forall (Forall jrow_ok) evs ->
    counts_match evs cnts /\ List.length cnts = List.length evs /\ Forall jheld (combine cnts evs).
  Proof.
    induction evs as [|ev evs IH]; intros [|[lab n] cnts] Hh Hr; cbn [C06_Jetscape.jheld_ok] in Hh; try contradiction.
    - repeat split; constructor.
    - destruct Hh as (Hc & Hh'). inversion Hr as [|? ? Hr1 Hr']; subst.
      destruct (IH cnts Hh' Hr') as (H1 & H2 & H3). repeat split.
      + constructor; [reflexivity|exact H1].
      + cbn [List.length]. rewrite H2. reflexivity.
      + cbn [combine]. constructor; [|exact H3]. split; cbn [fst snd]; [reflexivity|assumption].
  Qed.

  Theorem source_jetscape_print src : jdom src s ->
    gen_jetscape_print fmt dec out0 (jself_of src s) = write_jetscape fmt dec s.
  Proof.
    intros [(Hn & Hh) (rest & ->) Hrows].
    destruct (jheld_of_lists _ _ Hh Hrows) as (Hcm & Hlen & Hheld).
    unfold gen_jetscape_print. cbv zeta.
    cbn [jself_of j_src j_defstr j_last j_events j_counts j_nevents py_readline py_is_none py_open_w py_write app].
    rewrite Hn. change (Z.of_nat (List.length (js_events s))) with (zlen (js_events s)).
    rewrite (particle_list_spec _ _ _ Hcm).
    unfold write_jetscape. rewrite Hn. change (Z.of_nat (List.length (js_events s))) with (zlen (js_events s)).
    unfold py_oz_eq.
    destruct (js_events s) as [|ev [|ev2 evs]] eqn:Eevs.
    - change (zlen (@nil (list particle)) =? 0)%Z with true. cbn [bind py_write py_close app]. reflexivity.
    - destruct (js_counts s) as [|[lab c] [|c2 cnts]] eqn:Ecnt; try (cbn [List.length] in Hlen; discriminate).
      change (zlen [ev] =? 0)%Z with false. cbn [py_the bind]. change (zlen [ev] >? 1)%Z with false. cbn [bind].
      change (pyidx [(lab, c)] 0) with (Ok (lab, c)). cbn [bind].
      change (py_getcell (lab, c) 1) with (Ok c). cbn [bind].
      cbn [combine] in Hheld. inversion Hheld as [|? ? (Hc & Hr) _]; subst. cbn [fst snd] in Hc, Hr. subst c.
      cbn [write_jet_events]. rewrite zlen_to_nat, take_all. cbn [bind].
      pose proof (jev_closed_model [js_header s] 0 lab ev Hr) as EM. unfold jev_closed, jhdr in EM. cbn [fst snd] in EM.
      change (Z.of_nat 0 + 1)%Z with 1%Z in *. unfold gen_format_jetscape in EM. cbn [app] in EM.
      destruct ev as [|p ev'].
      + cbn [bind py_asarray_plist map mapr py_write py_close app zlen List.length Z.of_nat Z.eqb negb]. reflexivity.
      + rewrite (jrows_map _ _ Hr). cbn [bind py_asarray_plist py_write].
        destruct (py_asarray_rows (map jrow (p :: ev'))) as [rows|e] eqn:Ea; cbn [bind] in *.
        * apply asarray_same in Ea. subst rows. cbn [map] in *. rewrite zlen_cons in *.
          destruct (zlen (map jrow ev') + 1 =? 0)%Z eqn:E0; [apply Z.eqb_eq in E0; pose proof (zlen_nonneg (map jrow ev')); lia|].
          cbn [negb] in *. rewrite EM. destruct (mapr _ (p :: ev')); cbn [bind py_write py_close app]; [|reflexivity].
          rewrite app_nil_r. reflexivity.
        * destruct (mapr _ (p :: ev')); [discriminate|]. injection EM as <-. reflexivity.
    - rewrite (jrowss_map _ _ Hrows). cbn [bind].
      assert (E0 : (zlen (ev :: ev2 :: evs) =? 0)%Z = false) by (apply Z.eqb_neq; rewrite !zlen_cons; pose proof (zlen_nonneg evs); lia).
      assert (E1 : (zlen (ev :: ev2 :: evs) >? 1)%Z = true) by (apply Z.gtb_lt; rewrite !zlen_cons; pose proof (zlen_nonneg evs); lia).
      rewrite E0. cbn [py_the bind]. rewrite E1. cbn [bind].
      rewrite py_range_len.
      replace (List.length (ev :: ev2 :: evs)) with (List.length (combine (js_counts s) (ev :: ev2 :: evs)))
        by (rewrite combine_length, Hlen; apply Nat.min_id).
      match goal with
      | |- context [fold_leftM ?b (zrange_n _ _) ?i] =>
        pose proof (fold_index b jev_closed (combine (js_counts s) (ev :: ev2 :: evs)) [] i) as FI
      end.
      cbn [List.length app] in FI. rewrite FI; clear FI.
      + rewrite (jevents_loop _ 0 _ Hheld), (combine_snd _ _ Hlen), (combine_fst _ _ Hlen).
        destruct (write_jet_events _ _ _ _ _ _); cbn [bind py_write py_close app]; reflexivity.
      + intros f_out j [[lab c] evj] Hnth. apply nth_error_combine in Hnth. destruct Hnth as (Hc1 & Hc2).
        destruct (py_get2_nat _ _ _ _ Hc1) as (_ & G1). rewrite G1. cbn [bind py_plist_get].
        rewrite pyidx_nat, (map_nth_error (map jrow) _ _ Hc2). cbn [bind].
        unfold jev_closed, jhdr. cbn [fst snd py_write].
        destruct (py_asarray_rows (map jrow evj)); cbn [bind]; [|reflexivity].
        destruct (negb (zlen a =? 0)%Z); [|reflexivity]. destruct (py_savetxt _ _ _ _); reflexivity.
  Qed.
End JetMain.

(* ------------------------------------------------------------------ the `is None` guards, the hand-over tables *)
Section Guards.
  Variable fmt : colfmt -> Q -> string.
  Variable dec : Z -> string.
  Variable out0 : list line.

  (* an attribute that is None: ValueError (from the writer's own guard or from particle_list()) *)
  Theorem source_oscar_print_none self header :
    src_ok (o_src self) header -> (o_format self =? "ASCII") = false ->
    o_events self = None \/ o_counts self = None \/ o_nevents self = None ->
    gen_oscar_print fmt dec out0 self = Err ValueError.
  Proof.
    intros Hsrc EA Hnone. destruct (scan_run _ _ Hsrc) as (cl & post & Hscan).
    destruct Hsrc as (h1 & h2 & h3 & _ & _ & _ & -> & _).
    unfold gen_oscar_print. cbv zeta. rewrite EA.
    rewrite (py_while_ext _ scan_step) by (intros [[c h] [|l f]]; cbn [py_readline scan_step]; unfold line_is_end; reflexivity).
    rewrite Hscan. cbn [bind map].
    rewrite (header_loop _ h1 h2 h3 _ (fun f i => bind_ok _)). cbn [bind].
    destruct (o_events self) as [evs|]; [|reflexivity]. cbn [py_is_none].
    unfold py_particle_list.
    destruct (o_counts self) as [cnts|]; [|reflexivity].
    destruct (o_nevents self) as [n|]; [|reflexivity].
    destruct Hnone as [H|[H|H]]; discriminate.
  Qed.

  Theorem source_jetscape_print_none self :
    j_events self = None \/ j_counts self = None \/ j_nevents self = None ->
    gen_jetscape_print fmt dec out0 self = Err ValueError.
  Proof.
    intros Hnone. unfold gen_jetscape_print. cbv zeta. destruct (py_readline (j_src self)) as [hl h].
    destruct (j_events self) as [evs|]; [|reflexivity]. cbn [py_is_none].
    destruct (j_counts self) as [cnts|]; [|reflexivity]. cbn [py_is_none].
    unfold py_particle_list.
    destruct (j_nevents self) as [n|]; [|reflexivity].
    destruct Hnone as [H|[H|H]]; discriminate.
  Qed.
End Guards.

(* Oscar.__init__ / Jetscape.__init__: which attribute the writer later reads is set from what *)
Theorem source_oscar_init :
  gen_oscar_init = [("PATH_OSCAR_", "OSCAR_FILE"); ("oscar_format_", "self.loader_.oscar_format()");
                    ("event_end_lines_", "self.loader_.event_end_lines()");
                    ("impact_parameters_", "self.loader_.impact_parameter()")].
Proof. reflexivity. Qed.
Theorem source_jetscape_init :
  gen_jetscape_init = [("sigmaGen_", "self.loader_.get_sigmaGen()"); ("particle_type_", "self.loader_.get_particle_type()");
                       ("JETSCAPE_FILE", "JETSCAPE_FILE");
                       ("particle_type_defining_string_", "self.loader_.get_particle_type_defining_string()");
                       ("last_line_", "self.loader_.get_last_line(JETSCAPE_FILE)")].
Proof. reflexivity. Qed.

(* the getters of Particle as the hand model's attribute table has them (plus status, weight) *)
Theorem source_particle_props :
  (forall a x, assoc a attr_table = Some x -> assoc a gen_particle_props = Some x) /\
  assoc "status" gen_particle_props = Some (21%nat, true) /\ assoc "weight" gen_particle_props = Some (24%nat, false).
Proof. split; [exact attr_table_props|split; reflexivity]. Qed.

(* non-vacuity: the state of C06_example meets the domain and is written as there *)
Definition ex_src : list line :=
  (os_header C06_Example.ex_state ++ [["#"; "event"; "0"; "out"; "1"]; ["#"; "event"; "0"; "end"; "0"; "impact"; "0.000"]])%list.
Theorem source_oscar_example : odom ex_src C06_Example.ex_state.
Proof.
  split.
  - exact (proj1 C06_Example.example_state).
  - exists ["#!OSCAR2013"; "particle_lists"], ["#"; "Units:"], ["#"; "SMASH"], [["#"; "event"; "0"; "out"; "1"]],
           ["#"; "event"; "0"; "end"; "0"; "impact"; "0.000"], [].
    repeat split; try reflexivity; [repeat constructor|cbn; lia].
  - repeat constructor. cbn. intros f H. injection H as <-. cbn. lia.
  - eexists. reflexivity.
  - repeat constructor. eexists. reflexivity.
  - intros E. discriminate E.
Qed.

(* Source tie for C06: the hand model of the two file writers (Model/Writer.v) equals the method bodies of
   Oscar.py / Jetscape.py as regenerated on every run (Gen/GenWriters.v over Model/WritersRt.v).
   The domain on which the hand model is claimed to describe the code is spelled out as hypotheses
   ([odom] / [jdom] below); what differs outside it is listed in the builder's report. *)
From Coq Require Import List String ZArith QArith Qround Bool Arith Lia.
From SX Require Lib.Py Model.Storer Model.StorerRt Gen.GenStorer Proofs.C04_Source Proofs.C06_Oscar Proofs.C06_Jetscape.
From SX Require Import Lib.Strs Gen.GenFormats Model.Oscar Model.Writer Model.WritersRt Gen.GenWriters.
Import ListNotations.
Local Open Scope string_scope.

(* ------------------------------------------------------------------ generic *)
Lemma bind_ok {A} (r : result A) : (x <- r ;; Ok x) = r.
Proof. destruct r; reflexivity. Qed.

Lemma mapr_app {A B} (f : A -> result B) (l1 l2 : list A) :
  mapr f (l1 ++ l2) = (a <- mapr f l1 ;; b <- mapr f l2 ;; Ok (a ++ b)%list).
Proof.
  induction l1 as [|x l1 IH]; cbn [mapr app bind].
  - destruct (mapr f l2); reflexivity.
  - destruct (f x); cbn [bind]; [|reflexivity]. rewrite IH.
    destruct (mapr f l1); cbn [bind]; [|reflexivity]. destruct (mapr f l2); reflexivity.
Qed.

Lemma mapr_map {A B C} (g : A -> B) (f : B -> result C) (l : list A) : mapr f (map g l) = mapr (fun a => f (g a)) l.
Proof. induction l as [|x l IH]; cbn [mapr map]; [reflexivity|]. rewrite IH. reflexivity. Qed.

Lemma mapr_ext {A B} (f g : A -> result B) (l : list A) : Forall (fun a => f a = g a) l -> mapr f l = mapr g l.
Proof. induction 1 as [|x l H _ IH]; cbn [mapr]; [reflexivity|]. rewrite H, IH. reflexivity. Qed.

Lemma mapr_total {A B} (f : A -> B) (l : list A) : mapr (fun a => Ok (f a)) l = Ok (map f l).
Proof. induction l as [|x l IH]; cbn [mapr map bind]; [reflexivity|]. rewrite IH. reflexivity. Qed.

Lemma zlen_nil {A} : zlen (@nil A) = 0%Z.
Proof. reflexivity. Qed.
Lemma zlen_cons {A} (a : A) l : zlen (a :: l) = (zlen l + 1)%Z.
Proof. unfold zlen. cbn [List.length]. lia. Qed.
Lemma zlen_app {A} (l m : list A) : zlen (l ++ m) = (zlen l + zlen m)%Z.
Proof. unfold zlen. rewrite app_length. lia. Qed.
Lemma zlen_nonneg {A} (l : list A) : (0 <= zlen l)%Z.
Proof. unfold zlen. lia. Qed.

Lemma pyidx_nat {A} (l : list A) (j : nat) :
  pyidx l (Z.of_nat j) = match nth_error l j with Some a => Ok a | None => Err IndexError end.
Proof.
  unfold pyidx. destruct (Z.of_nat j <? 0)%Z eqn:E; [apply Z.ltb_lt in E; lia|]. rewrite E, Nat2Z.id. reflexivity.
Qed.

(* a loop that appends one computed element per pass *)
Lemma fold_append {A B} (body : list B -> A -> result (list B)) (f : A -> result B) (l : list A) :
  (forall acc a, body acc a = (v <- f a ;; Ok (acc ++ [v])%list)) ->
  forall acc, fold_leftM body l acc = (r <- mapr f l ;; Ok (acc ++ r)%list).
Proof.
  intros Hb. induction l as [|x l IH]; intros acc; cbn [fold_leftM mapr bind].
  - rewrite app_nil_r. reflexivity.
  - rewrite Hb. destruct (f x) as [v|e]; cbn [bind]; [|reflexivity]. rewrite IH.
    destruct (mapr f l); cbn [bind]; [|reflexivity]. rewrite <- app_assoc. reflexivity.
Qed.

(* for i in range(len(l)): the pass number i sees the i-th element *)
Fixpoint foldi {St A} (g : St -> nat -> A -> result St) (j : nat) (l : list A) (s : St) : result St :=
  match l with [] => Ok s | a :: t => s' <- g s j a ;; foldi g (S j) t s' end.

Lemma fold_index {St A} (body : St -> Z -> result St) (g : St -> nat -> A -> result St) (l : list A) :
  forall pre s,
  (forall s j a, nth_error (pre ++ l) j = Some a -> body s (Z.of_nat j) = g s j a) ->
  fold_leftM body (zrange_n (Z.of_nat (List.length pre)) (List.length l)) s = foldi g (List.length pre) l s.
Proof.
  induction l as [|a l IH]; intros pre s Hb; cbn [List.length zrange_n fold_leftM foldi]; [reflexivity|].
  rewrite (Hb s (List.length pre) a) by (rewrite nth_error_app2, Nat.sub_diag by lia; reflexivity).
  destruct (g s (List.length pre) a) as [s'|e]; cbn [bind]; [|reflexivity].
  specialize (IH (pre ++ [a])%list s'). rewrite app_length in IH. cbn [List.length] in IH.
  replace (Z.of_nat (List.length pre) + 1)%Z with (Z.of_nat (List.length pre + 1)) by lia.
  rewrite IH; [replace (List.length pre + 1)%nat with (S (List.length pre)) by lia; reflexivity|].
  intros s0 j a0 Hn. apply Hb. rewrite <- app_assoc in Hn. exact Hn.
Qed.

Lemma py_while_ext {St} (f g : St -> result (St * bool)) : (forall s, f s = g s) ->
  forall n s, py_while n f s = py_while n g s.
Proof. intros H n. induction n as [|n IH]; intros s; cbn [py_while]; [reflexivity|]. rewrite H. destruct (g s) as [[s' b]|e]; cbn [bind snd fst]; [|reflexivity]. destruct b; [reflexivity|apply IH]. Qed.

Lemma while_fuel_big : (2000000 <= Z.of_nat while_fuel)%Z.
Proof. unfold while_fuel. rewrite Z2Nat.id; lia. Qed.
Global Opaque while_fuel.

(* ------------------------------------------------------------------ BaseStorer.particle_list() on the writer state *)
Definition counts_match (evs : list (list particle)) (cnts : list (Z * Z)) : Prop :=
  Forall2 (fun ev c => snd c = zlen ev) evs cnts.

Lemma zrange_n_length a n : List.length (zrange_n a n) = n.
Proof. revert a; induction n as [|n IH]; intros a; cbn [zrange_n List.length]; [reflexivity|]. rewrite IH. reflexivity. Qed.

Lemma storer_zrange a n : StorerRt.zrange_n a n = zrange_n a n.
Proof. revert a; induction n as [|n IH]; intros a; cbn; [reflexivity|]. rewrite IH. reflexivity. Qed.

Lemma take_event_all (ev : list Z) c : c = Storer.zlen ev -> Storer.take_event c (Some ev) = Py.Ok ev.
Proof.
  intros ->. unfold Storer.take_event. destruct (Storer.zlen ev <=? 0)%Z eqn:E.
  - apply Z.leb_le in E. destruct ev; [reflexivity|]. unfold Storer.zlen in E. cbn [List.length] in E. lia.
  - rewrite Z.leb_refl. unfold Storer.zlen. rewrite Nat2Z.id, firstn_all. reflexivity.
Qed.

Lemma plist_loop_all : forall evs cnts k, counts_match evs cnts ->
  Storer.plist_loop (List.length evs) (map snd cnts) (numbering k evs) = Py.Ok (numbering k evs).
Proof.
  induction evs as [|ev evs IH]; intros cnts k H; inversion H as [|? c ? cnts' Hc Hr]; subst; cbn [List.length Storer.plist_loop numbering map]; [reflexivity|].
  cbn [hd_error tl]. rewrite take_event_all by (rewrite Hc; unfold Storer.zlen, zlen; rewrite zrange_n_length; reflexivity).
  cbn [Py.rbind]. rewrite (IH cnts' _ Hr). reflexivity.
Qed.

Lemma rowk_range (rowf : particle -> result row) (ev post : list particle) : forall pre,
  mapr (fun k => p <- lookup_p (pre ++ ev ++ post) k ;; rowf p) (zrange_n (zlen pre) (List.length ev)) = mapr rowf ev.
Proof.
  induction ev as [|p ev IH]; intros pre; cbn [List.length zrange_n mapr]; [reflexivity|].
  unfold lookup_p at 1. destruct (zlen pre <? 0)%Z eqn:E; [apply Z.ltb_lt in E; pose proof (zlen_nonneg pre); lia|].
  unfold zlen at 1. rewrite Nat2Z.id, nth_error_app2, Nat.sub_diag by lia. cbn [nth_error app bind].
  destruct (rowf p) as [r|e]; cbn [bind]; [|reflexivity].
  specialize (IH (pre ++ [p])%list). rewrite zlen_app in IH. change (zlen [p]) with 1%Z in IH.
  rewrite <- app_assoc in IH. cbn [app] in IH. rewrite IH. reflexivity.
Qed.

Lemma rowk_numbering (rowf : particle -> result row) : forall (evs : list (list particle)) pre,
  mapr (mapr (fun k => p <- lookup_p (pre ++ List.concat evs) k ;; rowf p)) (numbering (zlen pre) evs) = mapr (mapr rowf) evs.
Proof.
  induction evs as [|ev evs IH]; intros pre; cbn [numbering mapr List.concat]; [reflexivity|].
  rewrite rowk_range. destruct (mapr rowf ev) as [r|e]; cbn [bind]; [|reflexivity].
  specialize (IH (pre ++ ev)%list). rewrite zlen_app, <- app_assoc in IH. rewrite IH. reflexivity.
Qed.

Lemma particle_list_spec (rowf : particle -> result row) evs cnts :
  counts_match evs cnts ->
  py_particle_list GenStorer.gen_particle_list rowf (Some evs) (Some cnts) (Some (zlen evs))
  = match evs with
    | [] => Ok PL0
    | [[]] => Ok PL0
    | [ev] => rs <- mapr rowf ev ;; Ok (PFlat rs)
    | _ => rss <- mapr (mapr rowf) evs ;; Ok (PNested rss)
    end.
Proof.
  intros H. unfold py_particle_list. rewrite C04_Source.source_particle_list.
  unfold Storer.particle_list, storer_view. cbn [Storer.nevents Storer.counts Storer.events].
  destruct evs as [|ev [|ev2 evs]].
  - reflexivity.
  - inversion H as [|? c ? cnts' Hc Hr]; subst. inversion Hr; subst. destruct c as [lab c]. cbn [snd] in Hc.
    cbn [numbering hd_error]. change (zlen [ev]) with 1%Z. cbn [Z.eqb Pos.eqb Py.rbind].
    rewrite take_event_all by (rewrite Hc; unfold Storer.zlen, zlen; rewrite zrange_n_length; reflexivity).
    cbn [Py.rbind Py.rmap lift_py bind]. destruct ev as [|p ev].
    + reflexivity.
    + cbn [List.length zrange_n StorerRt.plres_pv]. cbn [List.concat]. rewrite app_nil_r.
      pose proof (rowk_range rowf (p :: ev) [] []) as R. rewrite app_nil_r in R. cbn [app List.length zrange_n] in R.
      change (zlen []) with 0%Z in R. rewrite R. reflexivity.
  - assert (E0 : (zlen (ev :: ev2 :: evs) =? 0)%Z = false) by (apply Z.eqb_neq; rewrite !zlen_cons; pose proof (zlen_nonneg evs); lia).
    assert (E1 : (zlen (ev :: ev2 :: evs) =? 1)%Z = false) by (apply Z.eqb_neq; rewrite !zlen_cons; pose proof (zlen_nonneg evs); lia).
    rewrite E0, E1. cbn [Py.rbind]. unfold zlen at 1. rewrite Nat2Z.id.
    rewrite (plist_loop_all _ _ 0%Z H). cbn [Py.rmap lift_py bind numbering StorerRt.plres_pv].
    pose proof (rowk_numbering rowf (ev :: ev2 :: evs) []) as R. cbn [app numbering] in R.
    change (zlen []) with 0%Z in R. rewrite R. destruct ev; reflexivity.
Qed.

(* ------------------------------------------------------------------ _particle_as_list *)
Definition trq (v : Q) : Q := inject_Z (Py.Qtrunc v).

Lemma qtrunc_inject z : Py.Qtrunc (inject_Z z) = z.
Proof.
  unfold Py.Qtrunc. destruct (Qle_bool 0 (inject_Z z)); unfold inject_Z, Qfloor, Qopp; cbn [Qnum Qden];
    rewrite Z.div_1_r; lia.
Qed.
Lemma trq_idem v : trq (trq v) = trq v.
Proof. unfold trq. rewrite qtrunc_inject. reflexivity. Qed.

(* the cell an int() / float() column contributes (int(int(x)): the getter of an integer property already truncates) *)
Definition cellf (p : particle) (c : wcol) : result (option Q) :=
  if snd c then match get_slot (snd (fst c)) p with Some v => Ok (Some (trq (trq v))) | None => Err ValueError end
  else Ok (get_slot (snd (fst c)) p).
(* `if not np.isnan(particle.a): append(int(particle.a))` for an integer / a float property *)
Definition optcol_i (p : particle) (slot : nat) : row :=
  match get_slot slot p with Some v => [Some (trq (trq v))] | None => [] end.
Definition optcol_f (p : particle) (slot : nat) : row :=
  match get_slot slot p with Some v => [Some (trq v)] | None => [] end.
Definition is_ext3 (f : string) : bool :=
  (f =? "Oscar2013Extended") || (f =? "Oscar2013Extended_IC") || (f =? "Oscar2013Extended_Photons").

(* closed form of Oscar._particle_as_list: every input, every exception *)
Definition oscar_row_spec (format : string) (attrs : list string) (p : particle) : result row :=
  if format =? "ASCII" then mapr (py_prop gen_particle_props p) attrs
  else
    base <- mapr (cellf p) wcols_2013 ;;
    if is_ext3 format then
      e8 <- mapr (cellf p) (skipn 12 wcols_ext20) ;;
      Ok (base ++ e8 ++ (if negb (format =? "Oscar2013Extended_Photons") then optcol_i p 22 ++ optcol_i p 23
                         else optcol_f p 24))%list
    else if negb (format =? "Oscar2013") then Err TypeError else Ok base.

Lemma py_prop_lit p name slot isint : assoc name gen_particle_props = Some (slot, isint) ->
  py_prop gen_particle_props p name = Ok (if isint then option_map (fun v => inject_Z (Py.Qtrunc v)) (get_slot slot p) else get_slot slot p).
Proof. intros H. unfold py_prop. rewrite H. reflexivity. Qed.

Ltac props_lit :=
  repeat match goal with
         | |- context [py_prop gen_particle_props ?q (String ?a ?s)] =>
           rewrite (py_prop_lit q (String a s) _ _ eq_refl)
         end.
Ltac step_int p :=
  match goal with
  | |- context [py_int (option_map ?f (get_slot ?k p))] => destruct (get_slot k p) eqn:?
  | |- context [py_isnan (option_map ?f (get_slot ?k p))] => destruct (get_slot k p) eqn:?
  | |- context [py_isnan (get_slot ?k p)] => destruct (get_slot k p) eqn:?
  end; cbn [bind py_int option_map py_float py_isnan notM negb].

Theorem source_oscar_particle_as_list_spec self p :
  gen_oscar_particle_as_list self p = oscar_row_spec (o_format self) (o_attrs self) p.
Proof.
  unfold gen_oscar_particle_as_list, oscar_row_spec, is_ext3. set (f := o_format self).
  destruct (f =? "ASCII") eqn:EA.
  - rewrite bind_ok. rewrite (fold_append _ (py_prop gen_particle_props p)) by (intros; apply bind_ok).
    cbn [app]. apply bind_ok.
  - cbv zeta. props_lit.
    cbn [mapr cellf wcols_2013 wcols_ext20 skipn app fst snd optcol_i optcol_f].
    destruct (f =? "Oscar2013Extended") eqn:E1; destruct (f =? "Oscar2013Extended_IC") eqn:E2;
      destruct (f =? "Oscar2013Extended_Photons") eqn:E3; destruct (f =? "Oscar2013") eqn:E4;
      cbn [orb andb negb bind py_int option_map py_float py_isnan notM];
      repeat step_int p; unfold optcol_i, optcol_f;
      repeat match goal with H : get_slot _ p = _ |- _ => rewrite H; clear H end; reflexivity.
Qed.

(* ---- the hand model's values and the cells of the source *)
Definition cellq (b : bool) (v : Q) : option Q := Some (if b then trq v else v).
Definition cellsQ (flags : list bool) (vs : list Q) : row := map (fun bv => cellq (fst bv) (snd bv)) (combine flags vs).
Definition ascii_flag (a : string) : bool := match assoc a attr_table with Some (_, b) => b | None => false end.
(* which columns of the row are written through int() *)
Definition row_flags (format : string) (attrs : list string) (p : particle) : list bool :=
  if format =? "ASCII" then map ascii_flag attrs
  else match wcols_of format p with Ok cs => map snd cs | Err _ => [] end.

Lemma mapr_cellf p cs : forall vs, mapr (fun c => col_value c p) cs = Ok vs -> mapr (cellf p) cs = Ok (cellsQ (map snd cs) vs).
Proof.
  induction cs as [|c cs IH]; intros vs H; cbn [mapr map] in *.
  - injection H as <-. reflexivity.
  - unfold col_value at 1 in H. unfold cellf at 1. destruct (get_slot (snd (fst c)) p) as [v|] eqn:E.
    + cbn [bind] in H. destruct (mapr (fun c0 => col_value c0 p) cs) as [vs'|] eqn:E2; cbn [bind] in H; [|discriminate].
      injection H as <-. rewrite (IH vs' eq_refl). unfold cellsQ. cbn [combine map fst snd bind]. unfold cellq.
      destruct (snd c); [rewrite trq_idem|]; reflexivity.
    + destruct (snd c); discriminate.
Qed.

Lemma spec_is_cellf f attrs p cs : (f =? "ASCII") = false -> wcols_of f p = Ok cs ->
  oscar_row_spec f attrs p = mapr (cellf p) cs.
Proof.
  intros EA H. unfold oscar_row_spec. rewrite EA. unfold wcols_of in H.
  destruct (f =? "Oscar2013") eqn:E1.
  - injection H as <-. apply String.eqb_eq in E1. subst f. cbn [is_ext3 String.eqb Ascii.eqb Bool.eqb orb negb].
    destruct (mapr (cellf p) wcols_2013); reflexivity.
  - destruct ((f =? "Oscar2013Extended") || (f =? "Oscar2013Extended_IC")) eqn:E2; [|discriminate].
    assert (Hcs : cs = ((wcols_2013 ++ skipn 12 wcols_ext20)
                        ++ (match get_slot 22 p with Some _ => [wcol_baryon] | None => [] end)
                        ++ (match get_slot 23 p with Some _ => [wcol_strange] | None => [] end))%list)
      by (injection H as <-; reflexivity).
    subst cs. clear H.
    assert (E3 : is_ext3 f = true) by (unfold is_ext3; rewrite E2; reflexivity).
    assert (E4 : (f =? "Oscar2013Extended_Photons") = false).
    { apply orb_true_iff in E2. destruct E2 as [E|E]; apply String.eqb_eq in E; subst f; reflexivity. }
    rewrite E3, E4. cbn [negb].
    rewrite !mapr_app.
    destruct (mapr (cellf p) wcols_2013) as [a|]; cbn [bind]; [|reflexivity].
    destruct (mapr (cellf p) (skipn 12 wcols_ext20)) as [b|]; cbn [bind]; [|reflexivity].
    unfold optcol_i, wcol_baryon, wcol_strange.
    destruct (get_slot 22 p) eqn:S22; destruct (get_slot 23 p) eqn:S23;
      cbn [mapr bind app fst snd cellf]; rewrite ?S22, ?S23; cbn [bind app]; rewrite ?app_nil_r, <- ?app_assoc; reflexivity.
Qed.

Lemma attr_table_props a x : assoc a attr_table = Some x -> assoc a gen_particle_props = Some x.
Proof.
  unfold attr_table, gen_particle_props; cbn [assoc].
  repeat match goal with
         | |- context [(a =? ?k)%string] =>
           destruct (a =? k)%string eqn:E;
           [apply String.eqb_eq in E; subst a; vm_compute; intro H; first [exact H | discriminate H] | clear E]
         end.
  intro H; discriminate H.
Qed.

Lemma spec_ascii p attrs : forall vs,
  mapr (fun a => match assoc a attr_table with Some (s, isint) => col_value (a, s, isint) p | None => Err OtherError end) attrs = Ok vs ->
  mapr (py_prop gen_particle_props p) attrs = Ok (cellsQ (map ascii_flag attrs) vs).
Proof.
  induction attrs as [|a attrs IH]; intros vs H; cbn [mapr map] in *.
  - injection H as <-. reflexivity.
  - destruct (assoc a attr_table) as [[s isint]|] eqn:E; [|discriminate].
    unfold py_prop at 1. rewrite (attr_table_props _ _ E). unfold col_value in H at 1. cbn [fst snd] in H.
    destruct (get_slot s p) as [v|]; [|destruct isint; discriminate]. cbn [bind] in H |- *.
    destruct (mapr _ attrs) as [vs'|] eqn:E2; cbn [bind] in H; [|discriminate]. injection H as <-.
    rewrite (IH vs' eq_refl). unfold cellsQ, ascii_flag. rewrite E. cbn [combine map fst snd bind]. unfold cellq, trq.
    destruct isint; reflexivity.
Qed.

(* what the hand model takes as the values of a row are the cells of the source row (integer columns truncated) *)
Theorem source_oscar_particle_as_list self p vs :
  row_values (o_format self) (o_attrs self) p = Ok vs ->
  gen_oscar_particle_as_list self p = Ok (cellsQ (row_flags (o_format self) (o_attrs self) p) vs).
Proof.
  intros H. rewrite source_oscar_particle_as_list_spec. unfold row_values, row_flags in *.
  destruct (o_format self =? "ASCII") eqn:EA.
  - unfold oscar_row_spec. rewrite EA. apply spec_ascii. exact H.
  - destruct (wcols_of (o_format self) p) as [cs|] eqn:E; cbn [bind] in H; [|discriminate].
    rewrite (spec_is_cellf _ _ _ cs EA E). apply mapr_cellf. exact H.
Qed.

(* ---- Jetscape._particle_as_list *)
Theorem source_jetscape_particle_as_list_spec self p :
  gen_jetscape_particle_as_list self p = mapr (cellf p) jet_cols.
Proof.
  unfold gen_jetscape_particle_as_list. cbv zeta. props_lit.
  cbn [mapr cellf jet_cols fst snd bind py_int option_map py_float].
  repeat step_int p; reflexivity.
Qed.

Theorem source_jetscape_particle_as_list self p vs :
  mapr (fun c => col_value c p) jet_cols = Ok vs ->
  gen_jetscape_particle_as_list self p = Ok (cellsQ (map snd jet_cols) vs).
Proof. intros H. rewrite source_jetscape_particle_as_list_spec. apply mapr_cellf. exact H. Qed.

(* ---- formatting a row: integer columns are printed with %d, which prints the integer part *)
Fixpoint fl_ok (flags : list bool) (fs : list colfmt) : bool :=
  match flags, fs with
  | b :: bs, f :: fs' => implb b (match f with FD => true | _ => false end) && fl_ok bs fs'
  | _, _ => true
  end.

Lemma cellsQ_length flags vs : List.length flags = List.length vs -> List.length (cellsQ flags vs) = List.length vs.
Proof. intros H. unfold cellsQ. rewrite map_length, combine_length, H. lia. Qed.

Section FmtRow.
  Variable fmt : colfmt -> Q -> string.
  Hypothesis Hfd : forall v, fmt FD (trq v) = fmt FD v.

  Lemma fmt_row_cells : forall fs flags vs, fl_ok flags fs = true -> List.length flags = List.length vs ->
    fmt_row fmt fs (cellsQ flags vs) = zipfmt fmt fs vs.
  Proof.
    induction fs as [|f fs IH]; intros flags vs Hok Hlen.
    - destruct vs as [|v vs]; destruct flags as [|b bs]; try discriminate; reflexivity.
    - destruct vs as [|v vs]; destruct flags as [|b bs]; try discriminate; [reflexivity|].
      cbn [fl_ok] in Hok. apply andb_true_iff in Hok. destruct Hok as [Hb Hok]. cbn [List.length] in Hlen.
      unfold cellsQ. cbn [combine map fst snd fmt_row zipfmt fmt_cell cellq bind].
      change (map (fun bv => cellq (fst bv) (snd bv)) (combine bs vs)) with (cellsQ bs vs).
      rewrite (IH bs vs Hok) by lia.
      assert (E : fmt f (if b then trq v else v) = fmt f v).
      { destruct b; [|reflexivity]. destruct f; try discriminate. apply Hfd. }
      rewrite E. destruct (zipfmt fmt fs vs); reflexivity.
  Qed.
End FmtRow.

(* C20: the hand model Model/Jets.v equals JetAnalysis.py as regenerated into Gen/GenJets.v on every run
   (tools/py2coq/gen_jets.py, runtime Model/JetsRt.v).  One theorem per translated method. *)
From Coq Require Import List ZArith QArith Bool String Lia Lqa.
From SX Require Import Model.Jets Model.JetsSpec Model.JetsRt Gen.GenJets.
Import ListNotations.

Definition exn_of (e : jerr) : pyexn :=
  match e with EValue => ValueError | EIndex => IndexError | ENoFile => FileNotFoundError end.
Definition res_of {A} (r : result A) : pyres A := match r with Ok a => POk a | Err e => PErr (exn_of e) end.
(* the object after an accepted parameter check *)
Definition self_after (self : jself) (hd : list event) (R : Q) (w p : ext * ext) : jself :=
  JSelf (Some hd) (Some R) (Some w) (Some p) (jet_data_ self).
Definition sel_str (s : sel) : string := match s with Negative => "negative" | Positive => "positive" end.
(* the distance the source computes: np.sqrt(delta_eta**2.0 + delta_phi**2.0), delta_eta = particle.eta() - jet.eta(),
   delta_phi = particle.delta_phi_to(jet) *)
Definition dR_of (o_eta : vec4 -> Q) (o_dphi : vec4 -> vec4 -> Q) (o_sqrt : Q -> Q) (jet v : vec4) : Q :=
  o_sqrt (Qplus (Qpower (Qminus (o_eta v) (o_eta jet)) 2) (Qpower (o_dphi v jet) 2)).
(* what perp() is assumed to be where the model compares on squares *)
Definition perp_at (o_perp : vec4 -> Q) (v : vec4) : Prop := 0 <= o_perp v /\ o_perp v * o_perp v == perp2 v.
Definition bound_ok (b : ext) : Prop := match b with Fin x => 0 <= x | _ => True end.

Lemma v4_eta m : V4 (vx m) (vy m) (vz m) (ve m) = m.
Proof. destruct m; reflexivity. Qed.

(* ---- __init__, defaults ------------------------------------------------------------------------------------ *)
Theorem source_defaults :
  gen_new = JSelf None None None None None
  /\ gen_default_write_jet_output_new_file = false
  /\ gen_default_perform_jet_finding_assoc_only_charged = true
  /\ gen_default_perform_jet_finding_jet_algorithm = GModel AntiKt.
Proof. repeat split. Qed.

(* ---- __initialize_and_check_parameters ------------------------------------------------------------------------ *)
Theorem source_params : forall self hd al R eta pt ch,
  gen_initialize_and_check_parameters self hd R eta pt
  = match check_params (Params al R eta pt ch) with
    | Err e => PErr (exn_of e)
    | Ok (w, p) => POk (self_after self hd R w p, tt)
    end.
Proof.
  intros self hd al R [e0 e1] [p0 p1] ch.
  unfold gen_initialize_and_check_parameters, check_params, norm_eta, norm_pt, reorder, negative_bound, self_after.
  cbn [a_R a_pt a_eta fst snd negb existsb Z.eqb Pos.eqb].
  destruct (Qle_bool R 0); [reflexivity|].
  rewrite orb_false_r.
  destruct p0 as [x0|], p1 as [x1|]; cbn [orb];
    repeat match goal with |- context [qlt ?a 0] => destruct (qlt a 0); cbn [orb]; try reflexivity end;
    destruct e0, e1;
    repeat match goal with |- context [ext_lt ?a ?b] => destruct (ext_lt a b) end; reflexivity.
Qed.

(* ---- create_fastjet_PseudoJets ------------------------------------------------------------------------------- *)
Theorem source_pseudojets : forall ev : event, gen_create_fastjet_PseudoJets ev = map pmom ev.
Proof. intros ev. unfold gen_create_fastjet_PseudoJets. apply map_ext. intros h. apply v4_eta. Qed.

(* ---- jet_hole_subtraction -------------------------------------------------------------------------------------- *)
Theorem source_hole_subtraction : forall (jet : vec4) (holes : list particle),
  gen_jet_hole_subtraction jet holes = jet_hole_subtraction jet holes.
Proof.
  intros jet holes. unfold gen_jet_hole_subtraction, jet_hole_subtraction, vsum, vsub, vzero. cbv zeta.
  match goal with |- context [fold_left ?b holes (0, 0, 0, 0)] =>
    assert (L : forall e x y z, fold_left b holes (e, x, y, z)
                = (fun s => (ve s, vx s, vy s, vz s)) (fold_left (fun s h => vadd s (pmom h)) holes (V4 x y z e)))
  end.
  { induction holes as [|h t IH]; intros e x y z; [reflexivity|]. cbn [fold_left]. rewrite IH. reflexivity. }
  rewrite L. reflexivity.
Qed.

(* ---- fill_associated_particles --------------------------------------------------------------------------------- *)
Theorem source_fill : forall o_eta o_dphi o_sqrt self hd R jet i ev s oc,
  hadron_data_ self = Some hd -> jet_R_ self = Some R ->
  (0 <= i < zlen hd)%Z -> py_index hd i = Some ev ->
  gen_fill_associated_particles o_eta o_dphi o_sqrt self jet i (sel_str s) oc
  = res_of (fill (dR_of o_eta o_dphi o_sqrt) R jet s oc ev).
Proof.
  intros o_eta o_dphi o_sqrt self hd R jet i ev s oc HD JR [I0 I1] IX.
  unfold gen_fill_associated_particles. rewrite HD.
  assert (B : ((0 <=? i)%Z && (i <? zlen hd)%Z) = true) by (apply andb_true_iff; split; [apply Z.leb_le|apply Z.ltb_lt]; assumption).
  rewrite B, IX. cbn [negb]. cbv zeta.
  match goal with |- context [loopE ?b ev []] => set (body := b) end.
  assert (S : forall acc h, body acc h
              = match pstatus h with
                | None => PErr ValueError
                | Some st => if skipped s oc h st then POk acc
                             else if qlt (dR_of o_eta o_dphi o_sqrt jet (pmom h)) R then POk (acc ++ [h]) else POk acc
                end).
  { intros acc h. unfold body. destruct (pstatus h) as [st|]; [|reflexivity].
    rewrite JR, v4_eta. fold (dR_of o_eta o_dphi o_sqrt jet (pmom h)).
    replace (skipped s oc h st)
      with (String.eqb (sel_str s) "negative" && (0 <=? st)%Z
            || (String.eqb (sel_str s) "positive" && (st <? 0)%Z
                || oc && match pcharge h with Some c_ => (c_ =? 0)%Z | None => false end))
      by (unfold skipped, charge_is_zero; destruct s; cbn; reflexivity).
    match goal with |- (if ?c then _ else _) = _ => destruct c; [reflexivity|] end.
    destruct (qlt _ R); reflexivity. }
  clearbody body.
  assert (L : forall acc, loopE body ev acc
                = match fill (dR_of o_eta o_dphi o_sqrt) R jet s oc ev with
                  | Ok r => POk (acc ++ r) | Err e => PErr (exn_of e) end).
  { clear IX. induction ev as [|h t IH]; intros acc.
    - cbn. rewrite app_nil_r. reflexivity.
    - cbn [loopE fill]. rewrite S. destruct (pstatus h) as [st|]; [|reflexivity].
      destruct (skipped s oc h st).
      + rewrite IH. destruct (fill _ R jet s oc t); reflexivity.
      + destruct (qlt (dR_of o_eta o_dphi o_sqrt jet (pmom h)) R); rewrite IH;
          destruct (fill _ R jet s oc t); try reflexivity. rewrite <- app_assoc. reflexivity. }
  rewrite L. destruct (fill _ R jet s oc ev); reflexivity.
Qed.

(* ---- write_jet_output ------------------------------------------------------------------------------------------ *)
(* `jet.perp() < bound` as written, against the model's comparison on squares *)
Lemma sq_le_iff : forall x a : Q, 0 <= x -> 0 <= a -> (x <= a <-> x * x <= a * a).
Proof.
  intros x a Hx Ha. split; intros H.
  - nra.
  - destruct (Qlt_le_dec a x) as [L|L]; [|exact L]. exfalso. nra.
Qed.

Lemma perp_lt_bound : forall o_perp v b, perp_at o_perp v -> bound_ok b -> ext_lt (Fin (o_perp v)) b = pt_lt v b.
Proof.
  intros o_perp v b P B. destruct b as [|x|]; try reflexivity.
  cbn [ext_lt]. unfold pt_lt, pt_ge, qlt. f_equal.
  destruct P as [P0 P1]. cbn in B.
  destruct (Qle_bool x (o_perp v)) eqn:E1, (Qle_bool (x * x) (perp2 v)) eqn:E2; try reflexivity; exfalso.
  - apply Qle_bool_iff in E1. apply (sq_le_iff x (o_perp v) B P0) in E1. rewrite P1 in E1.
    apply Qle_bool_iff in E1. congruence.
  - apply Qle_bool_iff in E2. rewrite <- P1 in E2. apply (sq_le_iff x (o_perp v) B P0) in E2.
    apply Qle_bool_iff in E2. congruence.
Qed.

Theorem source_write : forall o_perp o_eta o_phi self (fs : file) pt jet assoc i nf,
  jet_pT_range_ self = Some pt -> perp_at o_perp jet -> bound_ok (snd pt) ->
  gen_write_jet_output o_perp o_eta o_phi self fs jet assoc i nf
  = (write_jet_output o_perp o_eta o_phi fs (snd pt) jet assoc i nf, POk false).
Proof.
  intros o_perp o_eta o_phi self fs pt jet assoc i nf PT P B.
  unfold gen_write_jet_output, write_jet_output, output_list. rewrite PT. cbv zeta.
  rewrite (perp_lt_bound o_perp jet (snd pt) P B).
  match goal with |- context [fold_left ?b (enumerate_from 1 assoc) ?a0] =>
    assert (L : forall l k acc, fold_left b (enumerate_from k l) acc = acc ++ hadron_rows o_perp o_eta o_phi k l i)
  end.
  { induction l as [|p t IH]; intros k acc.
    - cbn. rewrite app_nil_r. reflexivity.
    - cbn [enumerate_from fold_left hadron_rows]. rewrite IH, v4_eta, <- app_assoc. reflexivity. }
  rewrite L. fold (jet_row o_perp o_eta o_phi jet i).
  destruct nf; cbn; destruct (pt_lt jet (snd pt)); reflexivity.
Qed.

(* ---- read_jet_data ----------------------------------------------------------------------------------------------- *)
Theorem source_read : forall self (fs : file),
  gen_read_jet_data self fs
  = (fs, match read_jet_data fs with
         | Ok d => POk (set_jet_data_ self (Some d), tt)
         | Err e => PErr (exn_of e)
         end).
Proof.
  intros self [ls|]; [|reflexivity].
  unfold gen_read_jet_data, read_jet_data. cbn [fs_open fs_reader String.eqb Ascii.eqb Bool.eqb content]. cbv zeta.
  match goal with |- context [loopE ?b ls ([], [])] => set (body := b) end.
  assert (S : forall jd cj l, body (jd, cj) l
              = match l with
                | Foreign _ => PErr ValueError
                | JetLine r => if (r_idx r =? 0)%Z && nonempty cj then POk (jd ++ [cj], [r]) else POk (jd, cj ++ [r])
                end).
  { intros jd cj [r|tag]; [|reflexivity]. unfold body. destruct r. cbn. 
    match goal with |- context [if ?c then _ else _] => destruct c end; reflexivity. }
  clearbody body.
  assert (L : forall l jd cj,
             match loopE body l (jd, cj) with
             | PErr e => PErr e
             | POk (jd', cj') => POk (if nonempty cj' then jd' ++ [cj'] else jd')
             end = res_of (read_loop l jd cj)).
  { induction l as [|x t IH]; intros jd cj.
    - reflexivity.
    - cbn [loopE read_loop]. rewrite S. destruct x as [r|tag]; [|reflexivity].
      destruct ((r_idx r =? 0)%Z && nonempty cj); apply IH. }
  specialize (L ls [] []). destruct (loopE body ls ([], [])) as [[jd' cj']|e]; destruct (read_loop ls [] []);
    cbn in L; try discriminate; inversion L; subst; reflexivity.
Qed.

(* ---- perform_jet_finding ------------------------------------------------------------------------------------------ *)
Lemma py_index_app : forall A (pre : list A) x post, py_index (pre ++ x :: post) (zlen pre) = Some x.
Proof.
  intros A pre x post. unfold py_index, zlen.
  destruct (Z.of_nat (List.length pre) <? 0)%Z eqn:E; [apply Z.ltb_lt in E; lia|].
  rewrite Nat2Z.id, nth_error_app2 by lia. rewrite Nat.sub_diag. reflexivity.
Qed.

Lemma qlt_false : forall x, qlt x 0 = false -> 0 <= x.
Proof. intros x H. unfold qlt in H. apply negb_false_iff in H. apply Qle_bool_iff in H. exact H. Qed.

Lemma bound_ok_params : forall a w p, check_params a = Ok (w, p) -> bound_ok (snd p).
Proof.
  intros [al R eta [p0 p1] ch] w p. unfold check_params. cbn [a_R a_pt a_eta fst snd].
  destruct (Qle_bool R 0); [discriminate|].
  destruct (negative_bound p0 || negative_bound p1) eqn:N; [discriminate|].
  intros H. inversion H; subst. apply orb_false_iff in N. destruct N as [N0 N1].
  unfold norm_pt, reorder. cbn [fst snd].
  destruct p0 as [x0|], p1 as [x1|]; cbn in N0, N1;
    match goal with |- context [if ?c then _ else _] => destruct c end; cbn;
    auto using qlt_false; try apply Qle_refl.
Qed.

Definition conv (r : file * option jerr) : file * pyres unit :=
  (fst r, match snd r with None => POk tt | Some e => PErr (exn_of e) end).

Theorem source_perform : forall o_cluster o_perp o_eta o_phi o_dphi o_sqrt self (fs : file) evs al R eta pt ch,
  (forall w p ev jet holes,
     check_params (Params al R eta pt ch) = Ok (w, p) -> In ev evs ->
     In jet (select o_cluster o_eta (Params al R eta pt ch) w p ev) ->
     fill (dR_of o_eta o_dphi o_sqrt) R jet Negative false ev = Ok holes ->
     perp_at o_perp (jet_hole_subtraction jet holes)) ->
  gen_perform_jet_finding o_cluster o_perp o_eta o_phi o_dphi o_sqrt self fs evs R eta pt ch (GModel al)
  = let a := Params al R eta pt ch in
    let r := perform o_cluster o_perp o_eta o_phi (dR_of o_eta o_dphi o_sqrt) a fs evs in
    (fst r, match snd r with
            | Some e => PErr (exn_of e)
            | None => match check_params a with
                      | Ok (w, p) => POk (self_after self evs R w p, tt)
                      | Err e => PErr (exn_of e)
                      end
            end).
Proof.
  intros o_cluster o_perp o_eta o_phi o_dphi o_sqrt self fs evs al R eta pt ch P.
  unfold gen_perform_jet_finding. rewrite (source_params self evs al R eta pt ch). unfold perform. cbv zeta.
  destruct (check_params (Params al R eta pt ch)) as [[w p]|e] eqn:CP; [|reflexivity].
  pose proof (bound_ok_params _ _ _ CP) as HB.
  pose proof (fun ev jet holes => P w p ev jet holes eq_refl) as P'. clear P.
  unfold self_after.
  cbn [hadron_data_ jet_R_ jet_eta_range_ jet_pT_range_ fs_open String.eqb Ascii.eqb Bool.eqb galg_eqb orb].
  set (a := Params al R eta pt ch).
  set (dR := dR_of o_eta o_dphi o_sqrt).
  match goal with |- context [loopF ?b (enumerate_from 0 evs) (Some []) tt] => set (body := b) end.
  assert (S : forall f pre ev post, evs = pre ++ ev :: post ->
              body f tt (zlen pre, ev)
              = conv (jets_loop o_perp o_eta o_phi dR a (snd p) ev (zlen pre) (select o_cluster o_eta a w p ev) f)).
  { intros f pre ev post E. unfold body. cbv beta iota.
    assert (IX : py_index evs (zlen pre) = Some ev) by (rewrite E; apply py_index_app).
    assert (RG : (0 <= zlen pre < zlen evs)%Z)
      by (rewrite E; unfold zlen; rewrite app_length; cbn [List.length]; lia).
    replace (fj_select o_eta (SelectorEtaRange (fst w) (snd w))
               (fj_sorted_by_pt (fj_inclusive_jets o_cluster
                  (ClusterSequence (gen_create_fastjet_PseudoJets ev) (JetDefinition (GModel al) R None)) (fst p))))
      with (select o_cluster o_eta a w p ev)
      by (unfold select, fj_select, fj_sorted_by_pt, fj_inclusive_jets, fj_all_jets;
          cbn [sel_lo sel_hi cs_in cs_def jd_alg jd_R jd_extra a_alg a_R a]; rewrite source_pseudojets;
          rewrite <- surjective_pairing; reflexivity).
    assert (INev : In ev evs) by (rewrite E; apply in_elt).
    set (SEL := select o_cluster o_eta a w p ev).
    match goal with |- (let (_, _) := loopF ?b SEL f tt in _) = _ => set (jb := b) end.
    assert (S2 : forall f jet, In jet SEL -> jb f tt jet
                 = match fill dR R jet Negative false ev with
                   | Err e => (f, PErr (exn_of e))
                   | Ok holes =>
                     match fill dR R jet Positive ch ev with
                     | Err e => (f, PErr (exn_of e))
                     | Ok assoc => (write_jet_output o_perp o_eta o_phi f (snd p) (jet_hole_subtraction jet holes)
                                                     assoc (zlen pre) false, POk tt)
                     end
                   end).
    { intros f0 jet INj. unfold jb.
      change "negative"%string with (sel_str Negative). change "positive"%string with (sel_str Positive).
      match goal with |- context [gen_fill_associated_particles _ _ _ ?sf jet _ (sel_str Negative) _] =>
        rewrite (source_fill o_eta o_dphi o_sqrt sf evs R jet (zlen pre) ev Negative false eq_refl eq_refl RG IX) end.
      fold dR. destruct (fill dR R jet Negative false ev) as [holes|e] eqn:FN; cbn [res_of]; [|reflexivity].
      match goal with |- context [gen_fill_associated_particles _ _ _ ?sf jet _ (sel_str Positive) _] =>
        rewrite (source_fill o_eta o_dphi o_sqrt sf evs R jet (zlen pre) ev Positive ch eq_refl eq_refl RG IX) end.
      fold dR. destruct (fill dR R jet Positive ch ev) as [assoc|e]; cbn [res_of]; [|reflexivity].
      rewrite source_hole_subtraction. unfold gen_default_write_jet_output_new_file.
      match goal with |- context [gen_write_jet_output _ _ _ ?sf f0 _ _ _ _] =>
        rewrite (source_write o_perp o_eta o_phi sf f0 p _ assoc (zlen pre) false eq_refl (P' ev jet holes INev INj FN) HB) end.
      reflexivity. }
    clearbody jb.
    assert (J : forall jets, incl jets SEL -> forall f,
                (let (fs0, p0) := loopF jb jets f tt in
                 match p0 with POk _ => (fs0, POk tt) | PErr e_ => (fs0, PErr e_) end)
                = conv (jets_loop o_perp o_eta o_phi dR a (snd p) ev (zlen pre) jets f)).
    { induction jets as [|jet t IH]; intros INC f0.
      - reflexivity.
      - cbn [loopF jets_loop]. rewrite S2 by (apply INC; left; reflexivity). cbn [a_R a_charged a].
        destruct (fill dR R jet Negative false ev) as [holes|e]; [|reflexivity].
        destruct (fill dR R jet Positive ch ev) as [assoc|e]; [|reflexivity].
        apply IH. intros x Hx. apply INC. right. exact Hx. }
    apply J. apply incl_refl. }
  clearbody body.
  assert (L : forall post pre f, evs = pre ++ post ->
              loopF body (enumerate_from (zlen pre) post) f tt
              = conv (events_loop o_cluster o_perp o_eta o_phi dR a w p (zlen pre) post f)).
  { induction post as [|ev t IH]; intros pre f E.
    - reflexivity.
    - cbn [enumerate_from loopF events_loop]. rewrite (S f pre ev t E).
      destruct (jets_loop o_perp o_eta o_phi dR a (snd p) ev (zlen pre) (select o_cluster o_eta a w p ev) f) as [f' [e|]];
        unfold conv at 1; cbn [fst snd]; [reflexivity|].
      replace (zlen pre + 1)%Z with (zlen (pre ++ [ev]))
        by (unfold zlen; rewrite app_length; cbn [List.length]; lia).
      apply IH. rewrite <- app_assoc. exact E. }
  specialize (L evs [] (Some []) eq_refl). unfold zlen in L. cbn [List.length Z.of_nat] in L. unfold create_empty. unfold event in *. rewrite L.
  destruct (events_loop o_cluster o_perp o_eta o_phi dR a w p 0 evs (Some [])) as [f' [e|]]; reflexivity.
Qed.

(* ---- non-vacuity: the hypothesis of source_perform on a concrete call (one event, a 3-4-5 jet with one associated
   hadron and one hole outside the cone), and what the regenerated method computes there ------------------------- *)
Definition sx_cluster (_ : alg) (_ : Q) (_ : list vec4) : list vec4 := [V4 3 4 0 5].
Definition sx_perp (v : vec4) : Q := if Qeq_bool (vx v) 3 && Qeq_bool (vy v) 4 then 5 else 0.
Definition sx_eta (v : vec4) : Q := vz v.
Definition sx_phi (_ : vec4) : Q := 1.
Definition sx_dphi (_ _ : vec4) : Q := 0.
Definition sx_sqrt (x : Q) : Q := x.
Definition sx_events : list event :=
  [[P (V4 3 4 0 5) (Some 1%Z) (Some 1%Z) 211%Z; P (V4 1 0 2 3) (Some (-1)%Z) (Some 0%Z) 111%Z]].
Definition sx_run :=
  gen_perform_jet_finding sx_cluster sx_perp sx_eta sx_phi sx_dphi sx_sqrt gen_new (Some [Foreign 7]) sx_events
                          1 (Some 2, Some (-2)) (None, Some 6) true (GModel AntiKt).

Theorem source_example :
  (forall w p ev jet holes,
     check_params (Params AntiKt 1 (Some 2, Some (-2)) (None, Some 6) true) = Ok (w, p) -> In ev sx_events ->
     In jet (select sx_cluster sx_eta (Params AntiKt 1 (Some 2, Some (-2)) (None, Some 6) true) w p ev) ->
     fill (dR_of sx_eta sx_dphi sx_sqrt) 1 jet Negative false ev = Ok holes ->
     perp_at sx_perp (jet_hole_subtraction jet holes))
  /\ List.length (content (fst sx_run)) = 2%nat
  /\ (exists s, snd sx_run = POk (s, tt)).
Proof.
  split; [|split].
  - intros w p ev jet holes CP [E|[]] IJ F. subst ev. vm_compute in CP. inversion CP; subst w p. clear CP.
    vm_compute in IJ. destruct IJ as [E|[]]. subst jet. vm_compute in F. inversion F; subst holes.
    split; vm_compute; [discriminate|reflexivity].
  - vm_compute. reflexivity.
  - vm_compute. eexists. reflexivity.
Qed.

(* C02/C05 (Oscar family): a constructor filter together with an event selection is "select, then filter":
   the events read are filtered one by one; an event the filter empties is dropped (unless it was empty in the file);
   the count rows are those of the events kept, labelled consecutively from the first selected label. *)
From Coq Require Import List String ZArith QArith Bool Arith Lia.
From SX Require Import Lib.Strs Gen.GenParticleMap Model.Oscar Model.OscarDoc Proofs.C01_Oscar Proofs.C02_Oscar.
Import ListNotations.
Local Open Scope string_scope.

Section P.
  Variable tok_float : string -> option Q.
  Variable tok_int : string -> option Q.
  Variable pdg_valid : Q -> bool.
  Variable f : list particle -> list particle.          (* the constructor filter on one event *)

  Notation wf_events := (wf_events tok_float tok_int pdg_valid).
  Notation parse_rows := (parse_rows tok_float tok_int pdg_valid).
  Notation RLF := (read_loop tok_float tok_int pdg_valid (Some f)).
  Notation LOADF := (load tok_float tok_int pdg_valid (Some f)).

  (* what survives of a list of events *)
  Definition keeps (ev : list particle) : bool := negb (List.length (f ev) =? 0)%nat || (List.length ev =? 0)%nat.
  Fixpoint kept (evs : list (list particle)) : list (list particle) :=
    match evs with [] => [] | ev :: t => if keeps ev then f ev :: kept t else kept t end.
  Fixpoint ncut (evs : list (list particle)) : Z :=
    match evs with [] => 0 | ev :: t => if keeps ev then ncut t else (1 + ncut t) end%Z.

  (* count rows labelled consecutively from o *)
  Fixpoint relab (o : Z) (l : list nat) : list (Z * Z) :=
    match l with [] => [] | x :: t => (o, Z.of_nat x) :: relab (o + 1) t end.

  Lemma relab_app o a b : relab o (a ++ b) = (relab o a ++ relab (o + Z.of_nat (List.length a)) b)%list.
  Proof.
    revert o. induction a as [|x a IH]; intros o; cbn [app relab List.length].
    - replace (o + Z.of_nat 0)%Z with o by lia. reflexivity.
    - rewrite IH. replace (o + 1 + Z.of_nat (List.length a))%Z with (o + Z.of_nat (S (List.length a)))%Z by lia. reflexivity.
  Qed.
  Lemma relab_length o l : List.length (relab o l) = List.length l.
  Proof. revert o. induction l as [|x t IH]; intros o; cbn; [reflexivity|now rewrite IH]. Qed.

  Lemma set_row_relab o : forall a x y r,
    set_row (List.length a) (o + Z.of_nat (List.length a), Z.of_nat y)%Z (relab o (a ++ x :: r))
    = Ok (relab o (a ++ y :: r)).
  Proof.
    intros a. revert o. induction a as [|z a IH]; intros o x y r.
    - cbn [List.length app relab set_row]. rewrite Z.add_0_r. reflexivity.
    - cbn [List.length app relab set_row]. specialize (IH (o + 1)%Z x y r).
      replace (o + Z.of_nat (S (List.length a)))%Z with (o + 1 + Z.of_nat (List.length a))%Z by lia.
      rewrite IH. reflexivity.
  Qed.

  Lemma delete_dec_relab o : forall a x r,
    dec_labels_from (List.length a) (delete_row (List.length a) (relab o (a ++ x :: r))) = relab o (a ++ r).
  Proof.
    intros a. revert o. induction a as [|z a IH]; intros o x r.
    - cbn [List.length app relab delete_row]. unfold dec_labels_from. cbn [firstn skipn app].
      assert (G : forall l p, map (fun c : Z * Z => (fst c - 1, snd c)%Z) (relab (p + 1) l) = relab p l).
      { induction l as [|w l IHl]; intros p; cbn [relab map fst snd]; [reflexivity|]. rewrite IHl. f_equal. f_equal. lia. }
      apply G.
    - cbn [List.length app relab delete_row]. unfold dec_labels_from in *. cbn [firstn skipn app]. f_equal. apply IH.
  Qed.

  Lemma relab_counts_from : forall evs i,
    counts_from i evs = relab (Z.of_nat i) (map (fun e => List.length (e_rows e)) evs).
  Proof.
    induction evs as [|e t IH]; intros i; cbn [counts_from map relab]; [reflexivity|].
    rewrite IH. do 2 f_equal. lia.
  Qed.

  (* closing one event under the invariant  counts = relab first (sizes kept ++ sizes still to come) *)
  Lemma close_some first pl dat rest_sizes c :
    close_event (Some f) first
      {| plist := pl; data := dat;
         counts := relab first (map (@List.length _) pl ++ List.length dat :: rest_sizes); cut := c |}
    = Ok (if keeps dat
          then {| plist := (pl ++ [f dat])%list; data := [];
                  counts := relab first (map (@List.length _) (pl ++ [f dat]) ++ rest_sizes); cut := c |}
          else {| plist := pl; data := [];
                  counts := relab first (map (@List.length _) pl ++ rest_sizes); cut := (c + 1)%Z |}).
  Proof.
    unfold close_event, keeps. cbn [plist data counts cut].
    destruct (negb (List.length (f dat) =? 0)%nat || (List.length dat =? 0)%nat) eqn:K.
    - pose proof (set_row_relab first (map (@List.length _) pl) (List.length dat) (List.length (f dat)) rest_sizes) as H.
      rewrite map_length in H. rewrite H. cbn [bind]. rewrite map_app. cbn [map]. rewrite <- app_assoc. reflexivity.
    - assert (Hlt : (List.length pl <? List.length (relab first (map (@List.length _) pl ++ List.length dat :: rest_sizes)))%nat = true).
      { apply Nat.ltb_lt. rewrite relab_length, app_length, map_length. cbn [List.length]. lia. }
      rewrite Hlt.
      pose proof (delete_dec_relab first (map (@List.length _) pl) (List.length dat) rest_sizes) as H.
      rewrite map_length in H. rewrite H. reflexivity.
  Qed.

  (* the read loop over whole events *)
  Lemma rl_events_f first fmt attrs : forall evs i n rest pl c more,
    wf_events fmt attrs i evs ->
    RLF first fmt attrs (List.length (render_events evs) + n) (render_events evs ++ rest)%list
        {| plist := pl; data := [];
           counts := relab first (map (@List.length _) pl ++ map (fun e => List.length (e_rows e)) evs ++ more); cut := c |}
    = RLF first fmt attrs n rest
        {| plist := (pl ++ kept (map (fun e => parse_rows fmt attrs (e_rows e)) evs))%list; data := [];
           counts := relab first (map (@List.length _) (pl ++ kept (map (fun e => parse_rows fmt attrs (e_rows e)) evs)) ++ more);
           cut := (c + ncut (map (fun e => parse_rows fmt attrs (e_rows e)) evs))%Z |}.
  Proof.
    induction evs as [|e evs IH]; intros i n rest pl c more H.
    - cbn [render_events flat_map List.length Nat.add app map kept ncut]. rewrite app_nil_r, Z.add_0_r. reflexivity.
    - destruct H as (He & Ht). destruct He as (_ & Hhk & _ & Hrows & _ & Hfk & _).
      unfold render_events. cbn [flat_map]. fold (render_events evs).
      unfold render_event. rewrite <- !app_comm_cons, <- !app_assoc.
      cbn [List.length]. rewrite !app_length. cbn [List.length].
      match goal with |- read_loop _ _ _ _ _ _ _ ?k _ _ = _ =>
        replace k with (S (List.length (e_rows e) + (S (List.length (render_events evs) + n))))%nat by lia end.
      cbn [read_loop app]. rewrite Hhk.
      (* rows accumulate in data; they do not touch counts *)
      assert (Hr : forall rows n0 rest0 st, Forall (wf_row tok_float tok_int pdg_valid fmt attrs) rows ->
                RLF first fmt attrs (List.length rows + n0) (rows ++ rest0)%list st
                = RLF first fmt attrs n0 rest0 (add_data st (parse_rows fmt attrs rows))).
      { clear. induction rows as [|r rows IHr]; intros n0 rest0 st H.
        - cbn [List.length Nat.add app parse_rows]. unfold add_data. rewrite app_nil_r. destruct st; reflexivity.
        - inversion H as [|? ? Hr Hrs]; subst. destruct Hr as (_ & Hk & p & Hp).
          cbn [List.length Nat.add app read_loop parse_rows]. rewrite Hk, Hp. cbn [bind].
          rewrite IHr by exact Hrs. f_equal. unfold add_data; cbn. rewrite <- app_assoc. reflexivity. }
      rewrite Hr by exact Hrows. unfold add_data. cbn [plist data counts cut app].
      cbn [read_loop app]. rewrite Hfk. cbn [map].
      assert (Hlen : List.length (e_rows e) = List.length (parse_rows fmt attrs (e_rows e))).
      { clear - Hrows. induction Hrows as [|r rows (_ & _ & p & Hp) _ IHr]; [reflexivity|].
        cbn [parse_rows List.length]. rewrite Hp. cbn [List.length]. f_equal. exact IHr. }
      rewrite Hlen. cbn [app].
      rewrite (close_some first pl (parse_rows fmt attrs (e_rows e))
                 (map (fun e0 => List.length (e_rows e0)) evs ++ more) c).
      cbn [bind kept ncut]. destruct (keeps (parse_rows fmt attrs (e_rows e))).
      + rewrite (IH (S i) n rest _ c more Ht). rewrite <- !app_assoc. reflexivity.
      + rewrite (IH (S i) n rest pl (c + 1)%Z more Ht). f_equal. f_equal. lia.
  Qed.

  (* what the constructor with events=(a,b) and filters= returns *)
  Definition filtered (d : doc) (fmt : string) (attrs : list string) (a n : nat) : loaded :=
    let evs := kept (map (fun e => parse_rows fmt attrs (e_rows e)) (firstn n (skipn a (d_events d)))) in
    {| l_events := match evs with [] => [[]] | _ => evs end;
       l_nevents := Z.of_nat (List.length evs);
       l_counts := relab (Z.of_nat a) (map (@List.length _) evs);
       l_format := fmt; l_attrs := attrs;
       l_footers := map e_foot (d_events d) |}.

  Theorem load_range_filtered d fmt attrs (a b : nat) :
    wf tok_float tok_int pdg_valid d fmt attrs -> (a <= b)%nat -> (b < List.length (d_events d))%nat ->
    LOADF (render d) (SelRange (Z.of_nat a) (Z.of_nat b)) = Ok (filtered d fmt attrs a (b - a + 1)).
  Proof.
    intros Hwf Hab Hb. pose proof Hwf as (Hfmt & Hstd & Hs1 & Hs2 & Hs3 & Hne & Hev & Hlast).
    set (evs := d_events d) in *.
    set (A := firstn a evs). set (B := firstn (b - a + 1) (skipn a evs)). set (C := skipn (b - a + 1) (skipn a evs)).
    assert (Hsplit : evs = (A ++ B ++ C)%list) by (unfold A, B, C; rewrite firstn_skipn, firstn_skipn; reflexivity).
    unfold load, render. fold evs. rewrite Hfmt. cbn [bind fst snd].
    assert (Hstd' : ((fmt =? "Oscar2013Extended_IC") || (fmt =? "Oscar2013Extended_Photons")) = false).
    { destruct Hstd as [->|[->| ->]]; reflexivity. }
    rewrite Hstd'. cbn [bind].
    change (d_h1 d :: d_h2 d :: d_h3 d :: render_events evs)
      with ([d_h1 d; d_h2 d] ++ (d_h3 d :: render_events evs))%list.
    assert (Hl : last ([d_h1 d; d_h2 d] ++ d_h3 d :: render_events evs)%list []
                 = e_foot (last evs {| e_head := []; e_rows := []; e_foot := [] |})).
    { cbn [app]. rewrite <- (last_render_events evs _ (d_h3 d) Hne). destruct (render_events evs); reflexivity. }
    rewrite Hl. destruct Hlast as (H0 & Hlen & Hmem & lt & Hlt & Hti).
    unfold num_events_of. fold evs. rewrite H0, Hmem.
    replace (2 <=? List.length (e_foot (last evs {| e_head := []; e_rows := []; e_foot := [] |})))%nat
      with true by (symmetry; apply Nat.leb_le; exact Hlen).
    rewrite String.eqb_refl. cbn [andb]. rewrite Hlt, Hti. cbn [bind].
    cbn [app scan]. rewrite Hs1, Hs2, Hs3.
    rewrite (scan_events tok_float tok_int pdg_valid fmt attrs evs 0 Hev).
    cbn [bind fst snd num_skip num_read sel_first sel_counts].
    rewrite !Nat2Z.id.
    rewrite (sum_counts_ok a evs 0 0) by lia. cbn [skipn bind]. fold A.
    replace (Z.to_nat (Z.of_nat b - Z.of_nat a + 1)) with (b - a + 1)%nat by lia.
    rewrite (sum_counts_ok (b - a + 1) evs 0 a) by lia. fold B. cbn [bind]. rewrite Nat2Z.id.
    assert (Hbody : skipn (Z.to_nat (3 + Z.of_nat (List.length (render_events A))))
                          (d_h1 d :: d_h2 d :: d_h3 d :: render_events evs)
                    = (render_events B ++ render_events C)%list).
    { rewrite Hsplit at 1. rewrite !render_events_app. apply skip_prefix. }
    rewrite !Hbody.
    assert (HwB : wf_events fmt attrs a B).
    { unfold B. apply wf_events_firstn. apply (wf_events_skipn tok_float tok_int pdg_valid fmt attrs a evs 0 Hev). }
    assert (HlenB : List.length B = (b - a + 1)%nat) by (unfold B; rewrite firstn_length, skipn_length; lia).
    assert (Hfirst : (match (render_events B ++ render_events C)%list, List.length (render_events B) with
                      | l0 :: _, S _ => if negb (has "#" l0) && negb (has "out" l0) then Err ValueError else Ok tt
                      | _, _ => Ok tt end) = Ok tt).
    { clearbody B. destruct B as [|e0 B']; [cbn in HlenB; lia|].
      destruct HwB as ((Hk & _) & _). unfold kind_scan in Hk.
      unfold render_events at 1 2. cbn [flat_map]. unfold render_event at 1 2. cbn [app List.length].
      destruct (has "#" (e_head e0)); [reflexivity|]. cbn in Hk. discriminate. }
    rewrite Hfirst. cbn [bind].
    (* the count rows of the selection *)
    assert (Hslice : slice a (b - a + 1) (counts_from 0 evs)
                     = relab (Z.of_nat a) (map (fun e => List.length (e_rows e)) B)).
    { unfold slice. rewrite (counts_from_skipn a evs 0). cbn [Nat.add].
      unfold B. generalize (skipn a evs) as l. generalize (b - a + 1)%nat as k. generalize a as o. clear.
      intros o k. revert o. induction k as [|k IH]; intros o [|e l]; cbn [firstn counts_from map relab]; try reflexivity.
      rewrite IH. do 2 f_equal. lia. }
    rewrite Hslice.
    pose proof (rl_events_f (Z.of_nat a) fmt attrs B a 0 (render_events C) [] 0%Z [] HwB) as Hrl.
    cbn [map app] in Hrl. rewrite Nat.add_0_r, app_nil_r in Hrl. rewrite Hrl.
    cbn [read_loop bind plist cut counts app fst snd]. rewrite app_nil_r.
    unfold filtered. fold evs. fold B.
    destruct (kept (map (fun e => parse_rows fmt attrs (e_rows e)) B)); reflexivity.
  Qed.

  (* "select, then filter": the same events as filtering the selected slice of the unfiltered load, one by one *)
  Theorem filtered_is_select_then_filter d fmt attrs a n :
    match l_events (filtered d fmt attrs a n) with
    | [[]] => kept (l_events (sliced tok_float tok_int pdg_valid d fmt attrs a n)) = [] \/
              kept (l_events (sliced tok_float tok_int pdg_valid d fmt attrs a n)) = [[]]
    | evs => evs = kept (l_events (sliced tok_float tok_int pdg_valid d fmt attrs a n))
    end /\
    map snd (l_counts (filtered d fmt attrs a n))
    = map (fun ev => Z.of_nat (List.length ev)) (kept (l_events (sliced tok_float tok_int pdg_valid d fmt attrs a n))).
  Proof.
    unfold filtered, sliced. cbn [l_events l_counts].
    set (K := kept (map (fun e => parse_rows fmt attrs (e_rows e)) (firstn n (skipn a (d_events d))))).
    split.
    - destruct K as [|k0 K'] eqn:E; [left; reflexivity|]. destruct k0 as [|p k0]; destruct K' as [|k1 K'']; try reflexivity.
      right; reflexivity.
    - generalize (Z.of_nat a) as o. induction K as [|k K' IH]; intros o; cbn [map relab snd]; [reflexivity|]. f_equal. apply IH.
  Qed.
End P.

(* C04: non-vacuity examples and the rejected addition, proved here, stated in Properties/C04.v *)
From Coq Require Import List ZArith Bool QArith.
From SX Require Import Lib.Py Model.Storer Model.StorerSpec Proofs.C04_Core Proofs.C04_Add Proofs.C04_Run Proofs.C04_Load.
Import ListNotations.
Local Open Scope Z_scope.

Lemma add_other_class a b : scls a <> scls b -> add a b = Err TypeError.
Proof.
  intros H. unfold add. destruct (scls a), (scls b); simpl; try reflexivity; congruence.
Qed.

Lemma example_load :
  load_oscar [[1; 2]; [3]; [4; 5; 6]; [7]] (SRange 1 3) (Some [ex_charged]) 0
  = Ok (mkS COscar [[3]; [6]] (A2 [(1, 1); (2, 1)]) 2 [0; 1; 2; 3] 0 0 0%Q).
Proof. reflexivity. Qed.

Lemma example_history :
  exists a b,
  load_oscar [[1; 2]; [3]; [4; 5; 6]; [7]] SAll None 0 = Ok a /\
  load_oscar [[11; 12]; [13]] (SOne 1) None 0 = Ok b /\
  Forall (adm_op a) [F ex_charged; F ex_big; ADD b; ADD a] /\
  rmap core (run a [F ex_charged; F ex_big; ADD b; ADD a])
  = Ok ([[]; [13]; [1; 2]; [3]; [4; 5; 6]; [7]],
        A2 [(0, 0); (1, 1); (2, 2); (3, 1); (4, 3); (5, 1)], 6).
Proof.
  exists (mkS COscar [[1; 2]; [3]; [4; 5; 6]; [7]] (A2 [(0, 2); (1, 1); (2, 3); (3, 1)]) 4 [0; 1; 2; 3] 0 0 0%Q).
  exists (mkS COscar [[13]] (A2 [(1, 1)]) 1 [0; 1] 0 0 0%Q).
  split; [reflexivity|]. split; [reflexivity|]. split; [|reflexivity].
  apply Forall_cons; [reflexivity|]. apply Forall_cons; [exact I|].
  apply Forall_cons.
  { split; [apply (load_oscar_Inv [[11; 12]; [13]] (SOne 1) None 0); reflexivity|].
    split; [reflexivity|]. simpl. discriminate. }
  apply Forall_cons; [|constructor].
  split; [apply (load_oscar_Inv [[1; 2]; [3]; [4; 5; 6]; [7]] SAll None 0); reflexivity|].
  split; [reflexivity|]. simpl. discriminate.
Qed.

Lemma example_no_events :
  exists e b,
  load_jetscape [[1; 2]; [3]] SAll (Some [EV (fun _ => false)]) 0 (1 # 2) = Ok e /\
  load_jetscape [[11; 12]; [13]] (SRange 0 1) None 0 (1 # 4) = Ok b /\
  core e = ([[]], A1 [], 0) /\ Inv e /\
  particle_list e = Ok (Nested []) /\
  rmap core (run e [F ex_charged; F ex_big; ADD b]) = Ok ([[11; 12]; [13]], A2 [(1, 2); (2, 1)], 2).
Proof.
  exists (mkS CJetscape [[]] (A1 []) 0 [] 0 0 (1 # 2)).
  exists (mkS CJetscape [[11; 12]; [13]] (A2 [(1, 2); (2, 1)]) 2 [] 0 0 (1 # 4)).
  split; [reflexivity|]. split; [reflexivity|]. split; [reflexivity|].
  split; [apply (load_jetscape_Inv [[1; 2]; [3]] SAll (Some [EV (fun _ => false)]) 0 (1 # 2)); reflexivity|].
  split; reflexivity.
Qed.

(* C12 - Q-cumulant ERRORS and differential Q-cumulants (Gen/GenQCumulantErr.v regenerated from QCumulantFlow.py on every
   run, glue Model/QCumulantErr.v) depend neither on the per-event random rotation, nor on the order of the particles in
   an event, nor on the order of the events.  Any commutative ring K; division, comparisons, roots (krpow) and the
   complex square root (kcsqrt) are arbitrary functions.

   Route: every per-event quantity the generated code sums over is a function of the event's multiplicities and of
   tuple sums over distinct particles of the UNROTATED event (by-products ebe*_closed, dsum*_closed), hence invariant
   under rotation and reordering of that event (ev_inv); a sum over the sample of an invariant per-event function is
   invariant under the relation qc_related (map_rel); the generated definitions are nests of such sums. *)
From Coq Require Import String ZArith Ring Ring_theory Arith Lia Bool List Permutation.
From SX Require Import Lib.KRing Lib.Cpx Lib.Distinct Proofs.C11_Closed Proofs.C11_Aux Gen.GenQCumulant Model.QCumulant
  Proofs.C11_Corr Proofs.C11_Diff Proofs.C12_Skel Proofs.C12_QC Gen.GenQCumulantErr Model.QCumulantErr.
Import ListNotations.

Section QCErr.
  Variable K : Type.
  Variables (k0 k1 : K) (kadd kmul ksub : K -> K -> K) (kopp : K -> K) (kdiv : K -> K -> K).
  Variables (kleb kltb : K -> K -> bool).
  Variable krpow : nat -> nat -> K -> K.
  Variable kcsqrt : cpx K -> cpx K.
  Hypothesis Kth : ring_theory k0 k1 kadd kmul ksub kopp (@eq K).
  Add Ring KringQCErr : Kth.
  Variable P : Type.
  Variable zof : P -> cpx K.
  Variables inbin ispoi : P -> bool.

  Notation C := (cpx K).
  Notation C0 := (c0 K k0). Notation C1 := (c1 K k0 k1).
  Notation Cadd := (cadd K kadd). Notation Cmul := (cmul K kadd kmul ksub).
  Notation Csub := (csub K ksub). Notation Copp := (copp K kopp).
  Notation Conj := (@conj K kopp).
  Notation Cth := (cpx_ring K k0 k1 kadd kmul ksub kopp Kth).
  Notation KN := (knat k0 k1 kadd).
  Notation KZ n := (kz k0 k1 kadd kmul kopp n%Z).
  Notation DS := (dsum2 C0 C1 Cadd Cmul Conj).
  Notation PD := (pdsum2 C0 C1 Cadd Cmul Conj).
  Notation PSum := (psum C0 C1 Cadd Cmul).
  Notation Unit := (cunit K k0 k1 kadd kmul ksub kopp).
  Notation event := (event K P).
  Notation good := (good K k0 k1 kadd kmul ksub kopp P zof).
  Notation Qf := (Qof K k0 k1 kadd kmul ksub kopp kdiv kleb kltb krpow P zof).
  Notation Mf := (Mof K k0 k1 kadd P).
  Notation Zs0 := (zs0 K P zof).
  Notation SelB := (sel_bin K P inbin).
  Notation SelP := (sel_poi K P inbin ispoi).
  Notation Flg := (flagged K P zof inbin ispoi).
  Notation same_particles := (same_particles K P).
  Notation qc_related := (qc_related K P).
  (* a generated definition of Gen/GenQCumulant.v / Gen/GenQCumulantErr.v at the sample evs *)
  Notation G f evs := (f K k0 k1 kadd kmul ksub kopp kdiv kleb kltb krpow event evs
                         Mf (fun e => Mf (SelB e)) (fun e => Mf (SelP e))
                         Qf (fun h e => Qf h (SelB e)) (fun h e => Qf h (SelP e))).
  Notation GE f evs := (f K k0 k1 kadd kmul ksub kopp kdiv kleb kltb krpow kcsqrt event evs
                          Mf (fun e => Mf (SelB e)) (fun e => Mf (SelP e))
                          Qf (fun h e => Qf h (SelB e)) (fun h e => Qf h (SelP e))).
  (* definitions of the models *)
  Notation M f := (f K k0 k1 kadd kmul ksub kopp kdiv kleb kltb krpow P zof inbin ispoi).
  Notation ME f := (f K k0 k1 kadd kmul ksub kopp kdiv kleb kltb krpow kcsqrt P zof inbin ispoi).

  (* ------------------------------------------------------------------ per-event invariants *)
  (* e and e1: the same particles in another order, any two unit rotations *)
  Definition ev_rel (e e1 : event) : Prop := good e /\ good e1 /\ same_particles e e1.
  Definition ev_inv {B} (f : event -> B) : Prop := forall e e1, ev_rel e e1 -> f e = f e1.

  Lemma Mf_inv : ev_inv Mf.
  Proof. intros e e1 [_ [_ H]]. unfold Mof. rewrite (Permutation_length H). reflexivity. Qed.
  Lemma MfP_inv : ev_inv (fun e => Mf (SelP e)).
  Proof. intros e e1 [_ [_ H]]. unfold Mof, sel_poi. cbn [snd]. rewrite (Permutation_length (perm_filter _ _ _ H)). reflexivity. Qed.
  Lemma MfB_inv : ev_inv (fun e => Mf (SelB e)).
  Proof. intros e e1 [_ [_ H]]. unfold Mof, sel_bin. cbn [snd]. rewrite (Permutation_length (perm_filter _ _ _ H)). reflexivity. Qed.

  Ltac k_ring :=
    cbv beta iota zeta delta [kpow kff kz kpos knat Nat.mul Nat.add Cpx.cpow Cpx.cscale Cpx.csub Cpx.cadd Cpx.cmul
                              Cpx.copp Cpx.conj Cpx.ofK Cpx.c0 Cpx.c1 Cpx.re Cpx.im fst snd];
    ring.

  (* ---- by-product: each event-by-event correlator is the tuple sum of the UNROTATED event over the number of tuples *)
  Definition ev_W (k : nat) (e : event) : K := KN (ffact (2 * k) (length (snd e))).

  Lemma ebe2_closed evs e : good e -> GE gen_ebe_2 evs e = kdiv (re (DS 1 1 (Zs0 e))) (ev_W 1 e).
  Proof.
    intros He. unfold gen_ebe_2, ev_W. cbv zeta. cbv beta.
    rewrite (ev11 K k0 k1 kadd kmul ksub kopp kdiv kleb kltb krpow Kth P zof e He), (kff_Mf K k0 k1 kadd kmul ksub kopp Kth P).
    unfold EQ, CF_1_1. cbv zeta.
    generalize (Qf 1%nat e) (Mf e). intros q m. f_equal; k_ring.
  Qed.
  Lemma ebe4_closed evs e : good e -> GE gen_ebe_4 evs e = kdiv (re (DS 2 2 (Zs0 e))) (ev_W 2 e).
  Proof.
    intros He. unfold gen_ebe_4, ev_W. cbv zeta. cbv beta.
    rewrite (ev22 K k0 k1 kadd kmul ksub kopp kdiv kleb kltb krpow Kth P zof e He), (kff_Mf K k0 k1 kadd kmul ksub kopp Kth P).
    unfold EQ, CF_2_2. cbv zeta.
    generalize (Qf 1%nat e) (Qf 2%nat e) (Mf e). intros q1 q2 m. f_equal; k_ring.
  Qed.
  Lemma ebe6_closed evs e : good e -> GE gen_ebe_6 evs e = kdiv (re (DS 3 3 (Zs0 e))) (ev_W 3 e).
  Proof.
    intros He. unfold gen_ebe_6, ev_W. cbv zeta. cbv beta.
    rewrite (ev33 K k0 k1 kadd kmul ksub kopp kdiv kleb kltb krpow Kth P zof e He), (kff_Mf K k0 k1 kadd kmul ksub kopp Kth P).
    unfold EQ, CF_3_3. cbv zeta.
    generalize (Qf 1%nat e) (Qf 2%nat e) (Qf 3%nat e) (Mf e). intros q1 q2 q3 m. f_equal; k_ring.
  Qed.

  Notation EP := (EP K k0 k1 kadd kmul ksub kopp kdiv kleb kltb krpow P zof inbin ispoi).
  Lemma dsum2_closed evs e : good e -> GE gen_dsum2_ev evs e = PD 0 1 (Flg e).
  Proof.
    intros He. unfold gen_dsum2_ev. cbv zeta. cbv beta.
    rewrite (evp01 K k0 k1 kadd kmul ksub kopp kdiv kleb kltb krpow Kth P zof inbin ispoi e He).
    unfold C11_Diff.EP, PF_0_1. cbv zeta.
    generalize (Qf 1%nat (SelP e)) (Mf (SelP e)) (Qf 1%nat e) (Mf e). intros p1 mp q1 m.
    apply (cpx_ext K); k_ring.
  Qed.
  Definition imfix (c : K) (z : C) : C := (k0, kmul c (im z)).
  Lemma dsum4_closed evs e : good e ->
    GE gen_dsum4_ev evs e = Cadd (PD 1 2 (Flg e)) (imfix (KZ 6) (PD 0 1 (Flg e))).
  Proof.
    intros He. unfold gen_dsum4_ev, imfix. cbv zeta. cbv beta.
    rewrite (evp12 K k0 k1 kadd kmul ksub kopp kdiv kleb kltb krpow Kth P zof inbin ispoi e He).
    rewrite (evp01 K k0 k1 kadd kmul ksub kopp kdiv kleb kltb krpow Kth P zof inbin ispoi e He).
    unfold C11_Diff.EP, PF_1_2, PF_0_1. cbv zeta.
    generalize (Qf 1%nat (SelP e)) (Qf 2%nat (SelP e)) (Mf (SelP e)) (Qf 1%nat e) (Qf 2%nat e) (Qf 3%nat e) (Mf e). intros p1 p2 mp q1 q2 q3 m.
    apply (cpx_ext K); k_ring.
  Qed.

  (* ---- permutation invariance of the restricted tuple sums *)
  Lemma fl_perm (l l' : list (C * bool)) : Permutation l l' -> Permutation (fl C l) (fl C l').
  Proof. intros H. unfold fl. apply Permutation_map, perm_filter, H. Qed.

  Lemma PSc_perm l l' f : Permutation l l' ->
    PSc K k0 k1 kadd kmul ksub kopp l f = PSc K k0 k1 kadd kmul ksub kopp l' f.
  Proof.
    intros H. unfold PSc. cbv zeta.
    pose proof (fl_perm l l' H) as Hf. pose proof (Permutation_map fst H) as Ha.
    rewrite !(psum_perm K k0 k1 kadd kmul ksub kopp Kth _ _ _ Hf), !(psum_perm K k0 k1 kadd kmul ksub kopp Kth _ _ _ Ha).
    rewrite (Permutation_length Hf), (Permutation_length Ha). reflexivity.
  Qed.

  Lemma flg_fst e : map fst (Flg e) = Zs0 e.
  Proof. unfold flagged, zs0. rewrite map_map. reflexivity. Qed.

  Lemma pd_inv : ev_inv (fun e => PD 0 1 (Flg e)) /\ ev_inv (fun e => PD 1 2 (Flg e)).
  Proof.
    split; intros e e1 [He [He1 H]]; cbv beta.
    - rewrite !(pclosed01 K k0 k1 kadd kmul ksub kopp Kth) by (rewrite flg_fst; apply (good_zs0 K k0 k1 kadd kmul ksub kopp P zof); assumption).
      apply PSc_perm. unfold flagged. apply Permutation_map, H.
    - rewrite !(pclosed12 K k0 k1 kadd kmul ksub kopp Kth) by (rewrite flg_fst; apply (good_zs0 K k0 k1 kadd kmul ksub kopp P zof); assumption).
      apply PSc_perm. unfold flagged. apply Permutation_map, H.
  Qed.

  Lemma ds_inv k : (k = 1 \/ k = 2 \/ k = 3)%nat -> ev_inv (fun e => DS k k (Zs0 e)).
  Proof.
    intros Hk e e1 [He [He1 H]]. cbv beta.
    apply (ds_perm K k0 k1 kadd kmul ksub kopp Kth k _ _ Hk).
    - apply (good_zs0 K k0 k1 kadd kmul ksub kopp P zof); assumption.
    - unfold zs0. apply Permutation_map, H.
  Qed.

  Lemma evW_inv k : ev_inv (ev_W k).
  Proof. intros e e1 [_ [_ H]]. unfold ev_W. rewrite (Permutation_length H). reflexivity. Qed.

  Lemma ebe_inv evs : ev_inv (GE gen_ebe_2 evs) /\ ev_inv (GE gen_ebe_4 evs) /\ ev_inv (GE gen_ebe_6 evs).
  Proof.
    repeat split; intros e e1 R; pose proof R as [He [He1 _]].
    - rewrite !ebe2_closed by assumption. rewrite (ds_inv 1 (or_introl eq_refl) e e1 R), (evW_inv 1 e e1 R). reflexivity.
    - rewrite !ebe4_closed by assumption. rewrite (ds_inv 2 (or_intror (or_introl eq_refl)) e e1 R), (evW_inv 2 e e1 R). reflexivity.
    - rewrite !ebe6_closed by assumption. rewrite (ds_inv 3 (or_intror (or_intror eq_refl)) e e1 R), (evW_inv 3 e e1 R). reflexivity.
  Qed.

  Lemma dsum_inv evs : ev_inv (GE gen_dsum2_ev evs) /\ ev_inv (GE gen_dsum4_ev evs).
  Proof.
    destruct pd_inv as [H01 H12].
    split; intros e e1 R; pose proof R as [He [He1 _]].
    - rewrite !dsum2_closed by assumption. apply (H01 e e1 R).
    - rewrite !dsum4_closed by assumption. rewrite (H01 e e1 R), (H12 e e1 R). reflexivity.
  Qed.

  Lemma dw_inv evs : ev_inv (GE gen_dw2 evs) /\ ev_inv (GE gen_dw4 evs).
  Proof.
    split; intros e e1 R; unfold gen_dw2, gen_dw4; cbv zeta; cbv beta;
      rewrite (Mf_inv e e1 R), (MfP_inv e e1 R); reflexivity.
  Qed.

  (* the sample does not enter the per-event definitions *)
  Lemma ev_irrel evs evs' :
    GE gen_ebe_2 evs = GE gen_ebe_2 evs' /\ GE gen_ebe_4 evs = GE gen_ebe_4 evs' /\ GE gen_ebe_6 evs = GE gen_ebe_6 evs' /\
    GE gen_dsum2_ev evs = GE gen_dsum2_ev evs' /\ GE gen_dsum4_ev evs = GE gen_dsum4_ev evs' /\
    GE gen_dw2 evs = GE gen_dw2 evs' /\ GE gen_dw4 evs = GE gen_dw4 evs'.
  Proof. repeat split; reflexivity. Qed.

  (* ------------------------------------------------------------------ sums over the sample *)
  Lemma unit_C1 : Unit C1.
  Proof. unfold cunit. apply (cpx_ext K); k_ring. Qed.

  Lemma good_perm (e e1 : event) : good e -> same_particles e e1 -> Forall (fun p => Unit (zof p)) (snd e1).
  Proof.
    intros [_ Hu] H. apply Forall_forall. intros x Hx. rewrite Forall_forall in Hu. apply Hu.
    apply (Permutation_in _ (Permutation_sym H) Hx).
  Qed.

  Lemma map_rel {B} (f : event -> B) evs evs' : ev_inv f -> Forall good evs -> Forall good evs' -> qc_related evs evs' ->
    Permutation (map f evs) (map f evs').
  Proof.
    intros Hf Hg Hg' [evs1 [H1 H2]].
    set (fh := fun l : list P => f (C1, l)).
    assert (A : forall l : list event, Forall good l -> map f l = map fh (map snd l)).
    { intros l Hl. rewrite map_map. induction Hl as [|e l He Hl IH]; [reflexivity|]. cbn [map]. rewrite IH. f_equal.
      unfold fh. apply Hf. split; [exact He|]. split; [|apply Permutation_refl].
      split; [apply unit_C1 | apply He]. }
    rewrite (A evs Hg), (A evs' Hg').
    assert (B1 : map fh (map snd evs) = map fh (map snd evs1)).
    { clear H2 A. induction H1 as [|e e1 l l1 He Hl IH]; [reflexivity|]. inversion Hg as [|? ? Hge Hgl]; subst.
      cbn [map]. rewrite (IH Hgl). f_equal. unfold fh. apply Hf. split; [|split].
      - split; [apply unit_C1 | apply Hge].
      - split; [apply unit_C1 | apply (good_perm e e1 Hge He)].
      - exact He. }
    rewrite B1. apply Permutation_map, H2.
  Qed.

  Lemma ksum_rel (f : event -> K) evs evs' : Forall good evs -> Forall good evs' -> qc_related evs evs' -> ev_inv f ->
    ksum k0 kadd (map f evs) = ksum k0 kadd (map f evs').
  Proof. intros Hg Hg' H Hf. apply (ksum_perm K k0 k1 kadd kmul ksub kopp Kth), map_rel; assumption. Qed.
  Lemma csum_rel (f : event -> C) evs evs' : Forall good evs -> Forall good evs' -> qc_related evs evs' -> ev_inv f ->
    csum K k0 kadd (map f evs) = csum K k0 kadd (map f evs').
  Proof. intros Hg Hg' H Hf. apply (csum_perm K k0 k1 kadd kmul ksub kopp Kth), map_rel; assumption. Qed.

  (* atoms in the form in which they occur in the unfolded generated definitions *)
  Lemma a_Mf e e1 : ev_rel e e1 -> Mf e = Mf e1.
  Proof. apply Mf_inv. Qed.
  Lemma a_MfP e e1 : ev_rel e e1 -> Mf (SelP e) = Mf (SelP e1).
  Proof. apply MfP_inv. Qed.
  Lemma a_MfB e e1 : ev_rel e e1 -> Mf (SelB e) = Mf (SelB e1).
  Proof. apply MfB_inv. Qed.
  Lemma a_ebe2 s e e1 : ev_rel e e1 -> GE gen_ebe_2 s e = GE gen_ebe_2 s e1.
  Proof. apply ebe_inv. Qed.
  Lemma a_ebe4 s e e1 : ev_rel e e1 -> GE gen_ebe_4 s e = GE gen_ebe_4 s e1.
  Proof. apply ebe_inv. Qed.
  Lemma a_ebe6 s e e1 : ev_rel e e1 -> GE gen_ebe_6 s e = GE gen_ebe_6 s e1.
  Proof. apply ebe_inv. Qed.
  Lemma a_ds2 s e e1 : ev_rel e e1 -> GE gen_dsum2_ev s e = GE gen_dsum2_ev s e1.
  Proof. apply dsum_inv. Qed.
  Lemma a_ds4 s e e1 : ev_rel e e1 -> GE gen_dsum4_ev s e = GE gen_dsum4_ev s e1.
  Proof. apply dsum_inv. Qed.
  Lemma a_dw2 s e e1 : ev_rel e e1 -> GE gen_dw2 s e = GE gen_dw2 s e1.
  Proof. apply dw_inv. Qed.
  Lemma a_dw4 s e e1 : ev_rel e e1 -> GE gen_dw4 s e = GE gen_dw4 s e1.
  Proof. apply dw_inv. Qed.

  Lemma nat_sum_perm (l l' : list nat) : Permutation l l' -> fold_right Nat.add 0%nat l = fold_right Nat.add 0%nat l'.
  Proof. induction 1; cbn [fold_right]; lia. Qed.

  (* ------------------------------------------------------------------ one related pair of samples *)
  Section Sample.
    Variables evs evs' : list event.
    Hypothesis Hg : Forall good evs.
    Hypothesis Hg' : Forall good evs'.
    Hypothesis Hr : qc_related evs evs'.

    (* f e = f e1 for a per-event expression built from the atoms and from hypotheses [ev_inv x] *)
    Ltac inv_side :=
      let e := fresh "e" in let e1 := fresh "e1" in let R := fresh "R" in
      intros e e1 R; cbv beta;
      repeat match goal with
             | H : ev_inv ?x |- context [?x e] => rewrite (H e e1 R)
             end;
      rewrite ?(a_ebe2 _ e e1 R), ?(a_ebe4 _ e e1 R), ?(a_ebe6 _ e e1 R), ?(a_ds2 _ e e1 R), ?(a_ds4 _ e e1 R),
              ?(a_dw2 _ e e1 R), ?(a_dw4 _ e e1 R), ?(a_MfP e e1 R), ?(a_MfB e e1 R), ?(a_Mf e e1 R);
      reflexivity.
    (* every sum over evs becomes the same sum over evs' *)
    Ltac sums :=
      repeat match goal with
             | |- context [ksum k0 kadd (map ?f evs)] => rewrite (ksum_rel f evs evs' Hg Hg' Hr) by inv_side
             | |- context [csum K k0 kadd (map ?f evs)] => rewrite (csum_rel f evs evs' Hg Hg' Hr) by inv_side
             end.
    Ltac irrel :=
      destruct (ev_irrel evs evs') as [Ei2 [Ei4 [Ei6 [Eid2 [Eid4 [Eiw2 Eiw4]]]]]];
      rewrite ?Ei2, ?Ei4, ?Ei6, ?Eid2, ?Eid4, ?Eiw2, ?Eiw4.

    Lemma units' : Forall (fun e : event => Unit (fst e)) evs'.
    Proof. apply Forall_forall. intros e He. rewrite Forall_forall in Hg'. apply (Hg' e He). Qed.

    Lemma corr_inv : G gen_corr_2 evs = G gen_corr_2 evs' /\ G gen_corr_4 evs = G gen_corr_4 evs' /\ G gen_corr_6 evs = G gen_corr_6 evs'.
    Proof. exact (qc_invariant K k0 k1 kadd kmul ksub kopp kdiv kleb kltb krpow Kth P zof inbin ispoi evs evs' Hg units' Hr). Qed.

    Lemma length_inv : length evs = length evs'.
    Proof.
      assert (H : ev_inv (fun _ : event => tt)) by (intros e e1 _; reflexivity).
      pose proof (Permutation_length (map_rel _ evs evs' H Hg Hg' Hr)) as L. rewrite !map_length in L. exact L.
    Qed.
    Lemma total_inv : total K P evs SelB = total K P evs' SelB /\ total K P evs SelP = total K P evs' SelP.
    Proof.
      split; unfold total; apply nat_sum_perm, map_rel; try assumption; intros e e1 [_ [_ H]]; cbv beta;
        unfold sel_bin, sel_poi; cbn [snd]; apply Permutation_length, perm_filter, H.
    Qed.

    (* ---- __calculate_corr: errors of <<2>>, <<4>>, <<6>> *)
    Lemma corr_err_inv :
      GE gen_corr_err_2 evs = GE gen_corr_err_2 evs' /\ GE gen_corr_err_4 evs = GE gen_corr_err_4 evs' /\
      GE gen_corr_err_6 evs = GE gen_corr_err_6 evs'.
    Proof.
      destruct corr_inv as [C2 [C4 C6]].
      repeat split; unfold gen_corr_err_2, gen_corr_err_4, gen_corr_err_6; cbv zeta; cbv beta;
        rewrite ?C2, ?C4, ?C6; irrel; sums; reflexivity.
    Qed.

    (* ---- __cov, __cov_term, __cov_term_differential *)
    Lemma cov_R_inv wx wy x y : ev_inv wx -> ev_inv wy -> ev_inv x -> ev_inv y ->
      GE gen_cov_R evs wx wy x y = GE gen_cov_R evs' wx wy x y.
    Proof. intros Hwx Hwy Hx Hy. unfold gen_cov_R. cbv zeta. cbv beta. sums. reflexivity. Qed.
    Lemma cov_C_inv wx wy (x y : event -> C) : ev_inv wx -> ev_inv wy -> ev_inv x -> ev_inv y ->
      GE gen_cov_C evs wx wy x y = GE gen_cov_C evs' wx wy x y.
    Proof. intros Hwx Hwy Hx Hy. unfold gen_cov_C. cbv zeta. cbv beta. sums. reflexivity. Qed.

    Lemma cov_term_24_inv x y : ev_inv x -> ev_inv y -> GE gen_cov_term_2_4_R evs x y = GE gen_cov_term_2_4_R evs' x y.
    Proof. intros Hx Hy. unfold gen_cov_term_2_4_R. cbv zeta. cbv beta. rewrite cov_R_inv by inv_side. sums. reflexivity. Qed.
    Lemma cov_term_26_inv x y : ev_inv x -> ev_inv y -> GE gen_cov_term_2_6_R evs x y = GE gen_cov_term_2_6_R evs' x y.
    Proof. intros Hx Hy. unfold gen_cov_term_2_6_R. cbv zeta. cbv beta. rewrite cov_R_inv by inv_side. sums. reflexivity. Qed.
    Lemma cov_term_46_inv x y : ev_inv x -> ev_inv y -> GE gen_cov_term_4_6_R evs x y = GE gen_cov_term_4_6_R evs' x y.
    Proof. intros Hx Hy. unfold gen_cov_term_4_6_R. cbv zeta. cbv beta. rewrite cov_R_inv by inv_side. sums. reflexivity. Qed.

    Lemma cov_term_diff_R_inv w1 w2 x y : ev_inv w1 -> ev_inv w2 -> ev_inv x -> ev_inv y ->
      GE gen_cov_term_differential_R evs w1 w2 x y = GE gen_cov_term_differential_R evs' w1 w2 x y.
    Proof.
      intros H1 H2 Hx Hy. unfold gen_cov_term_differential_R. cbv zeta. cbv beta. rewrite cov_R_inv by inv_side. sums. reflexivity.
    Qed.
    Lemma cov_term_diff_C_inv w1 w2 (x y : event -> C) : ev_inv w1 -> ev_inv w2 -> ev_inv x -> ev_inv y ->
      GE gen_cov_term_differential_C evs w1 w2 x y = GE gen_cov_term_differential_C evs' w1 w2 x y.
    Proof.
      intros H1 H2 Hx Hy. unfold gen_cov_term_differential_C. cbv zeta. cbv beta. rewrite cov_C_inv by inv_side. sums. reflexivity.
    Qed.

    (* ---- __cumulant_flow: the returned error *)
    Lemma int_err_inv :
      GE gen_int_err_2 evs = GE gen_int_err_2 evs' /\ GE gen_int_err_4 evs = GE gen_int_err_4 evs' /\
      GE gen_int_err_6 evs = GE gen_int_err_6 evs'.
    Proof.
      destruct corr_inv as [C2 [C4 C6]]. destruct corr_err_inv as [E2 [E4 E6]].
      repeat split; unfold gen_int_err_2, gen_int_err_4, gen_int_err_6; cbv zeta; cbv beta;
        rewrite ?C2, ?C4, ?C6, ?E2, ?E4, ?E6; irrel;
        rewrite ?cov_term_24_inv, ?cov_term_26_inv, ?cov_term_46_inv by inv_side; reflexivity.
    Qed.

    (* ---- differential correlators of Gen/GenQCumulant.v through the per-event sums and weights *)
    Lemma dcorr2_sums s : G gen_dcorr2 s = cdivr K kdiv (csum K k0 kadd (map (GE gen_dsum2_ev s) s)) (ksum k0 kadd (map (GE gen_dw2 s) s)).
    Proof. reflexivity. Qed.
    Lemma dcorr4_sums s : G gen_dcorr4 s = cdivr K kdiv (csum K k0 kadd (map (GE gen_dsum4_ev s) s)) (ksum k0 kadd (map (GE gen_dw4 s) s)).
    Proof. reflexivity. Qed.

    Lemma dcorr_inv : G gen_dcorr2 evs = G gen_dcorr2 evs' /\ G gen_dcorr4 evs = G gen_dcorr4 evs'.
    Proof.
      rewrite !dcorr2_sums, !dcorr4_sums. irrel.
      split; f_equal; first [apply csum_rel | apply ksum_rel]; try assumption; inv_side.
    Qed.

    (* ---- __compute_differential_flow_bin: the returned error *)
    Lemma diff_err_inv : GE gen_diff_err_2 evs = GE gen_diff_err_2 evs' /\ GE gen_diff_err_4 evs = GE gen_diff_err_4 evs'.
    Proof.
      destruct corr_inv as [C2 [C4 C6]]. destruct corr_err_inv as [E2 [E4 E6]].
      split; unfold gen_diff_err_2, gen_diff_err_4; cbv zeta; cbv beta;
        rewrite ?C2, ?C4, ?E2, ?E4; irrel; sums;
        rewrite ?cov_term_diff_C_inv, ?cov_term_diff_R_inv by inv_side; reflexivity.
    Qed.
  End Sample.

  (* ------------------------------------------------------------------ the theorems *)
  Section Final.
    Variables evs evs' : list event.
    Hypothesis Hg : Forall good evs.
    Hypothesis Hu : Forall (fun e : event => Unit (fst e)) evs'.
    Hypothesis Hr : qc_related evs evs'.
    Let Hg' : Forall good evs' := good_related K k0 k1 kadd kmul ksub kopp P zof evs evs' Hg Hr Hu.

    Theorem qc_error_invariant :
      (ME corr_err2 evs = ME corr_err2 evs' /\ ME corr_err4 evs = ME corr_err4 evs' /\ ME corr_err6 evs = ME corr_err6 evs') /\
      (ME cov24 evs = ME cov24 evs' /\ ME cov26 evs = ME cov26 evs' /\ ME cov46 evs = ME cov46 evs') /\
      (forall k imag, ME qc_error evs k imag = ME qc_error evs' k imag).
    Proof.
      split; [exact (corr_err_inv evs evs' Hg Hg' Hr)|]. split.
      - unfold cov24, cov26, cov46, ebe2, ebe4, ebe6.
        destruct (ev_irrel evs evs') as [Ei2 [Ei4 [Ei6 _]]]. rewrite Ei2, Ei4, Ei6.
        repeat split; [apply cov_term_24_inv | apply cov_term_26_inv | apply cov_term_46_inv]; try assumption; apply ebe_inv.
      - intros k imag. unfold qc_error.
        destruct (existsb (Nat.eqb k) gen_k_allowed && existsb (String.eqb imag) gen_imag_allowed); [|reflexivity].
        destruct (int_err_inv evs evs' Hg Hg' Hr) as [I2 [I4 I6]].
        destruct k as [|[|[|[|[|[|[|k]]]]]]]; try reflexivity.
        + change (Some (GE gen_int_err_2 evs) = Some (GE gen_int_err_2 evs')). rewrite I2. reflexivity.
        + change (Some (GE gen_int_err_4 evs) = Some (GE gen_int_err_4 evs')). rewrite I4. reflexivity.
        + change (Some (GE gen_int_err_6 evs) = Some (GE gen_int_err_6 evs')). rewrite I6. reflexivity.
    Qed.

    Theorem qc_diff_invariant :
      M dcorr2 evs = M dcorr2 evs' /\ M dcorr4 evs = M dcorr4 evs' /\ M dn4 evs = M dn4 evs' /\ M cn4 evs = M cn4 evs' /\
      (forall k imag, M differential_bin evs k imag = M differential_bin evs' k imag).
    Proof.
      destruct (dcorr_inv evs evs' Hg Hg' Hr) as [D2 D4].
      destruct (corr_inv evs evs' Hg Hg' Hr) as [C2 [C4 C6]].
      assert (Dn : M dn4 evs = M dn4 evs').
      { rewrite !(dn4_ok K k0 k1 kadd kmul ksub kopp kdiv kleb kltb krpow Kth P zof inbin ispoi).
        unfold dcorr4, dcorr2, corr2. rewrite D2, D4, C2. reflexivity. }
      assert (Cn : M cn4 evs = M cn4 evs').
      { rewrite !(cn4_ok K k0 k1 kadd kmul ksub kopp kdiv kleb kltb krpow P zof inbin ispoi),
                !(cumulant4_ok K k0 k1 kadd kmul ksub kopp kdiv kleb kltb krpow Kth P zof inbin ispoi).
        unfold corr4, corr2. rewrite C2, C4. reflexivity. }
      split; [exact D2|]. split; [exact D4|]. split; [exact Dn|]. split; [exact Cn|].
      intros k imag. unfold differential_bin.
      rewrite (length_inv evs evs' Hg Hg' Hr).
      destruct (total_inv evs evs' Hg Hg' Hr) as [TB TP]. rewrite TB, TP.
      destruct (negb (existsb (Nat.eqb k) gen_k_allowed && existsb (String.eqb imag) gen_imag_allowed)); [reflexivity|].
      destruct (existsb (Nat.eqb k) gen_diff_rejected_k); [reflexivity|].
      destruct ((0 <? length evs') && (0 <? total K P evs' SelB) && (0 <? total K P evs' SelP))%nat; [|reflexivity].
      destruct k as [|[|[|[|[|k]]]]]; try reflexivity.
      - f_equal. rewrite !(diff2_ok K k0 k1 kadd kmul ksub kopp kdiv kleb kltb krpow P zof inbin ispoi).
        unfold corr2, dcorr2. rewrite C2, D2. reflexivity.
      - f_equal. rewrite !(diff4_ok K k0 k1 kadd kmul ksub kopp kdiv kleb kltb krpow P zof inbin ispoi).
        rewrite Cn, Dn. reflexivity.
    Qed.

    Theorem qc_diff_error_invariant :
      ME diff_err2 evs = ME diff_err2 evs' /\ ME diff_err4 evs = ME diff_err4 evs' /\
      (forall k imag, ME qc_diff_error evs k imag = ME qc_diff_error evs' k imag).
    Proof.
      destruct (diff_err_inv evs evs' Hg Hg' Hr) as [D2 D4].
      split; [exact D2|]. split; [exact D4|].
      intros k imag. unfold qc_diff_error.
      rewrite (length_inv evs evs' Hg Hg' Hr).
      destruct (total_inv evs evs' Hg Hg' Hr) as [TB TP]. rewrite TB, TP.
      unfold diff_err2, diff_err4 in *. rewrite D2, D4. reflexivity.
    Qed.
  End Final.

  (* by-products: the per-event quantities are tuple sums over distinct particles of the unrotated event *)
  Theorem qc_ebe_closed evs e : good e ->
    ME ebe2 evs e = kdiv (re (DS 1 1 (Zs0 e))) (KN (ffact 2 (length (snd e)))) /\
    ME ebe4 evs e = kdiv (re (DS 2 2 (Zs0 e))) (KN (ffact 4 (length (snd e)))) /\
    ME ebe6 evs e = kdiv (re (DS 3 3 (Zs0 e))) (KN (ffact 6 (length (snd e)))).
  Proof. intros He. repeat split; [apply ebe2_closed | apply ebe4_closed | apply ebe6_closed]; exact He. Qed.

  Theorem qc_dsum_closed evs e : good e ->
    ME dsum2_ev evs e = PD 0 1 (Flg e) /\
    ME dsum4_ev evs e = Cadd (PD 1 2 (Flg e)) (k0, kmul (KZ 6) (im (PD 0 1 (Flg e)))) /\
    ME dw2 evs e = KN (length (snd (SelP e)) * ffact 1 (pred (length (snd e)))) /\
    ME dw4 evs e = KN (length (snd (SelP e)) * ffact 3 (pred (length (snd e)))).
  Proof.
    intros He. split; [apply dsum2_closed; exact He|]. split; [apply (dsum4_closed evs e He)|].
    rewrite !(den_ev K k0 k1 kadd kmul ksub kopp Kth P inbin ispoi).
    split; unfold dw2, dw4, gen_dw2, gen_dw4; cbv zeta; cbv beta; generalize (Mf (SelP e)) (Mf e); intros mp m; k_ring.
  Qed.
End QCErr.

(* ---------------- non-vacuity: three events of 7, 6, 8 particles at Gaussian-integer units; the second sample rotates the
   events by i, -1, -i, swaps the first two particles of the first two events and reorders the events; division, roots
   and the complex root are arbitrary functions in the theorems, here integer stand-ins ---------------- *)
Definition exP := (cpx Z * bool)%type.
Definition ex_l1 : list exP := [((1,0),true); ((0,1),false); ((-1,0),true); ((0,1),true); ((1,0),false); ((0,-1),true); ((0,1),true)]%Z.
Definition ex_l1' : list exP := [((0,1),false); ((1,0),true); ((-1,0),true); ((0,1),true); ((1,0),false); ((0,-1),true); ((0,1),true)]%Z.
Definition ex_l2 : list exP := [((0,-1),true); ((0,1),true); ((1,0),false); ((1,0),true); ((-1,0),true); ((1,0),true)]%Z.
Definition ex_l2' : list exP := [((0,1),true); ((0,-1),true); ((1,0),false); ((1,0),true); ((-1,0),true); ((1,0),true)]%Z.
Definition ex_l3 : list exP := [((1,0),true); ((1,0),true); ((0,1),false); ((1,0),true); ((0,-1),false); ((1,0),true); ((-1,0),true); ((0,1),true)]%Z.
Definition ex_a : list (event Z exP) := [((1,0), ex_l1); ((1,0), ex_l2); ((1,0), ex_l3)]%Z.
Definition ex_b : list (event Z exP) := [((0,1), ex_l3); ((-1,0), ex_l1'); ((0,-1), ex_l2')]%Z.
Definition ex_div (a b : Z) : Z := (a * 1000 / b)%Z.
Definition ex_root (c k : nat) (x : Z) : Z := (Z.sqrt (Z.abs x) + 1)%Z.
Definition ex_err (k : nat) (evs : list (event Z exP)) : option Z :=
  qc_error Z 0%Z 1%Z Z.add Z.mul Z.sub Z.opp ex_div Z.leb Z.ltb ex_root (fun z => z) exP fst snd (fun _ => true) evs k "negative".
Definition ex_derr (k : nat) (evs : list (event Z exP)) : dres Z :=
  qc_diff_error Z 0%Z 1%Z Z.add Z.mul Z.sub Z.opp ex_div Z.leb Z.ltb ex_root (fun z => z) exP fst snd (fun _ => true) evs k "negative".
Definition ex_dval (k : nat) (evs : list (event Z exP)) : dres Z :=
  differential_bin Z 0%Z 1%Z Z.add Z.mul Z.sub Z.opp ex_div Z.leb Z.ltb ex_root exP fst snd (fun _ => true) evs k "negative".

(* non-trivial: a value, and not 0 *)
Definition ex_nz (o : option Z) : bool := match o with Some v => negb (v =? 0)%Z | None => false end.
Definition ex_nzd (d : dres Z) : bool := match d with DVal _ (Some v) => negb (v =? 0)%Z | _ => false end.

Lemma p_C12_qcerr_example :
  Forall (good Z 0%Z 1%Z Z.add Z.mul Z.sub Z.opp exP fst) ex_a /\
  Forall (fun e : event Z exP => cunit Z 0%Z 1%Z Z.add Z.mul Z.sub Z.opp (fst e)) ex_b /\
  qc_related Z exP ex_a ex_b /\
  map (fun k => ex_err k ex_a) [2; 4; 6; 3]%nat = map (fun k => ex_err k ex_b) [2; 4; 6; 3]%nat /\
  forallb ex_nz (map (fun k => ex_err k ex_a) [2; 4; 6]%nat) = true /\ ex_err 3 ex_a = None /\
  map (fun k => ex_derr k ex_a) [2; 4; 6]%nat = map (fun k => ex_derr k ex_b) [2; 4; 6]%nat /\
  forallb ex_nzd (map (fun k => ex_derr k ex_a) [2; 4]%nat) = true /\ ex_derr 6 ex_a = DErr Z /\
  map (fun k => ex_dval k ex_a) [2; 4; 6]%nat = map (fun k => ex_dval k ex_b) [2; 4; 6]%nat /\
  forallb ex_nzd (map (fun k => ex_dval k ex_a) [2; 4]%nat) = true.
Proof.
  split; [repeat constructor|]. split; [repeat constructor|]. split.
  - exists [((1,0), ex_l1'); ((1,0), ex_l2'); ((1,0), ex_l3)]%Z. split.
    + repeat constructor; unfold same_particles; cbn [snd]; try apply Permutation_refl; apply perm_swap.
    + cbn [map snd]. apply (perm_trans (l' := [ex_l1'; ex_l3; ex_l2'])); [apply perm_skip, perm_swap | apply perm_swap].
  - vm_compute. repeat split.
Qed.

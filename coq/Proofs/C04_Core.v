(* C04: list / label lemmas, the invariant in recount form, the filter step, particle_list(). *)
From Coq Require Import List ZArith Bool Lia QArith.
From SX Require Import Lib.Py Model.Storer Model.StorerSpec.
Import ListNotations.
Local Open Scope Z_scope.

(* ------------------------------------------------------------------ labels and recount *)
Lemma labels_from_S l0 n : labels_from l0 (S n) = l0 :: labels_from (l0 + 1) n.
Proof.
  unfold labels_from. simpl. f_equal. { f_equal. lia. }
  rewrite <- seq_shift, map_map. apply map_ext. intros i. lia.
Qed.

Lemma labels_from_length l0 n : length (labels_from l0 n) = n.
Proof. unfold labels_from. now rewrite map_length, seq_length. Qed.

Lemma recount_fst evs : forall l0, map fst (recount l0 evs) = labels_from l0 (length evs).
Proof.
  induction evs as [|e t IH]; intros l0; [reflexivity|].
  simpl recount. simpl map. simpl length. rewrite labels_from_S, IH. reflexivity.
Qed.

Lemma recount_snd evs : forall l0, map snd (recount l0 evs) = map zlen evs.
Proof. induction evs as [|e t IH]; intros l0; simpl; [reflexivity|now rewrite IH]. Qed.

Lemma recount_length evs : forall l0, length (recount l0 evs) = length evs.
Proof. induction evs as [|e t IH]; intros l0; simpl; [reflexivity|now rewrite IH]. Qed.

Lemma rows_ext (r r' : list (Z * Z)) :
  map fst r = map fst r' -> map snd r = map snd r' -> r = r'.
Proof.
  revert r'. induction r as [|[a b] t IH]; intros [|[a' b'] t'] Hf Hs; simpl in *; try discriminate; [reflexivity|].
  inversion Hf. inversion Hs. subst. f_equal. now apply IH.
Qed.

Lemma rows_are_recount rows l0 evs :
  map snd rows = map zlen evs -> map fst rows = labels_from l0 (length evs) -> rows = recount l0 evs.
Proof. intros Hs Hf. apply rows_ext; [now rewrite recount_fst|now rewrite recount_snd]. Qed.

Lemma recount_app x : forall l0 y, recount l0 (x ++ y) = recount l0 x ++ recount (l0 + zlen x) y.
Proof.
  induction x as [|e t IH]; intros l0 y; simpl.
  - unfold zlen. simpl. now rewrite Z.add_0_r.
  - rewrite IH. replace (l0 + 1 + zlen t) with (l0 + zlen (e :: t)); [reflexivity|].
    unfold zlen. simpl length. lia.
Qed.

Lemma recount_shift d evs : forall l0, map (shift_lab d) (recount l0 evs) = recount (l0 + d) evs.
Proof.
  induction evs as [|e t IH]; intros l0; simpl; [reflexivity|].
  rewrite IH. unfold shift_lab at 1. simpl.
  replace (l0 + 1 + d) with (l0 + d + 1) by lia. reflexivity.
Qed.

Lemma recount_nonnil l0 evs : evs <> [] -> exists c r, recount l0 evs = (l0, c) :: r.
Proof. destruct evs as [|e t]; [congruence|]. intros _. simpl. eauto. Qed.

(* ------------------------------------------------------------------ the invariant, recount form *)
Definition RegR (s : storer) (l0 : Z) : Prop :=
  counts s = A2 (recount l0 (events s)) /\ events s <> [] /\ nevents s = zlen (events s).

Lemma Reg_iff s : Reg s <-> exists l0, RegR s l0.
Proof.
  split.
  - intros (rows & l0 & Hc & Hne & Hn & Hs & Hf). exists l0. repeat split; try assumption.
    rewrite Hc. f_equal. now apply rows_are_recount.
  - intros (l0 & Hc & Hne & Hn). exists (recount l0 (events s)), l0.
    repeat split; try assumption; [apply recount_snd|apply recount_fst].
Qed.

Lemma zlen_pos {A} (l : list A) : l <> [] -> 0 < zlen l.
Proof. destruct l; [congruence|]. intros _. unfold zlen. simpl length. lia. Qed.

Lemma zlen_nonneg {A} (l : list A) : 0 <= zlen l.
Proof. unfold zlen. lia. Qed.

Lemma Reg_pos s : Reg s -> 0 < nevents s.
Proof. rewrite Reg_iff. intros (l0 & _ & Hne & Hn). rewrite Hn. now apply zlen_pos. Qed.

Lemma held_Reg s : Reg s -> held s = events s.
Proof. intros H. unfold held. apply Reg_pos in H. destruct (0 <? nevents s) eqn:E; [reflexivity|]. apply Z.ltb_ge in E. lia. Qed.

Lemma held_Emp s : Emp s -> held s = [].
Proof. intros (Hn & _). unfold held. now rewrite Hn. Qed.

(* ------------------------------------------------------------------ filters *)
Lemma gfun_nonnil o l : l <> [] -> gfun o l <> [].
Proof.
  destruct o as [f|keep]; simpl.
  - destruct l; [congruence|]. simpl. congruence.
  - intros _. destruct (filter keep l); simpl; congruence.
Qed.

Lemma filter_Reg s l0 o :
  RegR s l0 ->
  exists s', apply_filter s o = Ok s' /\ RegR s' l0 /\ events s' = gfun o (events s) /\
             scls s' = scls s /\ xptype s' = xptype s.
Proof.
  intros (Hc & Hne & Hn).
  unfold apply_filter, update_after_filter. simpl counts. rewrite Hc.
  destruct (recount_nonnil l0 (events s) Hne) as (c & r & Hr). rewrite Hr.
  pose proof (gfun_nonnil o _ Hne) as Hg.
  eexists. split; [reflexivity|].
  unfold renorm, RegR. simpl.
  destruct (gfun o (events s)) as [|e t] eqn:E; [congruence|]. simpl.
  repeat split; congruence.
Qed.

Lemma gfun_placeholder o l : (match o with PL f => f [] = [] | EV _ => True end) ->
  l = [] \/ l = [[]] -> norm (gfun o l) = [[]].
Proof.
  intros Ha [-> | ->]; destruct o as [f|keep]; simpl; try reflexivity.
  - now rewrite Ha.
  - now destruct (keep []).
Qed.

Lemma renorm_events s : events (renorm s) = norm (events s).
Proof. unfold renorm, norm. destruct (events s) eqn:E; simpl; [reflexivity|now rewrite E]. Qed.
Lemma renorm_counts s : counts (renorm s) = counts s.
Proof. unfold renorm. now destruct (is_nil _). Qed.
Lemma renorm_nevents s : nevents (renorm s) = nevents s.
Proof. unfold renorm. now destruct (is_nil _). Qed.
Lemma renorm_scls s : scls (renorm s) = scls s.
Proof. unfold renorm. now destruct (is_nil _). Qed.
Lemma renorm_xptype s : xptype (renorm s) = xptype s.
Proof. unfold renorm. now destruct (is_nil _). Qed.

Lemma filter_Emp s o : (match o with PL f => f [] = [] | EV _ => True end) ->
  Emp s ->
  exists s', apply_filter s o = Ok s' /\ Emp s' /\ events s' = [[]] /\
             scls s' = scls s /\ xptype s' = xptype s.
Proof.
  intros Ha (Hn & Hc & He).
  pose proof (gfun_placeholder o _ Ha He) as Hg.
  unfold apply_filter, update_after_filter. simpl counts.
  destruct Hc as [Hc|Hc]; rewrite Hc; (eexists; split; [reflexivity|]); unfold Emp;
    rewrite renorm_events, renorm_counts, renorm_nevents, renorm_scls, renorm_xptype; simpl;
    rewrite Hg; repeat split; auto.
Qed.

(* ------------------------------------------------------------------ particle_list() *)
Lemma take_event_all e : take_event (zlen e) (Some e) = Ok e.
Proof.
  unfold take_event. destruct (zlen e <=? 0) eqn:E.
  - apply Z.leb_le in E. destruct e; [reflexivity|]. unfold zlen in E. simpl length in E. lia.
  - rewrite Z.leb_refl. unfold zlen. rewrite Nat2Z.id. now rewrite firstn_all.
Qed.

Lemma plist_loop_all evs : plist_loop (length evs) (map zlen evs) evs = Ok evs.
Proof.
  induction evs as [|e t IH]; [reflexivity|].
  simpl. rewrite take_event_all. simpl. rewrite IH. reflexivity.
Qed.

Lemma plist_Reg s : Reg s -> particle_list s = Ok (plist_spec s).
Proof.
  intros HR. pose proof (held_Reg s HR) as Hh. pose proof (Reg_pos s HR) as Hp.
  apply Reg_iff in HR. destruct HR as (l0 & Hc & Hne & Hn).
  unfold particle_list, plist_spec. rewrite Hh.
  destruct (nevents s =? 0) eqn:E0; [apply Z.eqb_eq in E0; lia|].
  destruct (events s) as [|e t] eqn:Ev; [congruence|].
  destruct (nevents s =? 1) eqn:E1.
  - apply Z.eqb_eq in E1. rewrite E1 in Hn. destruct t as [|e2 t2].
    + rewrite Hc. simpl. rewrite take_event_all. reflexivity.
    + unfold zlen in Hn. simpl length in Hn. lia.
  - apply Z.eqb_neq in E1. destruct t as [|e2 t2].
    + unfold zlen in Hn. simpl in Hn. lia.
    + rewrite Hc. simpl rbind. rewrite recount_snd. rewrite Hn. unfold zlen. rewrite Nat2Z.id.
      rewrite plist_loop_all. reflexivity.
Qed.

Lemma plist_Emp s : Emp s -> particle_list s = Ok (plist_spec s).
Proof.
  intros HE. pose proof (held_Emp s HE) as Hh. destruct HE as (Hn & _).
  unfold particle_list, plist_spec. rewrite Hh, Hn. reflexivity.
Qed.

Lemma plist_Inv s : Inv s -> particle_list s = Ok (plist_spec s).
Proof. intros [H|H]; [now apply plist_Reg|now apply plist_Emp]. Qed.

(* what the accessors show under the invariant *)
Lemma counts_Inv s : Inv s ->
  nevents s = zlen (held s) /\
  (exists rows, reshape2 (counts s) = Ok rows /\ rows = rows_of s /\
     map snd rows = map zlen (held s) /\
     exists l0, map fst rows = labels_from l0 (length (held s))) /\
  (0 < nevents s -> exists rows, counts s = A2 rows).
Proof.
  intros [HR|HE].
  - rewrite (held_Reg s HR). destruct HR as (rows & l0 & Hc & Hne & Hn & Hs & Hf).
    split; [assumption|]. split.
    + exists rows. unfold rows_of. rewrite Hc. simpl. repeat split; eauto.
    + intros _. eauto.
  - rewrite (held_Emp s HE). destruct HE as (Hn & Hc & He). split; [assumption|]. split.
    + exists []. unfold rows_of. destruct Hc as [Hc|Hc]; rewrite Hc; simpl; repeat split; exists 0; reflexivity.
    + intros H. lia.
Qed.

Lemma objects_Inv s : Inv s ->
  (0 < nevents s /\ events s = held s) \/
  (nevents s = 0 /\ held s = [] /\ (events s = [] \/ events s = [[]])).
Proof.
  intros [HR|HE].
  - left. split; [now apply Reg_pos|now rewrite held_Reg].
  - right. pose proof (held_Emp s HE). destruct HE as (Hn & _ & He). auto.
Qed.

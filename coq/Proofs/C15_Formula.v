(* C15: the generated variance summand and scaling factor give the delete-d jackknife formula
       estimate^2 = (n-d)/(d*N) * sum_i (theta_i - mean theta)^2        for every admissible d, d = 1 included,
   over any field; scaling of the samples by c scales the radicand by c^2, shifting them leaves it unchanged. *)
From Coq Require Import List ZArith QArith Bool Ring Ring_theory Field Field_theory Lia.
From SX Require Import Lib.Py Lib.KRing Gen.GenJackknife Model.Pool.
Import ListNotations.

Section Formula.
  Variable K : Type.
  Variables (k0 k1 : K) (kadd kmul ksub kdiv : K -> K -> K) (kopp kinv : K -> K).
  Hypothesis Fth : field_theory k0 k1 kadd kmul ksub kopp kdiv kinv (@eq K).
  Add Field Kfield15 : Fth.

  Notation "0" := k0. Notation "1" := k1.
  Infix "+" := kadd. Infix "*" := kmul. Infix "-" := ksub. Infix "/" := kdiv.
  Notation ofZ := (kz k0 k1 kadd kmul kopp).
  Notation sum := (ksum k0 kadd).
  Notation mean := (mean_samples K k0 k1 kadd kmul kdiv kopp).
  Notation varsum := (variance_sum K k0 k1 kadd kmul ksub kdiv kopp).
  Notation est_sq := (estimate_sq K k0 k1 kadd kmul ksub kdiv kopp).
  Notation term := (gen_jk_term K k0 k1 kadd kmul ksub kdiv kopp).
  Notation factor := (gen_jk_factor K k0 k1 kadd kmul ksub kdiv kopp).

  Definition sqdev (m t : K) : K := (t - m) * (t - m).

  Lemma term_sqdev t m : term t m = sqdev m t.
  Proof. unfold gen_jk_term, sqdev. cbn [kpow]. ring. Qed.

  Lemma fold_acc (f : K -> K) : forall l a, fold_left (fun acc t => acc + f t) l a = a + sum (map f l).
  Proof. induction l as [|x t IH]; intros a; cbn; [ring | rewrite IH; ring]. Qed.

  Lemma sum_ext (f g : K -> K) l : (forall x, f x = g x) -> sum (map f l) = sum (map g l).
  Proof. intros H. induction l as [|x t IH]; cbn; [reflexivity | rewrite H, IH; reflexivity]. Qed.

  Lemma varsum_sum th : varsum th = sum (map (sqdev (mean th)) th).
  Proof.
    unfold variance_sum. rewrite (fold_acc (fun t => term t (mean th))).
    rewrite (sum_ext (fun t => term t (mean th)) (sqdev (mean th))) by (intros; apply term_sqdev).
    ring.
  Qed.

  (* the scaling factor is (n-d)/(d*N) in every branch of the source's chain *)
  Lemma factor_formula n N dz : ofZ dz <> 0 -> N <> 0 ->
    factor n (ofZ dz) N dz = (n - ofZ dz) / (ofZ dz * N).
  Proof.
    intros Hd HN. unfold gen_jk_factor.
    destruct (dz =? 1)%Z eqn:E; [apply Z.eqb_eq in E; subst dz|]; cbn [kz kpos] in *; field; auto.
  Qed.

  Theorem estimate_sq_formula n d th :
    ofZ d <> 0 -> ofZ (Z.of_nat (length th)) <> 0 ->
    est_sq n d th = (ofZ n - ofZ d) / (ofZ d * ofZ (Z.of_nat (length th))) * sum (map (sqdev (mean th)) th).
  Proof.
    intros Hd HN. unfold estimate_sq. rewrite factor_formula by assumption. rewrite varsum_sum. ring.
  Qed.

  (* ---- scaling and shifting the samples ---------------------------------------------------------------- *)
  Lemma div_mul a b : a / b = a * kinv b.
  Proof. apply (Fdiv_def Fth). Qed.

  Lemma sum_scale c l : sum (map (kmul c) l) = c * sum l.
  Proof. induction l as [|x t IH]; cbn; [ring | rewrite IH; ring]. Qed.

  Lemma mean_scale c th : mean (map (kmul c) th) = c * mean th.
  Proof. unfold mean_samples. rewrite map_length, sum_scale, !div_mul. ring. Qed.

  Lemma sum_sqdev_scale c m l : sum (map (sqdev (c * m)) (map (kmul c) l)) = c * c * sum (map (sqdev m) l).
  Proof. induction l as [|x t IH]; cbn; [ring | rewrite IH; unfold sqdev; ring]. Qed.

  Theorem estimate_sq_scale c n d th : est_sq n d (map (kmul c) th) = c * c * est_sq n d th.
  Proof.
    unfold estimate_sq. rewrite !varsum_sum, mean_scale, sum_sqdev_scale, map_length. ring.
  Qed.

  Lemma kpos_succ p : kpos k1 kadd kmul (Pos.succ p) = 1 + kpos k1 kadd kmul p.
  Proof. induction p as [p IH|p IH|]; cbn [Pos.succ kpos]; [rewrite IH; ring | ring | ring]. Qed.

  Lemma ofZ_succ z : (0 <= z)%Z -> ofZ (Z.succ z) = 1 + ofZ z.
  Proof.
    intros Hz. destruct z as [|p|p]; [cbn; ring | | lia].
    rewrite <- Pos2Z.inj_succ. cbn [kz]. apply kpos_succ.
  Qed.

  Lemma sum_shift a l : sum (map (fun t => t + a) l) = sum l + ofZ (Z.of_nat (length l)) * a.
  Proof.
    induction l as [|x t IH]; [cbn; ring|].
    cbn [map ksum length]. rewrite IH, Nat2Z.inj_succ, ofZ_succ by apply Nat2Z.is_nonneg. ring.
  Qed.

  Lemma mean_shift a th : ofZ (Z.of_nat (length th)) <> 0 -> mean (map (fun t => t + a) th) = mean th + a.
  Proof. intros HN. unfold mean_samples. rewrite map_length, sum_shift. field. exact HN. Qed.

  Lemma sum_sqdev_shift a m l : sum (map (sqdev (m + a)) (map (fun t => t + a) l)) = sum (map (sqdev m) l).
  Proof. induction l as [|x t IH]; cbn; [ring | rewrite IH; unfold sqdev; ring]. Qed.

  Theorem estimate_sq_shift a n d th : ofZ (Z.of_nat (length th)) <> 0 ->
    est_sq n d (map (fun t => t + a) th) = est_sq n d th.
  Proof.
    intros HN. unfold estimate_sq. rewrite !varsum_sum, (mean_shift _ _ HN), sum_sqdev_shift, map_length. reflexivity.
  Qed.

  (* the mean of a non-empty list moves with the data *)
  Definition kmean (l : list K) : K := sum l / ofZ (Z.of_nat (length l)).
  Lemma kmean_shift a l : ofZ (Z.of_nat (length l)) <> 0 -> kmean (map (fun t => t + a) l) = kmean l + a.
  Proof. intros HN. unfold kmean. rewrite map_length, sum_shift. field. exact HN. Qed.
End Formula.

(* C16: instances - the canonical rationals with the guard read from the source, and the reals. *)
From Coq Require Import List ZArith QArith Qcanon Bool Lia Field_theory Permutation String Reals RealField Lra.
From SX Require Import Lib.KRing Lib.Py Lib.QCheck Gen.GenLattice Model.Lattice Model.Smear Proofs.C16_Smear.
Import ListNotations.

(* every finite double is a canonical rational; the guard on norm is the generated one *)
Definition qc_norm_ok (N : Qc) : bool := gen_norm_ok (this N).

Lemma qc_norm_ok_nz N : qc_norm_ok N = true -> N <> 0%Qc.
Proof.
  unfold qc_norm_ok. intros H E. apply (gen_norm_ok_nz _ H). rewrite E. reflexivity.
Qed.

Definition qc_conserve := conserve_list Qc 0%Qc 1%Qc Qcplus Qcmult Qcminus Qcdiv Qcopp Qcinv Qcft qc_norm_ok qc_norm_ok_nz.

Lemma qc_clip n vol (g : zgrid Qc) ds : vol <> 0%Qc ->
  Forall (clip_ok Qc 0%Qc Qcplus qc_norm_ok Qcle) ds ->
  Qcle (vol * (gsum Qc 0%Qc Qcplus n (deposit_all Qc 0%Qc Qcplus Qcmult Qcdiv qc_norm_ok n vol g ds)
               - gsum Qc 0%Qc Qcplus n g))%Qc
       (ksum 0%Qc Qcplus (map (dv (K:=Qc)) ds)).
Proof.
  apply (clip_list Qc 0%Qc 1%Qc Qcplus Qcmult Qcminus Qcdiv Qcopp Qcinv Qcft qc_norm_ok qc_norm_ok_nz Qcle).
  - apply Qcle_refl.
  - apply Qcle_trans.
  - intros a b c H. now apply Qcplus_le_compat; [|apply Qcle_refl].
  - intros a b Ha Hb. replace 0%Qc with (0 * b)%Qc by ring. now apply Qcmult_le_compat_r.
  - intros a Ha Hn. unfold Qcle in *. simpl in *.
    rewrite Qred_correct.
    destruct (Qlt_le_dec 0 (this a)) as [P|P].
    + apply Qlt_le_weak. now apply Qinv_lt_0_compat.
    + exfalso. apply Hn. apply Qc_is_canon. simpl. apply Qle_antisym; assumption.
Qed.

Section RealInst.
  Variable norm_ok : R -> bool.
  Hypothesis norm_ok_nz : forall N, norm_ok N = true -> N <> 0%R.

  Definition r_conserve := conserve_list R 0%R 1%R Rplus Rmult Rminus Rdiv Ropp Rinv Rfield norm_ok norm_ok_nz.

  Lemma r_clip n vol (g : zgrid R) ds : vol <> 0%R ->
    Forall (clip_ok R 0%R Rplus norm_ok Rle) ds ->
    (vol * (gsum R 0%R Rplus n (deposit_all R 0%R Rplus Rmult Rdiv norm_ok n vol g ds) - gsum R 0%R Rplus n g)
     <= ksum 0%R Rplus (map (dv (K:=R)) ds))%R.
  Proof.
    apply (clip_list R 0%R 1%R Rplus Rmult Rminus Rdiv Ropp Rinv Rfield norm_ok norm_ok_nz Rle).
    - intros; lra.
    - intros; lra.
    - intros; lra.
    - intros a b Ha Hb. now apply Rmult_le_pos.
    - intros a Ha Hn. left. apply Rinv_0_lt_compat. lra.
  Qed.
End RealInst.

(* C09: scaling, statistical error, interleaved histories, geometry, uniform edges, density. *)
From Coq Require Import List ZArith QArith Qcanon Bool Arith Lia.
From SX Require Import Model.Histogram Lib.HistBase Proofs.C09_Count.
Import ListNotations.
Local Open Scope nat_scope.

(* ---------------------------------------------------------------- scale_histogram *)
Definition factor (s : scl) (i : nat) : cell := match s with SScalar c => c | SList l => nth i l None end.
Definition valid_scale (n : nat) (s : scl) : bool :=
  match s with
  | SScalar c => negb (c_neg c)
  | SList l => negb (existsb c_neg l) && Nat.eqb (length l) n
  end.
Definition apply_factor (s : scl) (row : list cell) : list cell :=
  match s with SScalar c => map (fun x => cmul x c) row | SList l => map2 cmul row l end.

Lemma apply_factor_length s row : valid_scale (length row) s = true -> length (apply_factor s row) = length row.
Proof.
  destruct s as [c|l]; simpl; intros V.
  - apply map_length.
  - apply andb_true_iff in V. destruct V as [_ V]. apply Nat.eqb_eq in V. rewrite map2_length. lia.
Qed.

Lemma apply_factor_nth s row i : valid_scale (length row) s = true -> i < length row ->
  nth i (apply_factor s row) None = cmul (nth i row None) (factor s i).
Proof.
  destruct s as [c|l]; simpl; intros V Hi.
  - change None with ((fun x => cmul x c) None) at 1. apply map_nth.
  - apply andb_true_iff in V. destruct V as [_ V]. apply Nat.eqb_eq in V.
    apply nth_map2; lia.
Qed.

(* what a scaling must not touch *)
Record sframe (h h' : hist) : Prop := {
  s_nbins : nbins h' = nbins h;
  s_edges : edges h' = edges h;
  s_nhist : nhist h' = nhist h;
  s_raw : hRAW h' = hRAW h;
  s_sys : hSYS h' = hSYS h;
  s_prevH : prev (hH h') = prev (hH h);
  s_prevE : prev (hERR h') = prev (hERR h);
  s_prevS : prev (hSCAL h') = prev (hSCAL h)
}.

Lemma scale_last_spec s pre row : valid_scale (length row) s = true ->
  (match s with SScalar c => scale_last_scalar (A2 (pre ++ [row])) c | SList l => scale_last_list (A2 (pre ++ [row])) l end)
  = Ok (A2 (pre ++ [apply_factor s row])).
Proof.
  destruct s as [c|l]; simpl; intros V.
  - unfold scale_last_scalar. rewrite upd_last_snoc. reflexivity.
  - apply andb_true_iff in V. destruct V as [_ V]. apply Nat.eqb_eq in V.
    unfold scale_last_list. rewrite upd_last_snoc, zipw_eq by congruence. reflexivity.
Qed.

Lemma last_row_snoc pre row : last_row (A2 (pre ++ [row])) = Ok row.
Proof. simpl. destruct (pre ++ [row]) eqn:Z; [destruct pre; discriminate|]. rewrite <- Z. f_equal. apply last_snoc. Qed.

Lemma scale_spec h s : Shape h -> valid_scale (nbins h) s = true ->
  exists h', scale_histogram h s = Ok h' /\ Shape h' /\ sframe h h'
    /\ cur (hH h') = apply_factor s (cur (hH h))
    /\ cur (hERR h') = apply_factor s (cur (hERR h))
    /\ cur (hSCAL h') = apply_factor s (cur (hSCAL h)).
Proof.
  intros [Hn [He [SH [SR [SE [SS SY]]]]]] V.
  destruct (nhist h) as [|m] eqn:Nh; [lia|].
  destruct (Shape2_snoc _ _ _ SH) as [preH [rowH [EH [LpH [LrH FH]]]]].
  destruct (Shape2_snoc _ _ _ SE) as [preE [rowE [EE [LpE [LrE FE]]]]].
  destruct (Shape2_snoc _ _ _ SS) as [preS [rowS [ES [LpS [LrS FS]]]]].
  assert (VH : valid_scale (length rowH) s = true) by now rewrite LrH.
  assert (VE : valid_scale (length rowE) s = true) by now rewrite LrE.
  assert (VS : valid_scale (length rowS) s = true) by now rewrite LrS.
  pose proof (scale_last_spec s preH rowH VH) as QH.
  pose proof (scale_last_spec s preE rowE VE) as QE.
  pose proof (scale_last_spec s preS rowS VS) as QS.
  assert (R : scale_histogram h s =
              Ok (mkH (nbins h) (edges h) (nhist h) (A2 (preH ++ [apply_factor s rowH])) (hRAW h)
                      (A2 (preE ++ [apply_factor s rowE])) (A2 (preS ++ [apply_factor s rowS])) (hSYS h))).
  { unfold scale_histogram. destruct s as [c|l]; simpl in V.
    - apply negb_true_iff in V. rewrite V, EH, EE, ES, QH, QS, QE. reflexivity.
    - apply andb_true_iff in V. destruct V as [V1 V2]. apply negb_true_iff in V1. rewrite V1, V2. cbn [negb].
      rewrite EH, last_row_snoc. cbn [bind]. apply Nat.eqb_eq in V2. rewrite V2, LrH, Nat.eqb_refl. cbn [negb].
      rewrite EE, ES, QH, QS, QE. reflexivity. }
  eexists. split; [exact R|]. rewrite Nh.
  split.
  { unfold Shape; cbn. repeat split; try assumption; try lia; apply Shape2_of_snoc; try assumption;
    rewrite apply_factor_length; assumption. }
  split.
  { constructor; cbn [nbins edges nhist hH hRAW hERR hSCAL hSYS]; try reflexivity; try (symmetry; exact Nh);
    rewrite ?EH, ?EE, ?ES, !prev_snoc; reflexivity. }
  cbn [hH hERR hSCAL]. rewrite EH, EE, ES, !cur_snoc. auto.
Qed.

Lemma scale_ok_valid h s h' : Shape h -> scale_histogram h s = Ok h' -> valid_scale (nbins h) s = true.
Proof.
  intros Sh E. unfold scale_histogram in E. destruct s as [c|l]; simpl.
  - destruct (c_neg c); [discriminate | reflexivity].
  - destruct (existsb c_neg l); [discriminate|]. destruct (Nat.eqb (length l) (nbins h)); [reflexivity | discriminate].
Qed.

(* negative factors are rejected *)
Lemma scale_invalid h s : valid_scale (nbins h) s = false -> scale_histogram h s = Err ValueError.
Proof.
  unfold scale_histogram. destruct s as [c|l]; simpl; intros V.
  - apply negb_false_iff in V. now rewrite V.
  - destruct (existsb c_neg l); [reflexivity|]. simpl in V. now rewrite V.
Qed.

(* contents and errors of the current histogram are multiplied, raw counts are untouched *)
Lemma scale_content h s h' : Shape h -> scale_histogram h s = Ok h' ->
  hRAW h' = hRAW h /\
  forall i, i < nbins h ->
    content h' i = cmul (content h i) (factor s i) /\ errc h' i = cmul (errc h i) (factor s i).
Proof.
  intros Sh E. pose proof (scale_ok_valid _ _ _ Sh E) as V.
  destruct (scale_spec h s Sh V) as [h2 [E2 [_ [F [CH [CE _]]]]]].
  rewrite E in E2. injection E2 as <-. split; [apply (s_raw _ _ F)|].
  intros i Hi. unfold content, errc. rewrite CH, CE.
  destruct Sh as [Hn [_ [SH [_ [SE _]]]]].
  destruct (nhist h) as [|m]; [lia|].
  destruct (Shape2_snoc _ _ _ SH) as [preH [rowH [EH [_ [LrH _]]]]].
  destruct (Shape2_snoc _ _ _ SE) as [preE [rowE [EE [_ [LrE _]]]]].
  rewrite EH, EE, !cur_snoc. split; apply apply_factor_nth; try lia; congruence.
Qed.

(* ---------------------------------------------------------------- statistical_error *)
Section Sqrt.
  Variable usqrt : Qc -> Qc.

  Lemma stat_rows_spec n : forall rows erows,
    length rows = length erows -> Forall (fun r => length r = n) rows -> Forall (fun r => length r = n) erows ->
    stat_rows usqrt rows erows = Ok (map (map (csqrt usqrt)) rows).
  Proof.
    induction rows as [|r t IH]; intros [|e et] L F1 F2; try discriminate; [reflexivity|].
    inversion F1; inversion F2; subst. cbn [stat_rows]. simpl in L.
    replace (length e) with (length r) by congruence. rewrite Nat.eqb_refl, IH by (auto; lia). reflexivity.
  Qed.

  Lemma statistical_error_spec h : Shape h ->
    exists rows, hH h = A2 rows /\
      statistical_error usqrt h =
        Ok (mkH (nbins h) (edges h) (nhist h) (hH h) (hRAW h) (A2 (map (map (csqrt usqrt)) rows)) (hSCAL h) (hSYS h)).
  Proof.
    intros [Hn [He [[rows [EH [LH FH]]] [_ [[erows [EE [LE FE]]] _]]]]].
    exists rows. split; [exact EH|]. unfold statistical_error. rewrite EH, EE.
    rewrite (stat_rows_spec (nbins h)) by (auto; congruence). reflexivity.
  Qed.

  Lemma statistical_error_Shape h h' : Shape h -> statistical_error usqrt h = Ok h' -> Shape h'.
  Proof.
    intros Sh E. destruct (statistical_error_spec h Sh) as [rows [EH R]]. rewrite R in E. injection E as <-.
    destruct Sh as [Hn [He [SH [SR [SE [SS SY]]]]]]. unfold Shape; cbn. repeat split; auto.
    destruct SH as [rows' [EH' [LH FH]]]. rewrite EH in EH'. injection EH' as <-.
    exists (map (map (csqrt usqrt)) rows). repeat split; [now rewrite map_length|].
    apply Forall_map. eapply Forall_impl; [|exact FH]. intros r Hr. now rewrite map_length.
  Qed.

  (* ---------------------------------------------------------------- interleavings of filling and scaling *)
  Inductive cop := CFill (v w : Qc) | CScale (s : scl).

  Fixpoint spec_content (es : list Qc) (i : nat) (c : cell) (l : list cop) : cell :=
    match l with
    | [] => c
    | CFill v w :: t => spec_content es i (bump es v (Some w) i c) t
    | CScale s :: t => spec_content es i (cmul c (factor s i)) t
    end.
  Fixpoint spec_raw (es : list Qc) (i : nat) (c : cell) (l : list cop) : cell :=
    match l with
    | [] => c
    | CFill v w :: t => spec_raw es i (bump es v (Some w) i c) t
    | CScale _ :: t => spec_raw es i c t
    end.

  Definition fills (ps : list (Qc * Qc)) : list cop := map (fun p => CFill (fst p) (snd p)) ps.

  (* the abstract reading of a history made of valid add_value calls and scalings *)
  Fixpoint abstract (ops : list op) : option (list cop) :=
    match ops with
    | [] => Some []
    | OFill v w :: t =>
        match call_pairs v w with
        | Some l => match qpairs l with
                    | Some ps => option_map (app (fills ps)) (abstract t)
                    | None => None
                    end
        | None => None
        end
    | OScale s :: t => option_map (cons (CScale s)) (abstract t)
    | _ => None
    end.

  Lemma spec_content_fills es i : forall ps c rest,
    spec_content es i c (fills ps ++ rest) = spec_content es i (cadd c (Some (wsum es i ps))) rest.
  Proof.
    induction ps as [|[v w] t IH]; intros c rest; simpl.
    - now rewrite cadd_zero.
    - rewrite IH. f_equal. fold (wsum es i t). apply bump_wsum.
  Qed.
  Lemma spec_raw_fills es i : forall ps c rest,
    spec_raw es i c (fills ps ++ rest) = spec_raw es i (cadd c (Some (wsum es i ps))) rest.
  Proof.
    induction ps as [|[v w] t IH]; intros c rest; simpl.
    - now rewrite cadd_zero.
    - rewrite IH. f_equal. fold (wsum es i t). apply bump_wsum.
  Qed.

  Lemma history_spec : forall ops h cl h', Shape h -> nondecreasing (edges h) = true ->
    abstract ops = Some cl -> run usqrt h ops = Ok h' ->
    Shape h' /\ edges h' = edges h /\ nbins h' = nbins h /\
    forall i, i < nbins h ->
      content h' i = spec_content (edges h) i (content h i) cl
      /\ rawc h' i = spec_raw (edges h) i (rawc h i) cl.
  Proof.
    induction ops as [|o t IH]; intros h cl h' Sh Nd A R.
    - injection A as <-. cbn [run] in R. injection R as <-. split; [exact Sh|]. repeat split; auto.
    - cbn [run] in R. inv_bind R. destruct o; try discriminate; cbn [abstract step] in *.
      + destruct (call_pairs v w) as [l|] eqn:Cp; [|discriminate].
        destruct (qpairs l) as [ps|] eqn:Q; [|discriminate].
        destruct (abstract t) as [ct|] eqn:At; [|discriminate]. injection A as <-.
        rewrite (add_value_fill _ _ _ _ _ Cp Q) in E.
        destruct (fill_list_spec l h ps Sh Nd Q) as [h1 [E1 [S1 [F1 C1]]]].
        rewrite E in E1. injection E1 as <-.
        assert (Nd1 : nondecreasing (edges a) = true) by (rewrite (f_edges _ _ F1); exact Nd).
        destruct (IH a ct h' S1 Nd1 eq_refl R) as [S' [Ee [En C']]].
        rewrite (f_edges _ _ F1) in *. rewrite (f_nbins _ _ F1) in *.
        split; [exact S'|]. split; [exact Ee|]. split; [exact En|]. intros i H.
        destruct (C' i H) as [X X']. destruct (C1 i H) as [Y Y']. rewrite X, Y, X', Y'. split; symmetry.
        * apply spec_content_fills.
        * apply spec_raw_fills.
      + destruct (abstract t) as [ct|] eqn:At; [|discriminate]. injection A as <-.
        pose proof (scale_ok_valid _ _ _ Sh E) as V.
        destruct (scale_spec h s Sh V) as [h1 [E1 [S1 [F1 _]]]].
        rewrite E in E1. injection E1 as <-.
        destruct (scale_content h s a Sh E) as [Raw C1].
        assert (Nd1 : nondecreasing (edges a) = true) by (rewrite (s_edges _ _ F1); exact Nd).
        destruct (IH a ct h' S1 Nd1 eq_refl R) as [S' [Ee [En C']]].
        rewrite (s_edges _ _ F1) in *. rewrite (s_nbins _ _ F1) in *.
        split; [exact S'|]. split; [exact Ee|]. split; [exact En|]. intros i H.
        destruct (C' i H) as [X X']. destruct (C1 i H) as [Y _]. rewrite X, Y, X'. split; [reflexivity|].
        unfold rawc. rewrite Raw. reflexivity.
  Qed.
End Sqrt.

(* ---------------------------------------------------------------- geometry *)
Lemma nth_tl {A} (l : list A) d i : nth i (tl l) d = nth (S i) l d.
Proof. destruct l; [destruct i|]; reflexivity. Qed.

Lemma nth_removelast {A} (l : list A) d : forall i, S i < length l -> nth i (removelast l) d = nth i l d.
Proof.
  induction l as [|x t IH]; intros i Hi; [simpl in Hi; lia|].
  destruct t as [|y t']; [simpl in Hi; lia|].
  change (removelast (x :: y :: t')) with (x :: removelast (y :: t')).
  destruct i; [reflexivity|]. simpl nth at 2. cbn [nth]. apply IH. simpl in *. lia.
Qed.

Lemma removelast_length {A} (l : list A) : length (removelast l) = length l - 1.
Proof.
  induction l as [|x t IH]; [reflexivity|]. destruct t as [|y t']; [reflexivity|].
  change (removelast (x :: y :: t')) with (x :: removelast (y :: t')). simpl length in *. lia.
Qed.

Lemma tl_length {A} (l : list A) : length (tl l) = length l - 1.
Proof. destruct l; simpl; lia. Qed.

Lemma geometry es i : S i < length es ->
  nth i (centers es) 0%Qc = ((nth i es 0 + nth (S i) es 0) / q2)%Qc
  /\ nth i (widths es) 0%Qc = (nth (S i) es 0 - nth i es 0)%Qc
  /\ nth i (bounds_left es) 0%Qc = nth i es 0%Qc
  /\ nth i (bounds_right es) 0%Qc = nth (S i) es 0%Qc.
Proof.
  intros Hi. unfold centers, widths, bounds_left, bounds_right.
  rewrite (nth_map2 _ 0%Qc 0%Qc), (nth_map2 _ 0%Qc 0%Qc), !nth_tl, !nth_removelast by (rewrite ?removelast_length, ?tl_length; lia).
  auto.
Qed.

Lemma geometry_length es :
  length (centers es) = length es - 1 /\ length (widths es) = length es - 1
  /\ length (bounds_left es) = length es - 1 /\ length (bounds_right es) = length es - 1.
Proof.
  unfold centers, widths, bounds_left, bounds_right. rewrite !map2_length, !removelast_length, !tl_length. lia.
Qed.

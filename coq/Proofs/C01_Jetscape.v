(* C01 (JETSCAPE): loading the rendering of a well-formed document with no options yields exactly
   what the document states.  Induction over the events, with the event "still open" as loop state. *)
From Coq Require Import List String ZArith QArith Bool Arith Lia.
From SX Require Import Lib.Strs Gen.GenParticleMap Model.Oscar Model.OscarDoc Model.Jetscape Model.JetscapeDoc Proofs.C01_Oscar.
Import ListNotations.
Local Open Scope string_scope.

Section P.
  Variable tok_float : string -> option Q.
  Variable tok_int : string -> option Q.
  Variable pdg_valid : Q -> bool.
  Variable pdg_charge : Q -> Q.
  Variable usqrt : Q -> Q.
  Variable defstr : string.

  Notation MKJ := (mk_jet_particle tok_float tok_int pdg_valid pdg_charge usqrt).
  Notation jwf_row := (jwf_row tok_float tok_int pdg_valid pdg_charge usqrt defstr).
  Notation jwf_event := (jwf_event tok_float tok_int pdg_valid pdg_charge usqrt defstr).
  Notation jwf_events := (jwf_events tok_float tok_int pdg_valid pdg_charge usqrt defstr).
  Notation PARSE := (jparse_rows tok_float tok_int pdg_valid pdg_charge usqrt).
  Notation JSCAN := (jscan tok_int defstr).
  Notation JR := (jread tok_float tok_int pdg_valid pdg_charge usqrt None SelAll).

  (* ---------------------------------------------------------------- header scan *)
  Lemma jscan_rows rows rest : Forall jwf_row rows -> JSCAN (rows ++ rest)%list = JSCAN rest.
  Proof.
    induction 1 as [|r rows Hr _ IH]; [reflexivity|].
    destruct Hr as (Hc & _). cbn [app jscan]. unfold is_count_line in Hc. rewrite Hc. exact IH.
  Qed.

  Lemma jscan_events : forall evs i rest,
    jwf_events i evs ->
    JSCAN (jrender_events evs ++ rest)%list = (r <- JSCAN rest ;; Ok (jcounts_from i evs ++ r)%list).
  Proof.
    induction evs as [|e evs IH]; intros i rest H.
    - cbn. destruct (JSCAN rest); reflexivity.
    - destruct H as ((Hc & _ & _ & (lt & ct & H2 & H8 & Hl & Hn) & Hrows) & Ht).
      unfold jrender_events. cbn [flat_map]. fold (jrender_events evs).
      unfold jrender_event. rewrite <- app_assoc. cbn [app jscan].
      unfold is_count_line in Hc. rewrite Hc, H2, H8, Hl, Hn.
      rewrite jscan_rows by exact Hrows.
      rewrite (IH (S i) rest Ht). destruct (JSCAN rest); cbn [bind jcounts_from app]; [|reflexivity].
      reflexivity.
  Qed.

  (* ---------------------------------------------------------------- read loop *)
  Definition jadd_data (st : lstate) (ps : list particle) : lstate :=
    {| plist := plist st; data := (data st ++ ps)%list; counts := counts st; cut := cut st |}.

  Lemma jr_rows : forall rows n rest st,
    Forall jwf_row rows ->
    JR false (List.length rows + n) (rows ++ rest)%list st = JR false n rest (jadd_data st (PARSE rows)).
  Proof.
    induction rows as [|r rows IH]; intros n rest st H.
    - cbn [List.length Nat.add app jparse_rows]. unfold jadd_data. rewrite app_nil_r. destruct st; reflexivity.
    - inversion H as [|? ? Hr Hrs]; subst. destruct Hr as (_ & Ht & He & p & Hp).
      cbn [List.length Nat.add app jread jparse_rows].
      unfold is_trailer in Ht. unfold is_evhead in He. rewrite Ht, He, Hp. cbn [andb bind].
      rewrite IH by exact Hrs. f_equal. unfold jadd_data; cbn. rewrite <- app_assoc. reflexivity.
  Qed.

  Lemma jclose_none first st :
    jclose None first st = Ok {| plist := (plist st ++ [data st])%list; data := data st; counts := counts st; cut := cut st |}.
  Proof.
    unfold jclose. cbn [bind]. destruct (List.length (data st)) as [|k] eqn:E; cbn; reflexivity.
  Qed.

  (* events after the first one: each header closes the event before it *)
  Fixpoint jfold (pl : list (list particle)) (cur : list particle) (evs : list jevent) : list (list particle) * list particle :=
    match evs with
    | [] => (pl, cur)
    | e :: t => jfold (pl ++ [cur])%list (PARSE (je_rows e)) t
    end.

  Lemma jfold_all : forall evs pl cur,
    (fst (jfold pl cur evs) ++ [snd (jfold pl cur evs)])%list
    = (pl ++ [cur] ++ map (fun e => PARSE (je_rows e)) evs)%list.
  Proof.
    induction evs as [|e t IH]; intros pl cur; cbn [jfold fst snd map app]; [reflexivity|].
    rewrite IH. rewrite <- !app_assoc. reflexivity.
  Qed.

  Lemma jr_events : forall evs i n rest pl cur cnts c,
    jwf_events (S i) evs ->
    JR false (List.length (jrender_events evs) + n) (jrender_events evs ++ rest)%list
       {| plist := pl; data := cur; counts := cnts; cut := c |}
    = JR false n rest {| plist := fst (jfold pl cur evs); data := snd (jfold pl cur evs); counts := cnts; cut := c |}.
  Proof.
    induction evs as [|e evs IH]; intros i n rest pl cur cnts c H; [reflexivity|].
    destruct H as ((_ & Htr & Hev & (lt & ct & H2 & _ & Hl & _) & Hrows) & Ht).
    unfold jrender_events. cbn [flat_map]. fold (jrender_events evs).
    unfold jrender_event. rewrite <- app_assoc. cbn [app List.length]. rewrite app_length.
    match goal with |- jread _ _ _ _ _ _ _ _ ?k _ _ = _ =>
      replace k with (S (List.length (je_rows e) + (List.length (jrender_events evs) + n)))%nat by lia end.
    cbn [jread]. unfold is_trailer in Htr. unfold is_evhead in Hev. rewrite Htr, Hev, H2, Hl.
    cbn [andb first_header]. rewrite to_Z_zq.
    replace (Z.of_nat (S i) + 1 =? 1)%Z with false by (symmetry; apply Z.eqb_neq; lia).
    rewrite jclose_none. cbn [bind plist counts cut].
    rewrite jr_rows by exact Hrows.
    unfold jadd_data. cbn [plist data counts cut app].
    rewrite (IH (S i)) by exact Ht. reflexivity.
  Qed.

  (* ---------------------------------------------------------------- line arithmetic *)
  Lemma jcounts_len i evs : List.length (jcounts_from i evs) = List.length evs.
  Proof. revert i; induction evs as [|e t IH]; intros i; cbn; [reflexivity|now rewrite IH]. Qed.

  Lemma jread_all_lines : forall evs i,
    (fold_right (fun c acc => snd c + acc) 0 (jcounts_from i evs) + Z.of_nat (List.length (jcounts_from i evs)))%Z
    = Z.of_nat (List.length (jrender_events evs)).
  Proof.
    induction evs as [|e t IH]; intros i; [reflexivity|].
    unfold jrender_events. cbn [flat_map jcounts_from fold_right List.length snd]. fold (jrender_events t).
    rewrite app_length. unfold jrender_event. cbn [List.length]. specialize (IH (S i)). lia.
  Qed.

  Theorem jload_render d s1 s2 :
    jwf tok_float tok_int pdg_valid pdg_charge usqrt defstr d s1 s2 ->
    jload tok_float tok_int pdg_valid pdg_charge usqrt None (jrender d) defstr SelAll
    = Ok (jexpected tok_float tok_int pdg_valid pdg_charge usqrt d s1 s2).
  Proof.
    intros (Hh0 & Hne & Hev & Htr & Htc & Hsig).
    unfold jload, jrender.
    (* the last line is the trailer *)
    assert (Hl : last (jd_h0 d :: jrender_events (jd_events d) ++ [jd_trailer d])%list [] = jd_trailer d).
    { change (jd_h0 d :: jrender_events (jd_events d) ++ [jd_trailer d])%list
        with ((jd_h0 d :: jrender_events (jd_events d)) ++ [jd_trailer d])%list. apply last_last. }
    rewrite Hl. unfold is_trailer in Htr. apply andb_true_iff in Htr. destruct Htr as [Htr1 Htr2].
    rewrite Htr2. cbn [negb].
    (* header scan *)
    cbn [jscan]. unfold is_count_line in Hh0. rewrite Hh0.
    rewrite (jscan_events (jd_events d) 0 [jd_trailer d] Hev).
    cbn [jscan]. unfold is_count_line in Htc. rewrite Htc. cbn [jscan bind]. rewrite app_nil_r.
    cbn [jnum_skip jnum_read bind sel_first sel_counts].
    destruct (jcounts_from 0 (jd_events d)) eqn:Ec.
    { destruct (jd_events d); [congruence|discriminate]. }
    rewrite <- Ec. cbn [bind]. rewrite jread_all_lines.
    replace (Z.to_nat (Z.of_nat (List.length (jrender_events (jd_events d))) + 1))
      with (List.length (jrender_events (jd_events d)) + 1)%nat by lia.
    change (Z.to_nat 1) with 1%nat. cbn [skipn].
    (* first event: its header is the one that is skipped *)
    destruct (jd_events d) as [|e0 evs] eqn:Ed; [congruence|].
    destruct Hev as ((Hc0 & Ht0 & He0 & (lt & ct & H2 & _ & Hlt & _) & Hrows0) & Hrest).
    unfold jrender_events at 1 2. cbn [flat_map]. fold (jrender_events evs).
    unfold jrender_event at 1 2. rewrite <- !app_assoc. cbn [app List.length]. rewrite app_length.
    match goal with |- context [jread _ _ _ _ _ _ _ _ ?k _ _] =>
      replace k with (S (List.length (je_rows e0) + (List.length (jrender_events evs) + 1)))%nat by lia end.
    cbn [jread]. unfold is_trailer in Ht0. unfold is_evhead in He0. unfold is_count_line in Hc0.
    rewrite Ht0. apply andb_true_iff in Hc0. destruct Hc0 as [Hh _]. rewrite Hh. cbn [negb andb].
    rewrite He0, H2, Hlt. cbn [first_header]. rewrite to_Z_zq. cbn [Z.of_nat Z.add Z.eqb Pos.eqb].
    rewrite jr_rows by exact Hrows0. unfold jadd_data. cbn [plist data counts cut app].
    rewrite (jr_events evs 0 1 [jd_trailer d]) by exact Hrest.
    (* the trailer closes the last event *)
    cbn [jread]. rewrite Htr1, Htr2. cbn [andb]. rewrite jclose_none. cbn [bind plist data counts cut jread].
    rewrite jfold_all. cbn [app]. rewrite Z.sub_0_r.
    cbn [List.length]. rewrite map_length, jcounts_len.
    replace (Z.of_nat (S (List.length evs)) =? Z.of_nat (List.length (e0 :: evs)))%Z with true
      by (symmetry; apply Z.eqb_eq; reflexivity).
    cbn [bind fst snd]. rewrite Hsig.
    unfold jexpected. rewrite Ed. cbn [map List.length]. reflexivity.
  Qed.
End P.

(* C03: window limits that are an EXPLICIT infinite float.

   Proofs/C03_Window.v and C03_Event.v take a limit from [lim] = None | int | finite float.  A caller may also
   write float('inf') / float('-inf') / math.inf / numpy.inf (all of them the Python float inf) or hold a
   numpy.float64 infinity (e.g. the result of numpy arithmetic); it is what the filters turn None into.  The
   argument type [pyv] of Model/PyRt.v expresses these values already ([VFloat PInf], [VFloat NInf],
   [VNpFloat PInf], [VNpFloat NInf]); what was missing is the admissible-argument type.  [xlim] below extends
   [lim]:

     XL l             the limit l of FilterSpec.v (None, int, finite float)           Python: v_lim l
     XInf false true  float('inf')  = math.inf = numpy.inf   (type float)             [VFloat PInf]
     XInf false false float('-inf') = -math.inf = -numpy.inf (type float)             [VFloat NInf]
     XInf true  true  numpy.float64('inf')   (type numpy.float64, a subclass of float) [VNpFloat PInf]
     XInf true  false numpy.float64('-inf')                                           [VNpFloat NInf]

   The documented selection is the one of FilterSpec.v, [between] / [between_excl] on the extended line, with the
   limit VALUE of an infinite float being that infinity ([xlo_of], [xhi_of]); on [XL] limits the extended
   predicates are the ones of FilterSpec.v by computation ([xwindow_finite], [xwindow_num], [xmult_finite]).

   Every theorem is about the definitions of Gen/GenFilters.v (regenerated from Filter.py on every run), for all
   event lists and all particles (unset attributes = NaN, infinite quantities), under the same [no_raise]
   hypothesis as the finite theorems.  What the code REJECTS is proved with the exception class: a negative
   infinity in pT_cut / mT_cut / multiplicity_cut (ValueError, like every negative limit) and None next to an
   infinity in the three rapidity cuts (ValueError, like None next to any number). *)
From Coq Require Import List ZArith QArith Qabs Bool String Lia Lqa.
From SX Require Import Model.PyRt Model.FilterSpec Lib.PyRtLemmas Lib.FilterTac Gen.GenFilters Proofs.C03_Args.
Import ListNotations.

(* ------------------------------------------------------------------ extended limits *)
Inductive xlim := XL (l : lim) | XInf (np pos : bool).
Definition inf_val (pos : bool) : Fval := if pos then PInf else NInf.
Definition v_xlim (l : xlim) : pyv :=
  match l with
  | XL l => v_lim l
  | XInf np pos => if np then VNpFloat (inf_val pos) else VFloat (inf_val pos)
  end.
Definition xlim_val (l : xlim) : option Fval :=
  match l with XL l => lim_val l | XInf _ pos => Some (inf_val pos) end.
Definition xlo_of (l : xlim) : Fval := match xlim_val l with Some v => v | None => NInf end.
Definition xhi_of (l : xlim) : Fval := match xlim_val l with Some v => v | None => PInf end.

(* admissibility: "set" = not None; "non-negative" = what pT / mT / multiplicity demand of a limit *)
Definition xlim_set (l : xlim) : Prop := match l with XL l => l <> LNone | XInf _ _ => True end.
Definition xlim_nonneg (l : xlim) : Prop := match l with XL l => lim_nonneg l | XInf _ pos => pos = true end.
Definition xlim_inf (l : xlim) : Prop := match l with XL _ => False | XInf _ _ => True end.

(* the documented predicates with extended limits *)
Definition xwindow (a : acc) (lo hi : xlim) (p : pobs) : bool := between (xlo_of lo) (xhi_of hi) (oval p a).
Definition xwindow_sym (a : acc) (pos : bool) (p : pobs) : bool :=
  between (fneg (inf_val pos)) (inf_val pos) (oval p a).
Definition xmult (lo hi : xlim) (ev : pevent) : bool :=
  between_excl (xlo_of lo) (xhi_of hi) (fofZ (Z.of_nat (List.length ev))).

Definition xspec_pT_cut (evs : plist) (lo hi : xlim) := particle_level (xwindow M_pT_abs lo hi) evs.
Definition xspec_mT_cut (evs : plist) (lo hi : xlim) := particle_level (xwindow M_mT lo hi) evs.
Definition xspec_spacetime_cut (evs : plist) (d : dim) (lo hi : xlim) := particle_level (xwindow (dim_acc d) lo hi) evs.
Definition xspec_rapidity_cut (evs : plist) (c1 c2 : xlim) := particle_level (xwindow M_rapidity c1 c2) evs.
Definition xspec_pseudorapidity_cut (evs : plist) (c1 c2 : xlim) := particle_level (xwindow M_pseudorapidity c1 c2) evs.
Definition xspec_spacetime_rapidity_cut (evs : plist) (c1 c2 : xlim) :=
  particle_level (xwindow M_spacetime_rapidity c1 c2) evs.
Definition xspec_multiplicity_cut (evs : plist) (lo hi : xlim) := event_level (xmult lo hi) evs.

(* on the limits of FilterSpec.v these ARE the predicates of FilterSpec.v *)
Lemma xwindow_finite a lo hi p : xwindow a (XL lo) (XL hi) p = window a lo hi p.
Proof. reflexivity. Qed.
Lemma xwindow_num a c1 c2 p : xwindow a (XL (lim_of_num c1)) (XL (lim_of_num c2)) p = window2 a c1 c2 p.
Proof. destruct c1, c2; reflexivity. Qed.
Lemma xmult_finite evs lo hi : xspec_multiplicity_cut evs (XL lo) (XL hi) = spec_multiplicity_cut evs lo hi.
Proof. reflexivity. Qed.
(* an infinite float as a limit VALUE is what None stands for on that side *)
Lemma xinf_is_none np : xhi_of (XInf np true) = hi_of LNone /\ xlo_of (XInf np false) = lo_of LNone.
Proof. split; reflexivity. Qed.
(* NaN never passes *)
Lemma xwindow_nan a lo hi p : oval p a = NaN -> xwindow a lo hi p = false.
Proof.
  unfold xwindow, between. intros ->.
  destruct (xlo_of lo), (xhi_of hi); reflexivity.
Qed.
(* a window with an infinite limit on one side is the one-sided comparison *)
Lemma xwindow_upper_inf a lo np p : xlim_set lo ->
  xwindow a lo (XInf np true) p = fle (xlo_of lo) (oval p a).
Proof.
  unfold xwindow, between, xhi_of, xlim_val, inf_val. intros Hs.
  destruct lo as [[|z|q]|nl [|]]; simpl in Hs; try congruence; unfold xlo_of, xlim_val, lim_val, inf_val;
    destruct (oval p a); simpl; rewrite ?andb_true_r, ?andb_false_r, ?orb_false_r; reflexivity.
Qed.
Lemma xwindow_lower_inf a hi np p : xlim_set hi ->
  xwindow a (XInf np false) hi p = fle (oval p a) (xhi_of hi).
Proof.
  unfold xwindow, between, xlo_of, xlim_val, inf_val. intros Hs.
  destruct hi as [[|z|q]|nl [|]]; simpl in Hs; try congruence; unfold xhi_of, xlim_val, lim_val, inf_val;
    destruct (oval p a); simpl; rewrite ?andb_true_r, ?andb_false_r, ?orb_false_r; reflexivity.
Qed.

(* ------------------------------------------------------------------ the limit validation *)
(* it accepts an infinite float wherever it accepts a number (limits in the "wrong" order only warn) *)
Lemma ensure_tuple_inf_ok a b an :
  (an = false -> xlim_set a /\ xlim_set b) -> (xlim_set a \/ xlim_set b) ->
  gen_ensure_tuple_is_valid_else_raise_error (v_pair (v_xlim a) (v_xlim b)) (VBool an) = Ok VNone.
Proof.
  intros H1 H2.
  destruct a as [a|na pa], b as [b|nb pb].
  - apply ensure_tuple_ok; simpl in *; assumption.
  - unfold gen_ensure_tuple_is_valid_else_raise_error, v_pair.
    destruct a, nb, pb; simpl.
    all: destruct an; simpl.
    all: try (exfalso; destruct (H1 eq_refl) as [Ha _]; simpl in Ha; congruence).
    all: reflexivity.
  - unfold gen_ensure_tuple_is_valid_else_raise_error, v_pair.
    destruct b, na, pa; simpl.
    all: destruct an; simpl.
    all: try (exfalso; destruct (H1 eq_refl) as [_ Hb]; simpl in Hb; congruence).
    all: reflexivity.
  - unfold gen_ensure_tuple_is_valid_else_raise_error, v_pair.
    destruct na, pa, nb, pb, an; reflexivity.
Qed.

(* None next to an infinity where None is not allowed (the rapidity cuts): ValueError *)
Lemma ensure_tuple_inf_none_not_allowed np pos :
  gen_ensure_tuple_is_valid_else_raise_error (v_pair VNone (v_xlim (XInf np pos))) (VBool false) = Err ValueError /\
  gen_ensure_tuple_is_valid_else_raise_error (v_pair (v_xlim (XInf np pos)) VNone) (VBool false) = Err ValueError.
Proof. destruct np, pos; split; reflexivity. Qed.

Theorem rapidity_cuts_inf_none_rejected evs np pos :
  gen_rapidity_cut evs (v_pair VNone (v_xlim (XInf np pos))) = Err ValueError /\
  gen_rapidity_cut evs (v_pair (v_xlim (XInf np pos)) VNone) = Err ValueError /\
  gen_pseudorapidity_cut evs (v_pair VNone (v_xlim (XInf np pos))) = Err ValueError /\
  gen_pseudorapidity_cut evs (v_pair (v_xlim (XInf np pos)) VNone) = Err ValueError /\
  gen_spacetime_rapidity_cut evs (v_pair VNone (v_xlim (XInf np pos))) = Err ValueError /\
  gen_spacetime_rapidity_cut evs (v_pair (v_xlim (XInf np pos)) VNone) = Err ValueError.
Proof. destruct np, pos; repeat split; reflexivity. Qed.

#[local] Opaque gen_ensure_tuple_is_valid_else_raise_error.

(* ------------------------------------------------------------------ inclusive windows *)
Ltac xunfold := unfold xwindow, xmult, xwindow_sym, xlo_of, xhi_of, xlim_val, inf_val.

(* pT, mT: (lo, hi), None = unbounded, limits non-negative (so an infinite limit is +inf) *)
Ltac xlim_window gen spec :=
  let Hs := fresh "Hs" in let Hlo := fresh "Hlo" in let Hhi := fresh "Hhi" in let Hnr := fresh "Hnr" in
  intros evs lo hi Hs Hlo Hhi Hnr;
  unfold gen, spec, particle_level;
  (rewrite ensure_tuple_inf_ok by (auto; discriminate));
  unfold v_pair;
  destruct lo as [[|zl|ql]|nl pl], hi as [[|zh|qh]|nh ph]; simpl in Hs, Hlo, Hhi; subst;
  try (exfalso; destruct Hs; congruence);
  try destruct nl; try destruct nh;
  xunfold; simpl in *;
  qcases; try qdone;
  append_loop Hnr.

Theorem pT_cut_inf_ok : forall evs lo hi,
  (xlim_set lo \/ xlim_set hi) -> xlim_nonneg lo -> xlim_nonneg hi -> no_raise [M_pT_abs] evs ->
  gen_pT_cut evs (v_pair (v_xlim lo) (v_xlim hi)) = Ok (xspec_pT_cut evs lo hi).
Proof. xlim_window gen_pT_cut xspec_pT_cut. Qed.

Theorem mT_cut_inf_ok : forall evs lo hi,
  (xlim_set lo \/ xlim_set hi) -> xlim_nonneg lo -> xlim_nonneg hi -> no_raise [M_mT] evs ->
  gen_mT_cut evs (v_pair (v_xlim lo) (v_xlim hi)) = Ok (xspec_mT_cut evs lo hi).
Proof. xlim_window gen_mT_cut xspec_mT_cut. Qed.

(* t, x, y, z: any sign *)
Theorem spacetime_cut_inf_ok : forall evs d lo hi,
  (xlim_set lo \/ xlim_set hi) -> no_raise [dim_acc d] evs ->
  gen_spacetime_cut evs (v_dim d) (v_pair (v_xlim lo) (v_xlim hi)) = Ok (xspec_spacetime_cut evs d lo hi).
Proof.
  intros evs d lo hi Hs Hnr.
  unfold gen_spacetime_cut, xspec_spacetime_cut, particle_level.
  rewrite ensure_tuple_inf_ok by (auto; discriminate).
  unfold v_pair, py_not_in, py_in.
  destruct d; destruct lo as [[|zl|ql]|[|] [|]], hi as [[|zh|qh]|[|] [|]]; simpl in Hs.
  all: try (exfalso; destruct Hs; congruence).
  all: xunfold; simpl in *.
  all: qcases; try qdone.
  all: append_loop Hnr.
Qed.

(* rapidity, pseudorapidity, space-time rapidity: (c1, c2), both set, either order *)
Ltac xnum_window gen spec :=
  let H1 := fresh "H1" in let H2 := fresh "H2" in let Hnr := fresh "Hnr" in
  intros evs c1 c2 H1 H2 Hnr; unfold gen, spec, particle_level;
  (rewrite (ensure_tuple_inf_ok c1 c2 false) by (intros; auto));
  unfold v_pair;
  destruct c1 as [[|z1|q1]|n1 p1], c2 as [[|z2|q2]|n2 p2];
  simpl in H1, H2; try congruence;
  try destruct n1; try destruct p1; try destruct n2; try destruct p2;
  xunfold; simpl in *;
  qcases; try qdone;
  append_loop Hnr.

Theorem rapidity_cut_inf_ok : forall evs c1 c2, xlim_set c1 -> xlim_set c2 -> no_raise [M_rapidity] evs ->
  gen_rapidity_cut evs (v_pair (v_xlim c1) (v_xlim c2)) = Ok (xspec_rapidity_cut evs c1 c2).
Proof. xnum_window gen_rapidity_cut xspec_rapidity_cut. Qed.
Theorem pseudorapidity_cut_inf_ok : forall evs c1 c2, xlim_set c1 -> xlim_set c2 -> no_raise [M_pseudorapidity] evs ->
  gen_pseudorapidity_cut evs (v_pair (v_xlim c1) (v_xlim c2)) = Ok (xspec_pseudorapidity_cut evs c1 c2).
Proof. xnum_window gen_pseudorapidity_cut xspec_pseudorapidity_cut. Qed.
Theorem spacetime_rapidity_cut_inf_ok : forall evs c1 c2, xlim_set c1 -> xlim_set c2 ->
  no_raise [M_spacetime_rapidity] evs ->
  gen_spacetime_rapidity_cut evs (v_pair (v_xlim c1) (v_xlim c2)) = Ok (xspec_spacetime_rapidity_cut evs c1 c2).
Proof. xnum_window gen_spacetime_rapidity_cut xspec_spacetime_rapidity_cut. Qed.

(* a single infinite number c: the window [-|c|, |c|] = the whole line; only NaN is dropped *)
Ltac xsym_window gen :=
  let Hnr := fresh "Hnr" in
  intros evs np pos Hnr; unfold gen, particle_level;
  destruct np, pos; xunfold; simpl;
  append_loop Hnr.

Theorem rapidity_cut_sym_inf_ok : forall evs np pos, no_raise [M_rapidity] evs ->
  gen_rapidity_cut evs (v_xlim (XInf np pos)) = Ok (particle_level (xwindow_sym M_rapidity pos) evs).
Proof. xsym_window gen_rapidity_cut. Qed.
Theorem pseudorapidity_cut_sym_inf_ok : forall evs np pos, no_raise [M_pseudorapidity] evs ->
  gen_pseudorapidity_cut evs (v_xlim (XInf np pos)) = Ok (particle_level (xwindow_sym M_pseudorapidity pos) evs).
Proof. xsym_window gen_pseudorapidity_cut. Qed.
Theorem spacetime_rapidity_cut_sym_inf_ok : forall evs np pos, no_raise [M_spacetime_rapidity] evs ->
  gen_spacetime_rapidity_cut evs (v_xlim (XInf np pos)) =
  Ok (particle_level (xwindow_sym M_spacetime_rapidity pos) evs).
Proof. xsym_window gen_spacetime_rapidity_cut. Qed.
Lemma xwindow_sym_all a pos p : xwindow_sym a pos p = negb (fisnan (oval p a)).
Proof. unfold xwindow_sym, between. destruct pos, (oval p a); reflexivity. Qed.

(* ------------------------------------------------------------------ multiplicity window [min, max) *)
Theorem multiplicity_cut_inf_ok : forall evs lo hi,
  (xlim_set lo \/ xlim_set hi) -> xlim_nonneg lo -> xlim_nonneg hi ->
  gen_multiplicity_cut evs (v_pair (v_xlim lo) (v_xlim hi)) = Ok (xspec_multiplicity_cut evs lo hi).
Proof.
  intros evs lo hi Hs Hlo Hhi.
  unfold gen_multiplicity_cut, xspec_multiplicity_cut.
  rewrite ensure_tuple_inf_ok by (auto; discriminate).
  unfold v_pair.
  destruct lo as [[|zl|ql]|[|] pl], hi as [[|zh|qh]|[|] ph]; simpl in Hs, Hlo, Hhi; subst.
  all: try (exfalso; destruct Hs; congruence).
  all: simpl in *.
  all: qcases; try qdone.
  all: match goal with |- _ = Ok (event_level ?keep _) => rewrite (enum_loop_spec _ keep) end.
  all: try (simpl; rewrite pick_kept; simpl; unfold event_level;
            match goal with |- context [filter ?f ?e] => destruct (filter f e); reflexivity end).
  all: intros idxs k ev Hk; unfold vnat, xmult, between_excl, xlo_of, xhi_of, xlim_val, lim_val, inf_val, vlen;
       simpl; qcases; qdone.
Qed.

(* ------------------------------------------------------------------ what is rejected *)
(* pT, mT, multiplicity: a negative infinity is a negative limit - ValueError whatever the other limit is *)
Ltac neginf_rejects gen :=
  intros evs np other; unfold gen; split;
  (rewrite ensure_tuple_inf_ok by (try (intros; discriminate); simpl; tauto));
  unfold v_pair; destruct np; destruct other as [[|z|q]|no [|]]; try destruct no; simpl; qcases; qdone.

Theorem pT_cut_neginf_rejected : forall evs np other,
  gen_pT_cut evs (v_pair (v_xlim (XInf np false)) (v_xlim other)) = Err ValueError /\
  gen_pT_cut evs (v_pair (v_xlim other) (v_xlim (XInf np false))) = Err ValueError.
Proof. neginf_rejects gen_pT_cut. Qed.
Theorem mT_cut_neginf_rejected : forall evs np other,
  gen_mT_cut evs (v_pair (v_xlim (XInf np false)) (v_xlim other)) = Err ValueError /\
  gen_mT_cut evs (v_pair (v_xlim other) (v_xlim (XInf np false))) = Err ValueError.
Proof. neginf_rejects gen_mT_cut. Qed.
Theorem multiplicity_cut_neginf_rejected : forall evs np other,
  gen_multiplicity_cut evs (v_pair (v_xlim (XInf np false)) (v_xlim other)) = Err ValueError /\
  gen_multiplicity_cut evs (v_pair (v_xlim other) (v_xlim (XInf np false))) = Err ValueError.
Proof. neginf_rejects gen_multiplicity_cut. Qed.

(* ------------------------------------------------------------------ an explicit infinity = the None it stands for *)
Theorem inf_limit_as_none : forall evs lo np, lo <> LNone ->
  (lim_nonneg lo -> no_raise [M_pT_abs] evs ->
     gen_pT_cut evs (v_pair (v_lim lo) (v_xlim (XInf np true))) = gen_pT_cut evs (v_pair (v_lim lo) VNone)) /\
  (lim_nonneg lo -> no_raise [M_mT] evs ->
     gen_mT_cut evs (v_pair (v_lim lo) (v_xlim (XInf np true))) = gen_mT_cut evs (v_pair (v_lim lo) VNone)) /\
  (lim_nonneg lo ->
     gen_multiplicity_cut evs (v_pair (v_lim lo) (v_xlim (XInf np true))) =
     gen_multiplicity_cut evs (v_pair (v_lim lo) VNone)) /\
  (forall d, no_raise [dim_acc d] evs ->
     gen_spacetime_cut evs (v_dim d) (v_pair (v_lim lo) (v_xlim (XInf np true))) =
     gen_spacetime_cut evs (v_dim d) (v_pair (v_lim lo) VNone) /\
     gen_spacetime_cut evs (v_dim d) (v_pair (v_xlim (XInf np false)) (v_lim lo)) =
     gen_spacetime_cut evs (v_dim d) (v_pair VNone (v_lim lo))).
Proof.
  intros evs lo np Hs. repeat split.
  - intros Hlo Hnr. change (v_lim lo) with (v_xlim (XL lo)). change VNone with (v_xlim (XL LNone)).
    rewrite !pT_cut_inf_ok; simpl; auto.
  - intros Hlo Hnr. change (v_lim lo) with (v_xlim (XL lo)). change VNone with (v_xlim (XL LNone)).
    rewrite !mT_cut_inf_ok; simpl; auto.
  - intros Hlo. change (v_lim lo) with (v_xlim (XL lo)). change VNone with (v_xlim (XL LNone)).
    rewrite !multiplicity_cut_inf_ok; simpl; auto.
  - change (v_lim lo) with (v_xlim (XL lo)). change VNone with (v_xlim (XL LNone)).
    rewrite !spacetime_cut_inf_ok; simpl; auto.
  - change (v_lim lo) with (v_xlim (XL lo)). change VNone with (v_xlim (XL LNone)).
    rewrite !spacetime_cut_inf_ok; simpl; auto.
Qed.

(* ------------------------------------------------------------------ non-vacuity (the inputs of the real-code replay) *)
(* a particle with identity i whose pT / t / rapidity accessors returned v and whose other quantities are unset *)
Definition ex_q (i : Z) (v : Fval) : pobs :=
  mkP i (fun a => match a with M_pT_abs | A_t | M_rapidity => Ret v | _ => Ret NaN end).
Definition ex_evs : plist :=
  [[ex_q 1 (Fin 0); ex_q 2 (Fin 1); ex_q 3 (Fin 3); ex_q 4 NaN; ex_q 5 PInf; ex_q 7 NInf]; []; [ex_q 6 (Fin (1 # 2))]].
Definition ids (r : result plist) : option (list (list Z)) :=
  match r with Ok out => Some (map (map pid) out) | Err _ => None end.

Lemma example_inf_limits :
  ids (gen_pT_cut ex_evs (VTuple [VFloat (Fin (1 # 2)); VFloat PInf])) = Some [[2; 3; 5]; []; [6]]%Z /\
  ids (gen_pT_cut ex_evs (VTuple [VFloat PInf; VFloat (Fin (1 # 2))])) = Some [[2; 3; 5]; []; [6]]%Z /\
  ids (gen_pT_cut ex_evs (VTuple [VFloat PInf; VNone])) = Some [[5]; []; []]%Z /\
  ids (gen_pT_cut ex_evs (VTuple [VNpFloat PInf; VFloat PInf])) = Some [[5]; []; []]%Z /\
  gen_pT_cut ex_evs (VTuple [VNone; VFloat NInf]) = Err ValueError /\
  ids (gen_spacetime_cut ex_evs (VStr "t") (VTuple [VFloat NInf; VInt 1])) = Some [[1; 2; 7]; []; [6]]%Z /\
  ids (gen_spacetime_cut ex_evs (VStr "t") (VTuple [VFloat PInf; VFloat NInf])) = Some [[1; 2; 3; 5; 7]; []; [6]]%Z /\
  ids (gen_spacetime_cut ex_evs (VStr "t") (VTuple [VNone; VFloat NInf])) = Some [[7]; []; []]%Z /\
  ids (gen_rapidity_cut ex_evs (VTuple [VFloat NInf; VFloat (Fin 1)])) = Some [[1; 2; 7]; []; [6]]%Z /\
  ids (gen_rapidity_cut ex_evs (VFloat NInf)) = Some [[1; 2; 3; 5; 7]; []; [6]]%Z /\
  gen_rapidity_cut ex_evs (VTuple [VFloat NInf; VNone]) = Err ValueError /\
  ids (gen_multiplicity_cut ex_evs (VTuple [VFloat PInf; VInt 1])) = Some [[1; 2; 3; 4; 5; 7]; [6]]%Z /\
  ids (gen_multiplicity_cut ex_evs (VTuple [VFloat PInf; VNone])) = Some [[]]%Z /\
  gen_multiplicity_cut ex_evs (VTuple [VFloat NInf; VFloat PInf]) = Err ValueError.
Proof. vm_compute. repeat split. Qed.

(* C07: a byte-level truncation of a rendered file is one of the token-level cuts the truncation theorems
   quantify over. *)
From Coq Require Import List String Ascii Bool Arith Lia.
From SX Require Import Lib.Strs Lib.StrLemmas Lib.Split Lib.DecStr Lib.CutSplit Model.Oscar Model.C07Aux.
Import ListNotations.
Local Open Scope string_scope.

Definition line_ok (l : line) : Prop := l <> [] /\ forallb (fun t => no_char sp t && no_char nl t) l = true.

Lemma line_ok_sp l : line_ok l -> forallb (no_char sp) l = true.
Proof.
  intros (_ & H). rewrite forallb_forall in *. intros t Ht. specialize (H t Ht).
  apply andb_true_iff in H. tauto.
Qed.
Lemma line_ok_nl l : line_ok l -> no_char nl (join sp l) = true.
Proof.
  intros (_ & H). apply no_char_join; [discriminate|]. rewrite forallb_forall in *. intros t Ht.
  specialize (H t Ht). apply andb_true_iff in H. tauto.
Qed.

Lemma file_text_join lines : file_text lines = join nl (map (join sp) lines ++ [""]).
Proof.
  induction lines as [|l t IH]; [reflexivity|]. cbn [file_text map app]. rewrite IH.
  destruct (map (join sp) t ++ [""])%list eqn:E; [destruct (map (join sp) t); discriminate|]. reflexivity.
Qed.

Lemma map_split_join lines : Forall line_ok lines -> map (split_on sp) (map (join sp) lines) = lines.
Proof.
  induction 1 as [|l t Hl _ IH]; [reflexivity|]. cbn [map]. rewrite IH. f_equal.
  apply split_join; [apply Hl|apply line_ok_sp, Hl].
Qed.

Lemma firstn_map_app {A B} (f : A -> B) (l : list A) (x : B) n :
  (n <= List.length l)%nat -> firstn n (map f l ++ [x]) = map f (firstn n l).
Proof.
  intros H. rewrite firstn_app, map_length. replace (n - List.length l)%nat with 0%nat by lia.
  rewrite firstn_O, app_nil_r. apply firstn_map.
Qed.

Theorem cut_bytes_are_token_cuts (lines : list line) (P : string) :
  Forall (fun l => l <> [] /\ forallb (fun t => no_char sp t && no_char nl t) l = true) lines ->
  prefix P (file_text lines) = true -> P <> "" ->
  exists n c, (n <= List.length lines)%nat /\ valid_partial (nth n lines []) c /\
              lines_seen P = cut_lines lines n c /\
              ends_with_newline c = string_ends_with_newline P.
Proof.
  intros Hok Hp HP. fold line_ok in Hok. unfold line in *.
  rewrite file_text_join in Hp.
  assert (Hall : forallb (no_char nl) (map (join sp) lines ++ [""]) = true).
  { rewrite forallb_app. cbn [forallb]. rewrite andb_true_r. rewrite forallb_forall. intros s Hs.
    apply in_map_iff in Hs. destruct Hs as (l & <- & Hl). rewrite Forall_forall in Hok. apply line_ok_nl, Hok, Hl. }
  destruct (split_prefix_join nl (map (join sp) lines ++ [""]) P ltac:(destruct (map (join sp) lines); discriminate) Hall Hp)
    as (n & q & Hn & Hq & Hs & _).
  rewrite app_length, map_length in Hn. cbn [List.length] in Hn.
  assert (Hnle : (n <= List.length lines)%nat) by (unfold line in *; lia).
  rewrite (firstn_map_app (join sp) lines "" n Hnle) in Hs.
  unfold lines_seen, string_ends_with_newline. rewrite Hs, last_last.
  destruct q as [|c0 q0] eqn:Eq.
  - (* P ends with a newline *)
    exists n, None. split; [exact Hnle|]. split; [exact I|]. cbn [String.eqb]. split; [|reflexivity].
    rewrite removelast_last. cbn [cut_lines].
    rewrite <- firstn_map. rewrite <- (firstn_map (split_on sp)). rewrite (map_split_join lines Hok). reflexivity.
  - rewrite <- Eq in *. assert (Hqne : q <> "") by (rewrite Eq; discriminate).
    assert (Hlt : (n < List.length lines)%nat).
    { destruct (lt_dec n (List.length lines)); [assumption|]. assert (n = List.length lines) by lia. subst n.
      rewrite app_nth2 in Hq by (rewrite map_length; lia). rewrite map_length, Nat.sub_diag in Hq. cbn [nth] in Hq.
      destruct q; [congruence|discriminate]. }
    rewrite app_nth1 in Hq by (rewrite map_length; exact Hlt).
    change "" with (join sp []) in Hq. rewrite map_nth in Hq.
    assert (Hl : line_ok (nth n lines [])) by (rewrite Forall_forall in Hok; apply Hok, nth_In, Hlt).
    destruct (split_prefix_join sp (nth n lines []) q (proj1 Hl) (line_ok_sp _ Hl) Hq) as (j & p & Hj & Hpj & Hsq & Hne0).
    exists n, (Some (j, p)). split; [exact Hnle|]. split; [split; [exact Hj|split; [exact Hpj|exact (Hne0 Hqne)]]|].
    assert (Eb : (q =? "") = false) by (destruct (String.eqb_spec q ""); [contradiction|reflexivity]).
    rewrite Eb. split; [|reflexivity]. cbn [cut_lines]. rewrite map_app. cbn [map]. rewrite Hsq.
    rewrite <- firstn_map. rewrite <- (firstn_map (split_on sp)). rewrite (map_split_join lines Hok). reflexivity.
Qed.

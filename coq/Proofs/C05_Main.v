(* C05: constructor filters = filter methods, for the three storer classes *)
From Coq Require Import List ZArith QArith Bool String Lia.
From SX Require Import Model.PyRt Model.FilterSpec Model.CtorFilters Lib.PyRtLemmas Lib.FilterTac
  Gen.GenFilters Gen.GenDispatch
  Proofs.C05_Tables Proofs.C05_Tables_Oscar Proofs.C05_Tables_Jetscape Proofs.C05_Tables_PObj
  Proofs.C05_Abstract Proofs.C05_Link.
Import ListNotations.
Local Notation length := List.length.

Definition zlen (e : list pobs) : Z := Z.of_nat (length e).
Definition positive_counts (l : list Z) : list Z := filter (fun n => negb (Z.eqb n 0)) l.

Section Equiv.
  Variable arity : string -> option nat.
  Variable method : string -> list pyv -> list (list pobs) -> result (list (list pobs)).
  Hypothesis T : table_from_base arity method.
  Variable apply : list (list pobs) -> pyv -> result (list (list pobs)).
  Hypothesis apply_spec : forall d ev, NoDup (map fst d) -> spacetime_ok d ->
    apply ev (VDict d) = ctor_spec arity method d ev.

  Lemma kept_nonempty ops evs : nonempty (kept_events ops evs) = nonempty (abs_file_loader ops evs).
  Proof. unfold abs_file_loader, kept_events. destruct (flat_map _ evs); reflexivity. Qed.

  Theorem equiv_file cs evs :
    Forall admissible cs -> Forall (available arity) cs -> keys_distinct cs -> obs_total evs ->
    exists ctor counts meth,
      file_loader (fun ev => apply ev (VDict (dict_of cs))) evs = Ok (ctor, counts) /\
      method_path arity method (dict_of cs) evs = Ok meth /\
      nonempty ctor = nonempty meth /\
      positive_counts counts = map zlen (nonempty meth).
  Proof.
    intros A Av N H.
    eexists _, _, _. split; [apply (file_loader_ops arity method T apply apply_spec); assumption|].
    split; [apply (method_path_ops arity method T); assumption|].
    split; [apply abs_equiv_file|].
    unfold positive_counts, zlen.
    rewrite <- (nonempty_counts (kept_events (map call_op cs) evs)).
    rewrite kept_nonempty, abs_equiv_file. reflexivity.
  Qed.

  Theorem equiv_pobj cs evs :
    Forall admissible cs -> Forall (available arity) cs -> keys_distinct cs -> obs_total evs ->
    exists ctor counts meth,
      pobj_loader (fun ev => apply ev (VDict (dict_of cs))) evs = Ok (ctor, counts) /\
      method_path arity method (dict_of cs) evs = Ok meth /\
      nonempty ctor = nonempty meth /\
      positive_counts counts = map zlen (nonempty meth).
  Proof.
    intros A Av N H.
    eexists _, _, _. split; [apply (pobj_loader_ops arity method T apply apply_spec); assumption|].
    split; [apply (method_path_ops arity method T); assumption|].
    split; [apply abs_equiv_pobj|].
    unfold positive_counts, zlen.
    rewrite <- (nonempty_counts (abs_pobj_loader (map call_op cs) evs)).
    rewrite abs_equiv_pobj. reflexivity.
  Qed.

  (* a switch that is False has no effect, wherever it stands in the dictionary *)
  Lemma fold_leftM_app {S A} (f : S -> A -> result S) l1 l2 s :
    fold_leftM f (l1 ++ l2) s = bind (fold_leftM f l1 s) (fold_leftM f l2).
  Proof.
    revert s. induction l1 as [|x t IH]; intros s; [reflexivity|].
    cbn [app fold_leftM]. destruct (f s x); [apply IH|reflexivity].
  Qed.
  Theorem false_switch d1 d2 k ev : arity k = Some 0%nat ->
    ctor_spec arity method (d1 ++ (k, VBool false) :: d2) ev = ctor_spec arity method (d1 ++ d2) ev.
  Proof.
    intros H. unfold ctor_spec. rewrite !fold_leftM_app.
    destruct (fold_leftM _ d1 ev) as [s|e]; [|reflexivity]. cbn [bind fold_leftM fst snd].
    unfold entry at 1. rewrite H. reflexivity.
  Qed.

  (* an unknown filter name is rejected: the constructor never succeeds *)
  Theorem unknown_key d ev k : In k (map fst d) -> arity k = None ->
    forall r, ctor_spec arity method d ev <> Ok r.
  Proof.
    intros Hin Hk. unfold ctor_spec. revert ev. induction d as [|[k' v] t IH]; intros ev r; [contradiction|].
    cbn [fold_leftM fst snd]. cbn [map fst In] in Hin. destruct Hin as [->|Hin].
    - unfold entry. rewrite Hk. discriminate.
    - destruct (entry arity method k' v ev) as [s|e]; [apply IH; exact Hin|discriminate].
  Qed.
  Theorem unknown_key_first d ev k v : arity k = None ->
    ctor_spec arity method ((k, v) :: d) ev = Err ValueError.
  Proof. intros Hk. unfold ctor_spec. cbn [fold_leftM fst snd]. unfold entry. rewrite Hk. reflexivity. Qed.
End Equiv.

(* ---- the key sets: the dispatch chain of a loader accepts exactly the filter methods of its storer class *)
Definition same_strings (a b : list string) : bool :=
  forallb (fun k => existsb (String.eqb k) b) a && forallb (fun k => existsb (String.eqb k) a) b.
Definition all_have_arity (arity : string -> option nat) (l : list string) : bool :=
  forallb (fun k => match arity k with Some _ => true | None => false end) l.

Lemma keys_Oscar : same_strings gen_dispatch_keys_Oscar gen_filter_methods_Oscar = true /\
                   all_have_arity gen_arity_Oscar gen_dispatch_keys_Oscar = true.
Proof. split; vm_compute; reflexivity. Qed.
Lemma keys_Jetscape : same_strings gen_dispatch_keys_Jetscape gen_filter_methods_Jetscape = true /\
                      all_have_arity gen_arity_Jetscape gen_dispatch_keys_Jetscape = true.
Proof. split; vm_compute; reflexivity. Qed.
Lemma keys_PObj : same_strings gen_dispatch_keys_PObj gen_filter_methods_PObj = true /\
                  all_have_arity gen_arity_PObj gen_dispatch_keys_PObj = true.
Proof. split; vm_compute; reflexivity. Qed.

(* anything that is not a (non-empty) dictionary: no filtering *)
Lemma not_a_dict ev v : py_isinstance v [T_dict] = false ->
  gen_apply_kwargs_Oscar ev v = Ok ev /\ gen_apply_kwargs_Jetscape ev v = Ok ev /\ gen_apply_kwargs_PObj ev v = Ok ev.
Proof.
  intros H. unfold gen_apply_kwargs_Oscar, gen_apply_kwargs_Jetscape, gen_apply_kwargs_PObj.
  rewrite H. repeat split; reflexivity.
Qed.

(* data of the non-vacuity example in Properties/C05.v *)
Definition ex5 (i : Z) (ch : Z) : pobs :=
  mkP i (fun a => match a with A_charge => Ret (fofZ ch) | _ => Ret NaN end).
Definition ex5_dict : list (string * pyv) :=
  [("charged_particles", VBool true); ("keep_hadrons", VBool false);
   ("multiplicity_cut", VTuple [VInt 1; VNone])]%string.
Definition ex5_evs : list (list pobs) := [[ex5 1 1; ex5 2 0]; [ex5 3 0]; []; [ex5 4 (-1)]].
Lemma example_ctor_vs_methods :
  match file_loader (fun ev => gen_apply_kwargs_Oscar ev (VDict ex5_dict)) ex5_evs,
        method_path gen_arity_Oscar gen_method_Oscar ex5_dict ex5_evs with
  | Ok (ctor, counts), Ok meth =>
      map (map pid) ctor = [[1]; []; [4]]%Z /\ map (map pid) meth = [[1]; [4]]%Z /\ counts = [1; 0; 1]%Z
  | _, _ => False
  end.
Proof. vm_compute. repeat split; reflexivity. Qed.

import glob, importlib, os, sys
sys.path.insert(0, os.path.dirname(os.path.abspath(__file__)))
import common as C
mods = set()
for p in sorted(glob.glob(os.path.join(C.VERIF, "harness", "props", "c*.py"))):
    src = open(p).read()
    import ast
    for n in ast.parse(src).body:
        if isinstance(n, ast.Assign) and getattr(n.targets[0], "id", None) == "GEN":
            mods |= set(ast.literal_eval(n.value))
errs = C.regenerate(sorted(mods))
for m, e in errs.items():
    print("translator", m, "aborted:", e)
ok, out = C.make(["all"], timeout=1500)     # a clean build of everything takes under a minute on 16 cores
print(out[-1500:])
print("setup build", "OK" if ok else "had failures (the affected checks will report them)")
sys.exit(0)

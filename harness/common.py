"""Shared driver machinery: regeneration, Coq build, case evaluation, verdict, evidence."""
import fcntl, glob, hashlib, importlib, json, os, random, re, shutil, subprocess, sys, time
from fractions import Fraction

VERIF = os.path.dirname(os.path.dirname(os.path.abspath(__file__)))
REPO = os.environ.get("SPARKX_REPO", "/repo")
COQ = os.path.join(VERIF, "coq")
PY = "/venv/bin/python"
sys.path.insert(0, os.path.join(VERIF, "tools"))

FORBIDDEN = [r"\bAdmitted\b", r"\badmit\b", r"\bAxiom\b", r"\bAxioms\b", r"\bParameter\b", r"\bParameters\b",
             r"\bConjecture\b", r"Unset\s+Guard", r"bypass_check", r"Admit\s+Obligations",
             r"type-in-type", r"impredicative-set", r"Unset\s+Positivity", r"Unset\s+Universe",
             r"\bhammer\b", r"native_compute"]

STD_REAL_AXIOMS = ["ClassicalDedekindReals.sig_forall_dec", "ClassicalDedekindReals.sig_not_dec",
                   "FunctionalExtensionality.functional_extensionality_dep"]


class Failure:
    """one disagreement / property failure; `key` names the finding class it belongs to (or None)"""
    def __init__(self, case, detail, key=None, kind="input", on_impl=None):
        self.case, self.detail, self.key, self.kind, self.on_impl = case, detail, key, kind, on_impl


class Ctx:
    def __init__(self, prop, tier, seed):
        self.prop, self.tier, self.seed = prop, tier, seed
        self.rng = random.Random(seed)
        self.t0 = time.time()
        self.work = os.path.join(VERIF, ".work", f"{prop}_{os.getpid()}")
        shutil.rmtree(self.work, ignore_errors=True)
        os.makedirs(self.work)
        self.notes = []
        self.quick = tier == "quick"
        self._private_build()

    def _private_build(self):
        """Every run works on its own copy of the Coq tree (sources and whatever setup.sh has compiled): the model is
        regenerated and the theorems are rebuilt there, so runs that overlap in time - for other properties, or against
        another SPARKX_REPO - never see each other's half-written Gen/*.v or *.vo files."""
        global COQ
        shared = os.path.join(VERIF, "coq")
        private = self.work + "_coq"      # beside, not inside, the scratch directory (which is itself a -Q root)
        shutil.rmtree(private, ignore_errors=True)
        self.private_coq = private
        with Lock(shared):    # not while setup.sh (or anything else) is building the shared tree
            subprocess.run(["cp", "-a", shared, private], check=True)
        COQ = private

    def cleanup(self):
        shutil.rmtree(self.work, ignore_errors=True)
        shutil.rmtree(self.private_coq, ignore_errors=True)


# --------------------------------------------------------------------------- numbers
def q(x):
    """Coq Q literal of a Python number (float -> the exact rational it denotes)"""
    f = Fraction(x)
    n, d = f.numerator, f.denominator
    return f"({n} # {d})" if n >= 0 else f"(({n}) # {d})"


def z(x):
    x = int(x)
    return f"{x}" if x >= 0 else f"({x})"


def coq_list(items):
    return "[" + "; ".join(items) + "]"


def coq_opt(x, f):
    return "None" if x is None else f"(Some {f(x)})"


def coq_bool(b):
    return "true" if b else "false"


def coq_str(s):
    return '"' + s.replace('"', '""') + '"'


# --------------------------------------------------------------------------- gate
def cone(prop, extra=()):
    """files of the development that Properties/<prop>.v (and the extra property files) depend on (transitively), by their Require lines"""
    todo, seen = [os.path.join("Properties", n + ".v") for n in [prop] + list(extra)], []
    while todo:
        rel = todo.pop()
        if rel in seen or not os.path.exists(os.path.join(COQ, rel)):
            continue
        seen.append(rel)
        text = open(os.path.join(COQ, rel)).read()
        for m in re.finditer(r"From\s+SX\s+Require\s+(?:Import\s+|Export\s+)?(.*?)\.(?:\s|$)", text, flags=re.S):
            for name in m.group(1).split():
                todo.append(name.replace(".", "/") + ".v")
        for m in re.finditer(r"(?<!SX\s)Require\s+(?:Import\s+|Export\s+)?((?:SX\.[\w.]+\s*)+)\.(?:\s|$)", text):
            for name in m.group(1).split():
                todo.append(name[3:].replace(".", "/") + ".v")
    return seen


def grep_gate(prop=None, extra=()):
    """no declared axioms, no admitted proofs, no disabled checks in the development the property depends on
    (the whole development when prop is None)"""
    bad = []
    if prop is None:
        paths = sorted(glob.glob(os.path.join(COQ, "**", "*.v"), recursive=True))
    else:
        paths = [os.path.join(COQ, r) for r in cone(prop, extra)]
    for path in paths:
        depth = 0
        with open(path) as f:
            text = f.read()
        # strip comments (non-nested is enough for our sources; nested handled by loop)
        prev = None
        while prev != text:
            prev = text
            text = re.sub(r"\(\*[^(*]*?\*\)", " ", text, flags=re.S)
            text = re.sub(r"\(\*(?:(?!\(\*|\*\)).)*\*\)", " ", text, flags=re.S)
        for i, line in enumerate(text.split("\n"), 1):
            for pat in FORBIDDEN:
                if re.search(pat, line):
                    bad.append(f"{os.path.relpath(path, COQ)}:{i}: {pat}")
            if re.match(r"\s*(Section|Module Type)\b", line):
                depth += 1
            if re.match(r"\s*(Variable|Variables|Hypothesis|Hypotheses|Context)\b", line) and depth == 0:
                bad.append(f"{os.path.relpath(path, COQ)}:{i}: Variable/Hypothesis outside a section")
            m = re.match(r"\s*End\s+(\w+)\s*\.", line)
            if m and depth > 0 and re.search(r"(Section|Module Type)\s+" + m.group(1) + r"\b", text):
                depth -= 1
    return bad


# --------------------------------------------------------------------------- generation
def regenerate(mods):
    """run the translators; a translator that aborts removes its output so dependants cannot build"""
    errors = {}
    os.makedirs(os.path.join(COQ, "Gen"), exist_ok=True)
    for m in mods:
        mod = importlib.import_module("py2coq." + m)
        try:
            mod.main(os.path.join(COQ, "Gen"))
        except Exception as e:  # fail closed
            errors[m] = f"{type(e).__name__}: {e}"
            for out in getattr(mod, "OUTPUTS", []):
                for ext in (".v", ".vo", ".glob", ".vos", ".vok"):
                    try:
                        os.remove(os.path.join(COQ, "Gen", out + ext))
                    except FileNotFoundError:
                        pass
    return errors


# --------------------------------------------------------------------------- coq build
class Lock:
    def __init__(self, root=None):
        self.root = root

    def __enter__(self):
        self.f = open(os.path.join(self.root or COQ, ".lock"), "w")
        fcntl.flock(self.f, fcntl.LOCK_EX)

    def __exit__(self, *a):
        fcntl.flock(self.f, fcntl.LOCK_UN)
        self.f.close()


def _coqproject():
    files = []
    for d in ("Lib", "Gen", "Model", "Proofs", "Properties"):
        files += sorted(os.path.relpath(p, COQ) for p in glob.glob(os.path.join(COQ, d, "*.v")))
    text = "-Q . SX\n" + "\n".join(files) + "\n"
    path = os.path.join(COQ, "_CoqProject")
    old = open(path).read() if os.path.exists(path) else None
    if old != text or not os.path.exists(os.path.join(COQ, "Makefile")):
        with open(path, "w") as f:
            f.write(text)
        subprocess.run(["coq_makefile", "-f", "_CoqProject", "-o", "Makefile"], cwd=COQ, check=True,
                       stdout=subprocess.DEVNULL, stderr=subprocess.DEVNULL)


def make(targets, timeout=1500, fresh=(), extra_args=()):
    """full .vo build of `targets` (paths relative to coq/); returns (ok, output)"""
    with Lock():
        _coqproject()
        for t in fresh:
            for ext in ("o", "os", "ok"):
                try:
                    os.remove(os.path.join(COQ, t[:-1] + ext) if t.endswith(".vo") else os.path.join(COQ, t + ext))
                except FileNotFoundError:
                    pass
        try:
            r = subprocess.run(["make", "-j16", "-k"] + list(extra_args) + list(targets), cwd=COQ, stdout=subprocess.PIPE,
                               stderr=subprocess.STDOUT, text=True, timeout=timeout)
            return r.returncode == 0, r.stdout
        except subprocess.TimeoutExpired as e:
            out = e.stdout or ""
            if isinstance(out, bytes):
                out = out.decode(errors="replace")
            return False, out + "\nTIMEOUT"


def _parse_property_file(name, ok, out, allowed_axioms):
    """theorems + Print Assumptions blocks of one Properties/<name>.v from the build output that belongs to it"""
    src = os.path.join(COQ, "Properties", name + ".v")
    text = open(src).read()
    theorems = re.findall(r"^\s*Theorem\s+(\w+)", text, flags=re.M)
    printed = re.findall(r"^\s*Print Assumptions\s+(\w+)\s*\.", text, flags=re.M)
    res = {"theorems": theorems, "ok": ok, "log": out, "axioms": {}, "bad_axioms": {}, "failed_at": None}
    if not ok:
        m = re.search(r'File "\./([^"]+)", line (\d+)', out)
        if m:
            res["failed_at"] = f"{m.group(1)}:{m.group(2)}"
        err = re.search(r"(Error:.*?)(?:\n\n|\nmake|\Z)", out, flags=re.S)
        res["error"] = err.group(1)[:600] if err else out[-600:]
        res["discharged"] = 0
        return res
    # split the output of the Properties file into Print Assumptions blocks
    blocks = re.split(r"(?=^Closed under the global context|^Axioms:)", out, flags=re.M)[1:]
    for name_, blk in zip(printed, blocks):
        if blk.startswith("Closed"):
            res["axioms"][name_] = []
        else:
            axs = re.findall(r"^([A-Za-z_][\w.']*)\s*:", blk, flags=re.M)
            axs = [a for a in axs if a not in ("Axioms",)]
            res["axioms"][name_] = axs
            extra = [a for a in axs if a not in allowed_axioms]
            if extra:
                res["bad_axioms"][name_] = extra
    if len(blocks) != len(printed) or set(printed) != set(theorems):
        res["ok"] = False
        res["error"] = f"Print Assumptions bookkeeping: {len(blocks)} blocks for {len(printed)} requests / {len(theorems)} theorems"
    if res["bad_axioms"]:
        res["ok"] = False
        res["error"] = "axioms outside the declared trusted base: " + json.dumps(res["bad_axioms"])
    res["discharged"] = len(theorems) if res["ok"] else 0
    return res


def _check_property_file(name, allowed_axioms):
    """build Properties/<name>.vo from scratch-of-that-file; parse theorems + Print Assumptions"""
    src = os.path.join(COQ, "Properties", name + ".v")
    if not os.path.exists(src):
        return {"theorems": [], "ok": False, "log": "", "axioms": {}, "bad_axioms": {}, "failed_at": None,
                "error": f"Properties/{name}.v does not exist", "discharged": 0}
    ok, out = make([f"Properties/{name}.vo"], fresh=[f"Properties/{name}.vo"])
    return _parse_property_file(name, ok, out, allowed_axioms)


def _check_property_files_together(names, allowed_axioms):
    """all property files in ONE make call (each compiled from scratch-of-that-file, in parallel); `make -Otarget` keeps the output of
    every target together, introduced by its `COQC Properties/<name>.v` line, so that the Print Assumptions blocks can be attributed.
    Returns None when the output cannot be attributed (the caller then builds the files one after the other)."""
    if any(not os.path.exists(os.path.join(COQ, "Properties", n + ".v")) for n in names):
        return None
    targets = [f"Properties/{n}.vo" for n in names]
    ok, out = make(targets, fresh=targets, extra_args=["-Otarget"])
    parts = re.split(r"^COQC (\S+)\s*$", out, flags=re.M)
    per = {}
    for i in range(1, len(parts) - 1, 2):
        per[parts[i]] = per.get(parts[i], "") + parts[i + 1]
    res = {}
    for n in names:
        key = f"Properties/{n}.v"
        built = os.path.exists(os.path.join(COQ, "Properties", n + ".vo"))
        if key not in per:
            if built or ok:
                return None                       # compiled but its output was not found: do not guess
            # not compiled at all: something it depends on failed
            res[n] = _parse_property_file(n, False, out, allowed_axioms)
            continue
        res[n] = _parse_property_file(n, built, per[key] if built else per[key] + "\n" + out[-3000:], allowed_axioms)
    return res


def check_properties(prop, allowed_axioms, extra_files=()):
    """Properties/<prop>.v plus the shared source-tie theorem files the property module names in EXTRA_PROPERTY_FILES (each of the
    same Theorem / exact / Print Assumptions form); every file is built from scratch-of-that-file (in one parallel make call whose
    output is grouped per target, or one after the other when that output cannot be attributed), so that the Print Assumptions blocks
    can be attributed; the results are merged (all files must check)."""
    names = [prop] + list(extra_files)
    together = _check_property_files_together(names, allowed_axioms) if len(names) > 1 else None
    if together is None:
        together = {n: _check_property_file(n, allowed_axioms) for n in names}
    res = together[prop]
    res["main_ok"] = bool(res["ok"])      # Properties/<prop>.v itself (its cone holds the model the correspondence evaluates)
    res["files"] = {prop: {"obligations": len(res["theorems"]), "discharged": res["discharged"]}}
    for name in extra_files:
        r = together[name]
        res["files"][name] = {"obligations": len(r["theorems"]), "discharged": r["discharged"]}
        res["theorems"] = res["theorems"] + r["theorems"]
        res["axioms"].update(r["axioms"])
        res["bad_axioms"].update(r["bad_axioms"])
        res["log"] += "\n" + r["log"]
        res["discharged"] += r["discharged"]
        if not r["ok"]:
            if res["ok"]:
                res["failed_at"], res["error"] = r.get("failed_at"), f"[Properties/{name}.v] " + str(r.get("error"))
            res["ok"] = False
    return res


def coqchk(prop, timeout=1500):
    """coqchk -o on the compiled property file (re-checks it and every .vo it depends on, stdlib included, with the independent
    checker) -> ok, the axioms of the checked context, and the three 'relying on' sections (all must be <none>)"""
    t0 = time.time()
    try:
        r = subprocess.run(["coqchk", "-silent", "-o", "-Q", ".", "SX", f"SX.Properties.{prop}"], cwd=COQ, stdout=subprocess.PIPE,
                           stderr=subprocess.STDOUT, text=True, timeout=timeout)
        out, rc = r.stdout, r.returncode
    except subprocess.TimeoutExpired:
        out, rc = "TIMEOUT", 1
    def section(title):
        m = re.search(re.escape(title) + r":?\s*(.*?)(?:\n\s*\n|\Z)", out, flags=re.S)
        return [l.strip() for l in m.group(1).splitlines() if l.strip()] if m else ["?"]
    ax = section("* Axioms")
    tit = section("* Constants/Inductives relying on type-in-type")
    unsafe = section("* Constants/Inductives relying on unsafe (co)fixpoints")
    pos = section("* Inductives whose positivity is assumed")
    clean = all(x == ["<none>"] for x in (tit, unsafe, pos))
    return {"ok": rc == 0 and clean, "axioms": [a for a in ax if a != "<none>"], "tit": tit, "unsafe": unsafe, "pos": pos,
            "log": out, "seconds": round(time.time() - t0, 1)}


def coq_eval(ctx, name, text, timeout=900):
    """compile a scratch cases file against the built development; returns (ok, stdout)"""
    path = os.path.join(ctx.work, name + ".v")
    with open(path, "w") as f:
        f.write(text)
    try:
        r = subprocess.run(["coqc", "-Q", COQ, "SX", "-Q", ctx.work, "W", path], stdout=subprocess.PIPE,
                           stderr=subprocess.STDOUT, text=True, timeout=timeout, cwd=ctx.work)
        return r.returncode == 0, r.stdout
    except subprocess.TimeoutExpired as e:
        return False, "TIMEOUT"


def coq_eval_many(ctx, files, timeout=900):
    """compile several scratch files in parallel; files: list of (name, text) -> list of (ok, out)"""
    procs = []
    for name, text in files:
        path = os.path.join(ctx.work, name + ".v")
        with open(path, "w") as f:
            f.write(text)
    out = []
    pending = list(files)
    running = []
    while pending or running:
        while pending and len(running) < 14:
            name, _ = pending.pop(0)
            path = os.path.join(ctx.work, name + ".v")
            # output goes to a file: a pipe would block a child that prints more than the pipe buffer holds
            logf = open(os.path.join(ctx.work, name + ".out"), "w")
            p = subprocess.Popen(["coqc", "-Q", COQ, "SX", "-Q", ctx.work, "W", path], stdout=logf,
                                 stderr=subprocess.STDOUT, text=True, cwd=ctx.work)
            running.append((name, p, time.time(), logf))
        for item in list(running):
            name, p, t0, logf = item
            if p.poll() is not None:
                logf.close()
                out.append((name, p.returncode == 0, open(os.path.join(ctx.work, name + ".out")).read()))
                running.remove(item)
            elif time.time() - t0 > timeout:
                p.kill()
                p.wait()
                logf.close()
                out.append((name, False, "TIMEOUT"))
                running.remove(item)
        time.sleep(0.05)
    order = {n: i for i, (n, _) in enumerate(files)}
    out.sort(key=lambda x: order[x[0]])
    return [(ok, o) for _, ok, o in out]


def parse_codes(out):
    """`= [0; 1; 0] : list nat` (possibly wrapped) -> [0,1,0]; several Evals are concatenated"""
    codes = []
    for m in re.finditer(r"=\s*\[(.*?)\]\s*:\s*list", out, flags=re.S):
        body = m.group(1).strip()
        if body:
            codes += [int(x.replace("%nat", "").strip()) for x in body.split(";")]
    return codes


# --------------------------------------------------------------------------- known findings
def known_findings(prop):
    path = os.path.join(VERIF, "known_findings.json")
    if not os.path.exists(path):
        return []
    with open(path) as f:
        data = json.load(f)
    return [e for e in data.get("findings", []) if e.get("property") == prop and e.get("status") == "open"]


# --------------------------------------------------------------------------- verdict
def write_replay(ctx, obj):
    d = os.path.join(VERIF, "replays")
    os.makedirs(d, exist_ok=True)
    blob = json.dumps(obj, sort_keys=True, default=str)
    h = hashlib.sha1(blob.encode()).hexdigest()[:10]
    path = os.path.join(d, f"{ctx.prop}_{h}.json")
    with open(path, "w") as f:
        json.dump(obj, f, indent=1, sort_keys=True, default=str)
    return path


def write_evidence(ctx, coverage, assumptions, violations):
    ev = {"property_id": ctx.prop, "tier": ctx.tier, "seed": ctx.seed, "level": "proof",
          "coverage": coverage, "assumptions": assumptions, "wall_s": round(time.time() - ctx.t0, 2),
          "violations": violations}
    # VERIF_EVIDENCE_DIR: used only by my own experiments against scratch worktrees, so that they do not overwrite the
    # evidence of the last run on /repo
    evdir = os.environ.get("VERIF_EVIDENCE_DIR") or os.path.join(VERIF, "evidence")
    os.makedirs(evdir, exist_ok=True)
    with open(os.path.join(evdir, ctx.prop + ".json"), "w") as f:
        json.dump(ev, f, indent=1, default=str)

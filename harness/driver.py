import os, argparse, importlib, json, os, re, sys, time, traceback, warnings
import common as C
from common import Ctx, Failure


def main(argv):
    ap = argparse.ArgumentParser()
    ap.add_argument("prop")
    ap.add_argument("--tier", default=os.environ.get("VERIF_TIER", "quick"), choices=["quick", "thorough"])
    ap.add_argument("--replay")
    a = ap.parse_args(argv)
    seed = int(os.environ.get("VERIF_SEED", "20260929"))
    mod = importlib.import_module("props." + a.prop.lower())
    warnings.simplefilter("ignore")
    if a.replay:
        return replay(mod, a.replay)
    ctx = Ctx(a.prop, a.tier, seed)
    try:
        return run(ctx, mod)
    finally:
        ctx.cleanup()


def replay(mod, path):
    with open(path) as f:
        obj = json.load(f)
    if obj.get("kind") == "obligation":
        print(f"replay {path}: a proof obligation / correspondence no longer checks and no failing input was found:")
        print(json.dumps(obj.get("broken"), indent=1))
        return 1
    msg = mod.oracle(obj["case"])
    if msg:
        print(f"VIOLATION property={mod.ID} replay={path}")
        print("  " + str(msg))
        return 1
    print(f"replay {path}: property holds on this input with the current tree")
    return 0


def run(ctx, mod):
    prop = mod.ID
    broken = []          # obligations / correspondences that no longer check
    failures = []        # concrete failing inputs (Failure)
    # 0. gate
    extra_files = list(getattr(mod, "EXTRA_PROPERTY_FILES", []))
    bad = C.grep_gate(prop, extra_files)
    if bad:
        broken.append({"what": "grep gate", "detail": bad[:10]})
    # 1. regenerate the generated part of the model from /repo
    gen_err = C.regenerate(getattr(mod, "GEN", []))
    for m, e in gen_err.items():
        broken.append({"what": f"translator {m} aborted (model could not be regenerated)", "detail": e})
    # 2. theorems
    res = C.check_properties(prop, set(getattr(mod, "ALLOWED_AXIOMS", [])), extra_files)
    if not res["ok"]:
        broken.append({"what": "theorem file Properties/%s.v%s does not check" % (prop, "".join(", Properties/%s.v" % n for n in extra_files)),
                       "failed_at": res.get("failed_at"), "detail": res.get("error")})
    # 2b. thorough tier: the independent checker re-checks the compiled theorems and everything they depend on
    chk = None
    if res["ok"] and not ctx.quick and os.environ.get("VERIF_NO_COQCHK") != "1":
        chk = C.coqchk(prop)
        for n in extra_files:
            if not chk["ok"]:
                break
            c2 = C.coqchk(n)
            chk = {"ok": c2["ok"], "axioms": sorted(set(chk["axioms"]) | set(c2["axioms"])), "tit": c2["tit"], "unsafe": c2["unsafe"],
                   "pos": c2["pos"], "log": chk["log"] + c2["log"], "seconds": round(chk["seconds"] + c2["seconds"], 1)}
        if not chk["ok"]:
            broken.append({"what": "coqchk rejects Properties/%s.vo or a file it depends on" % prop, "detail": chk["log"][-800:]})
    # 3. correspondence model <-> implementation
    cor = None
    try:
        # the model is usable when the property file itself checks; a failing shared source-tie file (EXTRA_PROPERTY_FILES) must not
        # switch the side-by-side run off - that run is what produces the failing input
        cor = mod.correspondence(ctx, model_ok=res.get("main_ok", res["ok"]) or getattr(mod, "MODEL_INDEPENDENT_OF_PROOFS", False))
    except Exception as e:
        broken.append({"what": "correspondence run crashed", "detail": traceback.format_exc()[-1500:]})
    if cor:
        for f in cor.get("failures", []):
            failures.append(f)
        for b in cor.get("broken", []):
            broken.append(b)
    # the property oracle on the cases the correspondence evaluated (a model that agrees with the code - e.g. because a
    # numpy/scipy/fastjet result is passed into it as an oracle value - must not hide a failing input)
    oracle_checked, oracle_crashes = 0, 0
    all_cases = (cor or {}).pop("all_cases", None) if cor else None
    if all_cases and not getattr(mod, "ORACLE_ON_EVERY_CASE", False):
        import random as _random
        order = list(range(len(all_cases)))
        _random.Random(ctx.seed).shuffle(order)
        budget, t_or, nfound = (60 if ctx.quick else 900), time.time(), 0
        flagged = {json.dumps(f.case, sort_keys=True, default=str) for f in failures}
        for i in order:
            if time.time() - t_or > budget or nfound >= 5:
                break
            c = all_cases[i]
            if json.dumps(c, sort_keys=True, default=str) in flagged:
                continue
            oracle_checked += 1
            try:
                msg = mod.oracle(c)
            except Exception:
                oracle_crashes += 1
                continue
            if msg:
                key = None
                if hasattr(mod, "finding_key"):
                    try:
                        import inspect
                        key = mod.finding_key(c, msg) if len(inspect.signature(mod.finding_key).parameters) >= 2 else mod.finding_key(msg)
                    except Exception:
                        key = None
                else:
                    mk = re.search(r"\[finding key ([\w-]+)\]", str(msg))
                    key = mk.group(1) if mk else None
                if key is None:
                    nfound += 1          # (failures that belong to a recorded finding do not use up the report limit)
                failures.append(Failure(c, "property oracle fails on the implementation (model and implementation agree on this case)",
                                        on_impl=msg, key=key))
    # classify correspondence failures with the property oracle on the real code
    real = []
    for f in failures:
        if f.on_impl is None:
            try:
                f.on_impl = mod.oracle(f.case)
            except Exception as e:
                f.on_impl = None
                f.detail += f" [oracle crashed: {type(e).__name__}: {e}]"
        if f.on_impl:
            real.append(f)
        else:
            broken.append({"what": "correspondence disagrees (model no longer describes the code) but the property holds on this input",
                           "detail": f.detail, "case": f.case})
    # 4. something is broken and no concrete failing input yet: search the implementation
    searched = 0
    if broken and not real and hasattr(mod, "search"):
        try:
            found, searched = mod.search(ctx)
            real.extend(found)
        except Exception:
            broken.append({"what": "search crashed", "detail": traceback.format_exc()[-1500:]})
    # 5. verdict
    known = C.known_findings(prop)
    known_keys = {k["key"]: k for k in known}
    viol = 0
    printed_known = set()
    new_real = []
    for f in real:
        if f.key in known_keys:
            if f.key not in printed_known:
                print(f"KNOWN-FINDING: property={prop} {known_keys[f.key]['what']}")
                printed_known.add(f.key)
        else:
            new_real.append(f)
    # only the first few distinct new failures are reported
    seen = set()
    for f in new_real:
        sig = f.key or (str(f.on_impl)[:40] if f.on_impl else f.detail[:60])
        if sig in seen:
            continue
        seen.add(sig)
        if len(seen) > 5:
            break
        path = C.write_replay(ctx, {"property": prop, "kind": "input", "case": f.case, "detail": f.detail,
                                    "on_implementation": f.on_impl, "key": f.key})
        print(f"VIOLATION property={prop} replay={path}")
        print(f"  {f.on_impl}")
        viol += 1
    # something no longer checks and no (new) concrete failing input was found: still a violation
    if broken and not new_real:
        path = C.write_replay(ctx, {"property": prop, "kind": "obligation", "broken": broken})
        print(f"VIOLATION property={prop} replay={path} no-failing-input-found")
        for b in broken[:5]:
            print("  " + b["what"] + (f" [{b.get('failed_at')}]" if b.get("failed_at") else ""))
            if b.get("detail"):
                print("    " + str(b["detail"])[:800].replace("\n", "\n    "))
        viol += 1
    elif broken:
        for b in broken[:5]:
            print("  also: " + b["what"] + (f" [{b.get('failed_at')}]" if b.get("failed_at") else ""))
            if b.get("detail"):
                print("    " + str(b["detail"])[:400].replace("\n", "\n    "))
    # 6. evidence
    cov = {"obligations": len(res["theorems"]), "discharged": res["discharged"],
           "obligation_names": res["theorems"],
           "checker_cmd": f"cd /verif/coq && coq_makefile -f _CoqProject -o Makefile && make " + " ".join(f"Properties/{n}.vo" for n in [prop] + extra_files) + "   (coqc 8.16.1, full .vo build; regenerated Gen/*.v first)",
           "obligations_per_file": res.get("files"),
           "trusted_base": list(getattr(mod, "TRUSTED", [])) + ([("source-tie translators " + ", ".join(g for g in getattr(mod, "GEN", [])) +
                                                                    " with their runtime files (the meaning of the accepted Python/numpy constructs): "
                                                                    + getattr(mod, "SOURCE_TIE_NOTE"))] if getattr(mod, "SOURCE_TIE_NOTE", None) else []) + ["axioms reported by Print Assumptions in this run: " + json.dumps(res["axioms"])],
           "axioms_per_theorem": res["axioms"],
           "generated_from_source": getattr(mod, "GEN", []),
           "broken": [b["what"] for b in broken],
           "search_evaluations": searched,
           "property_oracle_on_correspondence_cases": oracle_checked, "property_oracle_crashes": oracle_crashes}
    if chk:
        cov["coqchk"] = {"cmd": "coqchk -silent -o -Q . SX " + " ".join(f"SX.Properties.{n}" for n in [prop] + extra_files), "accepted": chk["ok"], "seconds": chk["seconds"],
                         "axioms_in_the_checked_context": chk["axioms"], "type_in_type": chk["tit"], "unsafe_fixpoints": chk["unsafe"],
                         "assumed_positivity": chk["pos"]}
    if cor:
        for k in ("evaluations", "distinct_nontrivial", "rule", "samples", "distribution", "traces_validated_against_impl",
                  "exhaustive", "exact_agreements", "tolerance_agreements", "model_runner"):
            if k in cor:
                cov[k] = cor[k]
    cov.setdefault("evaluations", 0)
    cov.setdefault("distinct_nontrivial", 0)
    cov.setdefault("samples", [])
    cov["known_findings_reported"] = sorted(printed_known)
    C.write_evidence(ctx, cov, list(getattr(mod, "ASSUMPTIONS", [])) + ctx.notes, viol)
    status = "OK" if viol == 0 else "FAIL"
    print(f"[{prop}] {status} tier={ctx.tier} seed={ctx.seed} obligations={cov['discharged']}/{cov['obligations']} "
          f"cases={cov['evaluations']} nontrivial={cov['distinct_nontrivial']} wall={time.time()-ctx.t0:.1f}s")
    return 0 if viol == 0 else 1

"""C19 - centrality classes (CentralityClasses.py): total, monotone, consistent with the sample."""
import itertools, json, math, os
from fractions import Fraction
import common as C
from common import Failure, q, coq_list

ID = "C19"
GEN = ["gen_centrality", "gen_centrality_methods"]
EXTRA_PROPERTY_FILES = ["SrcCentrality"]     # CentralityClasses.py method bodies regenerated and proved equal to Model/Centrality.v
SOURCE_TIE_NOTE = 'see LEVEL_NOTE (gen_centrality_methods, Properties/SrcCentrality.v, 9 theorems)'
ALLOWED_AXIOMS = []
MODEL_INDEPENDENT_OF_PROOFS = True      # Model/Centrality.v contains no proofs: it still runs when a theorem breaks
TRUSTED = [
    "Coq 8.16.1 kernel + vm_compute (no native_compute)",
    "translator tools/py2coq/gen_centrality.py (ratexpr extractor): reads the rank boundary int(N*e/100.0), the two "
    "stored entries per class (index expression and guard) and the minimum sample size from __create_centrality_classes",
    "hand model coq/Model/Centrality.v (edge cleaning, descending sort, loop over edges, get_centrality_class incl. the "
    "fall-through -1), tied by this run's correspondence",
    "exact rationals instead of IEEE doubles: the rounding inside N*e/100.0 is not modelled (integer and dyadic edges are exact)",
]
ASSUMPTIONS = [
    "multiplicities and queries are finite numbers (NaN is outside the model); edges are finite numbers",
    "dNchdetaAvg_/dNchdetaAvgErr_ are not part of the property and are not modelled",
    "the theorems use only that <= on the multiplicities is a total preorder (instances proved: Z, Q)",
]

EXH_EDGES = [0, 10, 25, 50, 75, 100]
EXH_QUERIES = [0, 0.5, 1, 1.5, 2, 2.5, 3, 3.5, 4]


# ----------------------------------------------------------------------------- real code
def ctor_args(case):
    """the sample and the edge list as the caller hands them over: fresh lists, or (case["np"]) numpy arrays"""
    import numpy as np
    how = case.get("np") or ""
    s, e = list(case["sample"]), list(case["edges"])
    if how in ("sample", "both"):
        s = np.array(s)
        dt = case.get("np_dtype")
        if dt and all(isinstance(v, int) and 0 <= v < 2 ** 15 for v in case["sample"]):
            s = np.array(case["sample"], dtype=dt)          # event counts as an unsigned / small integer array
    if how in ("edges", "both"):
        e = np.array(e)
    return s, e


def query_arg(case, x):
    """a query multiplicity: the Python number, or (case["np"] = "queries" / "both") the numpy scalar"""
    import numpy as np
    if case.get("np") in ("queries", "both"):
        return np.int64(x) if isinstance(x, int) else np.float64(x)
    return x


def decoy(sample):
    """another object built in between from another sample and other edges (and used): nothing of it may show in the first"""
    from sparkx.CentralityClasses import CentralityClasses
    other = CentralityClasses([x + 1000 for x in reversed(list(sample))] + [0, 1, 2, 3], [0, 37, 100])
    other.get_centrality_class(5)
    return other


def run_impl(case):
    import warnings
    from sparkx.CentralityClasses import CentralityClasses
    with warnings.catch_warnings():
        warnings.simplefilter("ignore")
        try:
            s_in, e_in = ctor_args(case)
            if case.get("refill"):
                # the caller's sample container held OTHER multiplicities (same length) when an earlier object was built from it,
                # and was refilled in place afterwards: the new object must describe what the container holds now
                final = list(s_in) if isinstance(s_in, list) else s_in.copy()
                s_in[:] = [x + 7 for x in reversed(list(final))] if isinstance(s_in, list) else (final[::-1] + 7)
                try:
                    CentralityClasses(s_in, [0, 50, 100]).get_centrality_class(3)
                except Exception:
                    pass
                s_in[:] = final
            obj = CentralityClasses(s_in, e_in)
            if case.get("decoy"):
                decoy(case["sample"])
                s_in[:] = 0 if not isinstance(s_in, list) else [0] * len(s_in)     # the caller reuses its sample container
        except Exception as e:
            return {"err": type(e).__name__}
        cls = []
        for x in case["queries"]:
            try:
                cls.append(int(obj.get_centrality_class(query_arg(case, x))))
            except Exception as e:
                cls.append(type(e).__name__)
        return {"bins": [float(b) for b in obj.centrality_bins_], "min": [float(v) for v in obj.dNchdetaMin_],
                "max": [float(v) for v in obj.dNchdetaMax_], "cls": cls}


def in_domain(case):
    s, e = case["sample"], case["edges"]
    return (len(s) >= 4 and all(x >= 0 for x in s) and all(0 <= v <= 100 for v in e) and len(set(e)) >= 2)


def exact_ranks(n, edges):
    """rank boundaries floor(N*e/100) of the cleaned edge list, exact; None when a boundary is so close to an
    integer that the float evaluation of N*e/100.0 may legitimately land on the other side"""
    out = []
    for e in edges:
        v = Fraction(n) * Fraction(e) / 100
        fl = math.floor(v)
        if v != fl and min(v - fl, fl + 1 - v) < Fraction(1, 10**9):
            return None
        out.append(fl)
    return out


def oracle(case):
    """the property text, stated directly on the real code (exact rank arithmetic, brute force over ranks)"""
    import warnings
    from sparkx.CentralityClasses import CentralityClasses
    if not in_domain(case):
        return None
    sample, edges = list(case["sample"]), list(case["edges"])
    cleaned = sorted(set(edges))
    k = len(cleaned) - 1
    R = exact_ranks(len(sample), cleaned)
    if R is None:
        return None
    with warnings.catch_warnings():
        warnings.simplefilter("ignore")
        try:
            s_in, e_in = ctor_args(case)
            # (always) the sample container was used before by another object while it held other multiplicities of the same length
            final = list(s_in) if isinstance(s_in, list) else s_in.copy()
            s_in[:] = [x + 7 for x in reversed(list(final))] if isinstance(s_in, list) else (final[::-1] + 7)
            try:
                CentralityClasses(s_in, [0, 50, 100]).get_centrality_class(3)
            except Exception:
                pass
            s_in[:] = final
            obj = CentralityClasses(s_in, e_in)
        except Exception as e:
            return f"constructor raises {type(e).__name__}: {e} on an admissible sample/edge list"
        # state between objects / containers the caller goes on using: another object is built and used in between, and the caller
        # overwrites the sample container it passed in; the classes were defined by the sample as it was at construction
        try:
            decoy(sample)
            s_in[:] = 0 if not isinstance(s_in, list) else [0] * len(s_in)
        except Exception as e:
            return f"building a second CentralityClasses object raises {type(e).__name__}: {e}"
        rec = sorted(sample, reverse=True)
        queries = sorted(set([x for x in case.get("queries", []) if x >= 0] + list(sample)
                             + [x + 0.5 for x in sample] + [max(0, x - 0.5) for x in sample] + [0, max(sample) + 1]))
        got = {}
        for x in queries:
            try:
                c = obj.get_centrality_class(query_arg(case, x))
            except Exception as e:
                return f"get_centrality_class({x}) raises {type(e).__name__} (Min={obj.dNchdetaMin_})"
            if not (isinstance(c, (int,)) or hasattr(c, "__index__")) or not (0 <= int(c) < k):
                return f"get_centrality_class({x}) = {c!r} is not a class index in 0..{k-1} (Min={obj.dNchdetaMin_})"
            got[x] = int(c)
        for a, b in zip(queries, queries[1:]):
            if got[b] > got[a]:
                return (f"not monotone: multiplicity {a} -> class {got[a]} but the larger {b} -> class {got[b]} "
                        f"(Min={obj.dNchdetaMin_})")
        if len(obj.dNchdetaMin_) != k or len(obj.dNchdetaMax_) != k:
            return f"{k} classes but {len(obj.dNchdetaMin_)} minima / {len(obj.dNchdetaMax_)} maxima stored"
        for i in range(k):
            lo, hi = R[i], R[i + 1]
            if lo < hi:
                seg = rec[lo:hi]
                if obj.dNchdetaMin_[i] != min(seg) or obj.dNchdetaMax_[i] != max(seg):
                    return (f"class {i} holds ranks {lo}..{hi-1} with multiplicities {min(seg)}..{max(seg)} but stores "
                            f"min={obj.dNchdetaMin_[i]} max={obj.dNchdetaMax_[i]}")
            for r in range(lo, hi):
                x = rec[r]
                c = got[x]
                # lower boundary of class c = the multiplicity at its last rank R[c+1]-1 (this is what the class stores as its
                # minimum, also when its own rank interval is empty: two events of equal multiplicity cannot be told apart by
                # any lookup, and the one above the boundary is assigned class c)
                tied_with_lower_boundary_of_c = (c < i and R[c + 1] > 0 and rec[R[c + 1] - 1] == x)
                if c != i and not tied_with_lower_boundary_of_c:
                    return (f"event of multiplicity {x} has descending rank {r}, inside the rank interval [{lo},{hi}) of "
                            f"class {i} ({cleaned[i]}-{cleaned[i+1]}%), but get_centrality_class gives {c} "
                            f"(not a tie with that class's lower boundary; Min={obj.dNchdetaMin_})")
        if list(obj.centrality_bins_) != cleaned:
            return f"centrality_bins_ = {obj.centrality_bins_} is not the cleaned edge list {cleaned}"
        # asked again (other order, Python numbers and numpy scalars alike): the same classes
        import numpy as np
        for x in reversed(queries):
            for arg in (x, np.float64(x)):
                c2 = obj.get_centrality_class(arg)
                if c2 != got[x]:
                    return f"get_centrality_class({arg!r}) = {c2} when asked again, {got[x]} the first time (Min={obj.dNchdetaMin_})"
        # the edge container of the first construction (the constructor may have sorted it in place) used for a second object
        again = CentralityClasses(list(sample), e_in)
        if list(again.dNchdetaMin_) != list(obj.dNchdetaMin_) or list(again.dNchdetaMax_) != list(obj.dNchdetaMax_):
            return (f"a second object built from the same sample and the same edge container stores min={list(again.dNchdetaMin_)} "
                    f"max={list(again.dNchdetaMax_)}, the first min={list(obj.dNchdetaMin_)} max={list(obj.dNchdetaMax_)}")
        if list(edges) != cleaned:
            ref = CentralityClasses(list(sample), list(cleaned))
            if (list(ref.dNchdetaMin_) != list(obj.dNchdetaMin_) or list(ref.dNchdetaMax_) != list(obj.dNchdetaMax_)
                    or any(ref.get_centrality_class(x) != got[x] for x in queries)):
                return f"edges {edges} and the cleaned list {cleaned} give different classes"
    return None


# ----------------------------------------------------------------------------- generators
def default_queries(sample, rng=None):
    s = [x for x in sample if isinstance(x, (int, float))]
    qs = {0, 0.5}
    for x in s:
        qs.update([x, x + 0.5, x - 0.5, x + 1])
    if s:
        qs.update([max(s) + 7, min(s) - 1])
    return sorted(qs)


def gen_case(rng, small=False, decimal=False):
    r = rng.random()
    if small:
        n = rng.choice([4, 4, 5, 5, 6, 7, 8, 9, 10, 12])
    elif r < 0.55:
        n = rng.randint(4, 14)
    elif r < 0.9:
        n = rng.randint(15, 60)
    else:
        n = rng.randint(61, 400)
    style = rng.choice(["ties", "ties", "narrow", "wide", "dyadic", "allsame"])
    if style == "ties":
        hi = rng.choice([1, 2, 3, 5])
        sample = [rng.randint(0, hi) for _ in range(n)]
    elif style == "narrow":
        sample = [rng.randint(0, max(2, n // 2)) for _ in range(n)]
    elif style == "wide":
        sample = [rng.randint(0, 2000) for _ in range(n)]
    elif style == "dyadic":
        sample = [rng.randint(0, 12) * 0.25 for _ in range(n)]
    else:
        v = rng.randint(0, 9)
        sample = [v] * n
    # edges
    es = rng.choice(["even", "uneven", "uneven", "tight", "partial", "dyadic", "two"])
    if es == "even":
        m = rng.choice([2, 4, 5, 10, 20])
        edges = [100 * i // m for i in range(m + 1)]
    elif es == "uneven":
        m = rng.randint(1, 7)
        edges = sorted(set([0, 100] + [rng.randint(1, 99) for _ in range(m)]))
    elif es == "tight":      # classes holding 0-2 events
        step = max(1, 100 // n)
        edges = sorted(set([0, 100] + [min(100, rng.randint(0, n) * step + rng.choice([0, 0, 1])) for _ in range(rng.randint(2, 8))]))
    elif es == "partial":    # not starting at 0 and/or not ending at 100
        edges = sorted(set(rng.randint(0, 100) for _ in range(rng.randint(2, 6))))
        if len(edges) < 2:
            edges = [10, 60]
    elif es == "dyadic":
        edges = sorted(set([0, 100] + [rng.randint(1, 399) * 0.25 for _ in range(rng.randint(1, 5))]))
    else:
        edges = sorted(set([rng.choice([0, 0, 5, 50]), rng.choice([100, 100, 10, 60])]))
        if len(edges) < 2:
            edges = [0, 100]
    if decimal:
        edges = sorted(set([0, 100] + [round(rng.uniform(0, 100), rng.choice([1, 2])) for _ in range(rng.randint(1, 5))]))
    if rng.random() < 0.35:   # unsorted and/or duplicated presentation of the same edges
        edges = edges + [rng.choice(edges) for _ in range(rng.randint(0, 2))]
        rng.shuffle(edges)
    case = {"sample": sample, "edges": edges}
    if rng.random() < 0.3:
        case["np"] = rng.choice(["sample", "edges", "both", "queries"])      # numpy arrays / numpy scalars as arguments
        if case["np"] in ("sample", "both") and rng.random() < 0.6:
            case["np_dtype"] = rng.choice(["uint8" if all(isinstance(v, int) and 0 <= v < 256 for v in sample) else "uint16", "uint16", "uint32", "uint64", "int16", "int32"])
    if rng.random() < 0.25:
        case["refill"] = True         # the sample container was used before with other content (same length) by another object
    if rng.random() < 0.3:
        case["decoy"] = True          # another object is built in between and the caller overwrites its sample container
    case["queries"] = default_queries(sample)
    if len(case["queries"]) > 40:
        qs = case["queries"]
        keep = set(rng.sample(qs, 30)) | {qs[0], qs[-1]}
        # always keep the stored boundaries' neighbourhood: evaluated on the sorted record
        rec = sorted(sample, reverse=True)
        for e in set(edges):
            rnk = int(len(sample) * e / 100.0)
            for j in (rnk - 1, rnk):
                if 0 <= j < len(rec):
                    keep.update([rec[j], rec[j] + 0.5, rec[j] - 0.5])
        case["queries"] = sorted(keep)
    return case


def gen_malformed(rng):
    k = rng.choice(["few", "neg", "range_lo", "range_hi", "noedges", "oneedge", "neg_and_few"])
    sample = [rng.randint(0, 5) for _ in range(rng.randint(4, 8))]
    edges = [0, 50, 100]
    if k == "few":
        sample = sample[:rng.randint(0, 3)]
    elif k == "neg":
        sample[rng.randrange(len(sample))] = -rng.randint(1, 3)
    elif k == "range_lo":
        edges = [-1, 50, 100]
    elif k == "range_hi":
        edges = [0, 50, 100.5]
    elif k == "noedges":
        edges = []
    elif k == "oneedge":
        edges = [rng.choice([0, 30, 100])]
    else:
        sample = [-1, 2]
    return {"sample": sample, "edges": edges, "queries": [0, 1, 2]}


def exhaustive_cases(sizes):
    subsets = []
    for m in range(0, len(EXH_EDGES) + 1):
        subsets += [list(c) for c in itertools.combinations(EXH_EDGES, m)]
    for n in sizes:
        for s in itertools.product(range(4), repeat=n):
            for e in subsets:
                yield {"sample": list(s), "edges": e, "queries": EXH_QUERIES}


def exhaustive_edge_presentations():
    """every edge sequence of length <= 3 over {0,25,50,75,100} (unsorted, duplicated) x sorted samples of size 4 over 0..3"""
    seqs = []
    for m in (1, 2, 3):
        seqs += [list(c) for c in itertools.product(EXH_EDGES, repeat=m)]
    for s in itertools.combinations_with_replacement(range(4), 4):
        for e in seqs:
            yield {"sample": list(s), "edges": e, "queries": EXH_QUERIES}


# ----------------------------------------------------------------------------- Coq side
PRELUDE = """From Coq Require Import List ZArith QArith Bool.
From SX Require Import Lib.Py Lib.QCheck Gen.GenCentrality Model.Centrality.
Import ListNotations.
Local Open Scope Q_scope.
Inductive expected := ExpErr (e : errcls) | ExpOk (b : list Q) (mn : list fv) (mx : list Q) (cl : list (result Z)).
Definition err_eqb (a b : errcls) : bool :=
  match a, b with
  | TypeError, TypeError | ValueError, ValueError | IndexError, IndexError | KeyError, KeyError
  | AttributeError, AttributeError | ZeroDivisionError, ZeroDivisionError | OtherError, OtherError => true
  | _, _ => false end.
Fixpoint all2 {A B} (f : A -> B -> bool) (a : list A) (b : list B) : bool :=
  match a, b with [], [] => true | x :: a', y :: b' => f x y && all2 f a' b' | _, _ => false end.
Definition ext_eqb (m : ext Q) (i : fv) : bool :=
  match m, i with Val a, Fin b => Qeq_bool a b | Inf, PInf => true | _, _ => false end.
Definition res_eqb (m i : result Z) : bool :=
  match m, i with Ok a, Ok b => Z.eqb a b | Err a, Err b => err_eqb a b | _, _ => false end.
(* 0 = everything identical; 2 = stored state differs; 3 = a class differs; 4 = error behaviour differs *)
Definition check (sample edges queries : list Q) (e : expected) : nat :=
  match qconstruct sample edges, e with
  | Err a, ExpErr b => if err_eqb a b then 0 else 4
  | Ok st, ExpOk b mn mx cl =>
      if all2 Qeq_bool (bins st) b && all2 ext_eqb (dmin st) mn && all2 Qeq_bool (dmax st) mx
      then (if all2 res_eqb (map (qlookup (dmin st)) queries) cl then 0 else 3) else 2
  | _, _ => 4
  end%nat.
"""

ERR = {"TypeError", "ValueError", "IndexError", "KeyError", "AttributeError", "ZeroDivisionError"}


def fv(x):
    if math.isnan(x):
        return "NaN"
    if math.isinf(x):
        return "PInf" if x > 0 else "NInf"
    return f"(Fin {q(x)})"


def coq_case(case, got, qname=None):
    s = coq_list([q(x) for x in case["sample"]])
    e = coq_list([q(x) for x in case["edges"]])
    qs = qname or coq_list([q(x) for x in case["queries"]])
    if "err" in got:
        exp = f"(ExpErr {got['err'] if got['err'] in ERR else 'OtherError'})"
    else:
        cl = coq_list([f"(Ok {C.z(c)}%Z)" if isinstance(c, int) else f"(Err {c if c in ERR else 'OtherError'})"
                       for c in got["cls"]])
        exp = (f"(ExpOk {coq_list([q(x) for x in got['bins']])} {coq_list([fv(x) for x in got['min']])} "
               f"{coq_list([q(x) for x in got['max']])} {cl})")
    return f"(check {s} {e} {qs} {exp})"


def evaluate(ctx, cases, gots, tag, shard):
    """-> list of codes (None when the files could not be evaluated, with `broken` filled)"""
    files = []
    exq = coq_list([q(x) for x in EXH_QUERIES])
    for i in range(0, len(cases), shard):
        body = coq_list([coq_case(c, g, "EXQ" if c["queries"] is EXH_QUERIES else None)
                         for c, g in zip(cases[i:i + shard], gots[i:i + shard])])
        files.append((f"c19_{tag}_{i//shard}", PRELUDE + f"Definition EXQ : list Q := {exq}.\nEval vm_compute in {body}.\n"))
    res = C.coq_eval_many(ctx, files)
    codes = []
    for (ok, o), (name, _) in zip(res, files):
        if not ok:
            return None, {"what": f"cases file {name} failed to evaluate", "detail": o[-800:]}
        codes += C.parse_codes(o)
    if len(codes) != len(cases):
        return None, {"what": "cases output could not be parsed", "detail": f"{len(codes)} codes for {len(cases)} cases"}
    return codes, None


def tags_of(case, got):
    """which branches of the real code the case reached (for the distribution in the evidence)"""
    t = set()
    if "err" in got:
        t.add("err:" + got["err"])
        return t
    k = len(got["min"])
    t.add("classes=%d" % min(k, 6))
    if any(math.isinf(v) for v in got["min"]):
        t.add("empty_first_class(min=inf)")
    if any(a == b for a, b in zip(got["min"], got["min"][1:])):
        t.add("equal_consecutive_minima(empty class or ties)")
    if sorted(set(case["edges"])) != list(case["edges"]):
        t.add("edges_unsorted_or_duplicated")
    if len(set(case["sample"])) < len(case["sample"]):
        t.add("ties")
    for c in got["cls"]:
        if c == 0:
            t.add("lookup:first")
        elif c == k - 1:
            t.add("lookup:last")
        elif isinstance(c, int) and c > 0:
            t.add("lookup:scan")
        elif c == -1:
            t.add("lookup:fallthrough(-1)")
        else:
            t.add("lookup:" + str(c))
    return t


def correspondence(ctx, model_ok=True):
    cases = []
    corpus = os.path.join(C.VERIF, "corpus", ID)
    if os.path.isdir(corpus):
        for fn in sorted(os.listdir(corpus)):
            cases.append(json.load(open(os.path.join(corpus, fn)))["case"])
    n_rand = 500 if ctx.quick else 6000
    for i in range(n_rand):
        cases.append(gen_malformed(ctx.rng) if i % 12 == 11 else gen_case(ctx.rng))
    n_random = len(cases)
    exh = list(exhaustive_cases([4] if ctx.quick else [4, 5, 6]))
    pres = list(exhaustive_edge_presentations()) if not ctx.quick else []
    cases += exh + pres
    gots = [run_impl(c) for c in cases]
    dist, keys = {}, set()
    for c, g in zip(cases, gots):
        for t in tags_of(c, g):
            dist[t] = dist.get(t, 0) + 1
        if "err" not in g and len(g["min"]) >= 2:
            keys.add(json.dumps([c["sample"], c["edges"]]))
    dist["completely_enumerated_tiny_scope_cases"] = len(exh) + len(pres)
    dist["seeded_random_and_corpus_cases"] = n_random
    out = {"evaluations": len(cases), "distinct_nontrivial": len(keys), "distribution": dist,
           "rule": "corpus + seeded random samples (4-400 events; heavy ties, all-equal, wide, dyadic multiplicities; even, uneven, "
                   "tight (0-2 events per class), partial, dyadic, two-edge lists; 35% presented unsorted/duplicated; every query "
                   "on, half a unit beside and beyond each sample value) + a malformed stream (too few events, negative "
                   "multiplicity, edges out of range, no/one edge) + COMPLETE enumeration of all samples of size "
                   + ("4" if ctx.quick else "4-6") + " over multiplicities 0..3 x all 64 subsets of the edges {0,10,25,50,75,100} (10% of 4-6 events is an empty first class)"
                   + ("" if ctx.quick else " + all edge sequences of length <= 3 over those values (unsorted, duplicated) x all sorted size-4 samples")
                   + "; non-trivial = constructed without error and at least two classes; distinct by (sample, edges); compared: "
                   "centrality_bins_, dNchdetaMin_, dNchdetaMax_, get_centrality_class of every query, exception classes - all exact",
           "exhaustive_part": {"cases": len(exh) + len(pres), "complete": True},
           "samples": cases[:3], "model_runner": "Eval vm_compute in generated cases files (sharded coqc)",
           "failures": [], "broken": []}
    out["all_cases"] = cases          # the driver runs the property oracle on these as well
    ok, log = C.make(["Model/Centrality.vo", "Lib/QCheck.vo"])
    if not ok:
        out["broken"].append({"what": "model Model/Centrality.v does not build", "detail": log[-800:]})
        return out
    codes_a, err = evaluate(ctx, cases[:n_random], gots[:n_random], "r", 150)
    codes_b, err2 = (evaluate(ctx, cases[n_random:], gots[n_random:], "x", 1500) if not err else (None, err))
    if err or err2:
        out["broken"].append(err or err2)
        return out
    codes = codes_a + codes_b
    out["exact_agreements"] = sum(1 for c in codes if c == 0)
    out["tolerance_agreements"] = 0
    out["traces_validated_against_impl"] = out["exact_agreements"]
    nfail = 0
    for c, g, code in zip(cases, gots, codes):
        if code != 0:
            nfail += 1
            if nfail <= 40:
                out["failures"].append(Failure(dict(c, queries=list(c["queries"])),
                                               f"model and implementation disagree (code {code}): impl={g}"))
    out["disagreements"] = nfail
    return out


# ----------------------------------------------------------------------------- search
def search(ctx):
    """property oracle on the real code: the complete tiny scope first, then seeded random cases incl. decimal edges"""
    found, n = [], 0
    for c in exhaustive_cases([4]):
        n += 1
        msg = oracle(c)
        if msg:
            c = shrink(dict(c, queries=list(c["queries"])))
            found.append(Failure(c, "property oracle fails on the implementation", on_impl=oracle(c)))
            return found, n
    # rounding-sensitive rank boundaries: sample sizes n and integer percentiles p for which some plausible float evaluation order
    # of n*p/100 (pre-divided fraction, swapped factors, true division last) lands below the exact integer n*p/100; distinct
    # multiplicities so that no tie hides a shifted boundary
    probes = []
    for nn in list(range(4, 121)) + [150, 170, 180, 200, 250, 300, 1000]:
        for pp in range(1, 100):
            exact = nn * pp // 100
            alts = {int(nn * (pp / 100.0)), int((pp / 100.0) * nn), int(nn * pp / 100.0), int(nn * (pp * 0.01)), int(nn / 100.0 * pp)}
            if alts != {exact}:
                probes.append((nn, pp))
    ctx.rng.shuffle(probes)
    for nn, pp in probes[:(150 if ctx.quick else 2000)]:
        sample = list(range(1, nn + 1))
        ctx.rng.shuffle(sample)
        c = {"sample": sample, "edges": [0, pp, 100], "queries": default_queries(sample)}
        n += 1
        msg = oracle(c)
        if msg:
            found.append(Failure(c, "property oracle fails on the implementation (rounding-sensitive rank boundary)", on_impl=msg))
            return found, n
    budget = 400 if ctx.quick else 4000
    for i in range(budget):
        c = gen_case(ctx.rng, small=(i % 2 == 0), decimal=(i % 3 == 0))
        n += 1
        msg = oracle(c)
        if msg:
            c = shrink(c)
            found.append(Failure(c, "property oracle fails on the implementation", on_impl=oracle(c)))
            break
    return found, n


def shrink(case):
    cur = case
    changed = True
    while changed:
        changed = False
        for cand in _smaller(cur):
            try:
                if oracle(cand):
                    cur, changed = cand, True
                    break
            except Exception:
                pass
    return cur


def _smaller(c):
    s, e, qs = c["sample"], c["edges"], c.get("queries", [])
    if c.get("np") or c.get("decoy") or c.get("refill"):
        yield {"sample": s, "edges": e, "queries": qs}                 # plain lists / Python numbers, nothing in between
    if qs:
        yield dict(c, queries=[])
    for i in range(len(s)):
        if len(s) > 4:
            yield dict(c, sample=s[:i] + s[i + 1:])
    for i in range(len(e)):
        if len(e) > 2:
            yield dict(c, edges=e[:i] + e[i + 1:])
    if list(e) != sorted(set(e)):
        yield dict(c, edges=sorted(set(e)))
    for i, x in enumerate(s):
        for y in (0, 1, x // 2 if isinstance(x, int) else int(x)):
            if 0 <= y < x:
                yield dict(c, sample=s[:i] + [y] + s[i + 1:])
    if s != sorted(s):
        yield dict(c, sample=sorted(s))


LEVEL_TEXT = ("Theorems (Coq, all samples of any length >= 4 over any totally pre-ordered multiplicity type, all admissible edge "
              "lists, all queries): get_centrality_class returns exactly one index in 0..k-1 (never the fall-through -1), is "
              "antitone in the multiplicity, gives an event of descending rank r in class i's rank interval the class i - or an "
              "earlier class c only when the event is tied with the stored minimum of every class c..i-1; stored min/max of a "
              "class with a non-empty rank interval are attained inside the interval and bound it; construction from unsorted / "
              "duplicated edges equals construction from the cleaned (strictly increasing) list; exactly the inadmissible inputs "
              "raise. The rank formula and the stored entries are regenerated from the source on every run.")
LEVEL_NOTE = ("Trusted: Coq kernel/vm_compute; translators gen_centrality (ratexpr) and gen_centrality_methods (the four method bodies of "
              "CentralityClasses.py regenerated on every run, nothing pinned textually; runtime Model/CentralityRt.v: stable sorts, set as list "
              "up to numeric equality, int() = truncation, Python indexing/slicing); hand model Model/Centrality.v proved equal to the "
              "regenerated methods for all arguments incl. exception classes, warnings and the written file (C19_source_*, "
              "Properties/SrcCentrality.v) and validated by "
              "correspondence (random + complete tiny scopes); exact rational arithmetic instead of IEEE rounding in N*e/100.0 "
              "(exact for integer/dyadic edges; decimal edges only explored by the search); NaN inputs and the Avg/AvgErr "
              "columns are outside the model. The tie clause is proved in the form 'class c <= i, and c < i only if the event ties "
              "with the lower boundary of every class c..i-1' (with chains of ties the assigned class can be earlier than i-1).")
TECHNIQUE = ("Coq proof by induction over the edge list and the sorted sample (insertion-sort permutation/sortedness lemmas, order "
             "lemmas on the descending record, rank monotonicity by lia/Qfloor), rank formula and stored entries regenerated from "
             "the Python source; vm_compute correspondence incl. complete enumeration of tiny scopes")

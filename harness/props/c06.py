"""C06 - written files read back to the same data; re-writing is a fixpoint."""
import json, os, math, warnings
from collections import Counter
import numpy as np
import common as C
from common import Failure, coq_list, q, z, coq_str
import oscgen as G
import jetgen as J

ID = "C06"
GEN = ["gen_particle_tables", "gen_formats"]
ALLOWED_AXIOMS = []
TRUSTED = [
    "Coq 8.16.1 kernel + vm_compute; every theorem closed under the global context",
    "translators gen_formats (the writers' printf format strings / per-column format table) and gen_particle_tables (the loader's column tables)",
    "hand model coq/Model/Writer.v of Oscar.print_particle_lists_to_file, Oscar._particle_as_list, the count-driven particle_list() and "
    "Jetscape.print_particle_lists_to_file, tied by this run's correspondence: the model must write, token for token, the file the real writer wrote",
    "the loader model of C01 (reader side)",
    "oracle laws (hypotheses of the theorems): Python % formatting prints numeric text that float()/int() parse back to the value rounded to the "
    "printed precision, and printing that value again gives the same text; str(int) prints a decimal int() reads back",
]
ASSUMPTIONS = ["the sign of zero is not modelled (-0 is compared as 0 in the writer correspondence)",
               "per-format row round trip proved for Oscar2013, Extended (20/21/22 columns), ASCII (any duplicate-free known column list) and JETSCAPE",
               "states are taken as they are held: after an event-removing filter the footers are those of the renumbered labels (open finding C06-footers-after-event-removal)"]
LEVEL_TEXT = ("Theorems (Coq): for every held state satisfying the storer invariant the writer model writes the rendering of a document whose events are the "
              "held events numbered from 0, each with its own end line; by C01 that document reads back to the held data rounded to the printed precision "
              "with the same counts; re-writing the re-read object gives the same file (fixpoint); one particle line round-trips column by column for any "
              "column scheme whose writer columns/formats agree with the loader tables, instantiated (no hypothesis left) for Oscar2013, Extended/22 and JETSCAPE; the same three theorems (write = render, read back, fixpoint) for the JETSCAPE writer. "
              "The writer models (Oscar and JETSCAPE) are compared token for token with the files the real writers produce, and a round-trip oracle runs "
              "load -> filters -> write -> read -> write on the real code for every case.")
LEVEL_NOTE = ("Oracle laws for % formatting assumed "
              "(exercised on every value of every case); one open finding (footers after event-removing filters).")
TECHNIQUE = "Coq proof: writer model = render of a document, composed with the C01 loader theorem; generic row round trip from regenerated tables; token-exact writer correspondence"

# filter histories applied before writing: (method name, args, removes_events)
MENU = [("charged_particles", [], False), ("uncharged_particles", [], False),
        ("pT_cut", [(0.3, None)], False), ("rapidity_cut", [1.0], False),
        ("particle_species", [[211, -211, 2212]], False), ("remove_particle_species", [[211, 22]], False),
        ("multiplicity_cut", [(2, None)], True), ("multiplicity_cut", [(1, 3)], True),
        ("lower_event_energy_cut", [2.0], True)]


def gen_case(rng, quick=True):
    if rng.random() < 0.35:
        d = J.gen_doc(rng, max_events=4, max_mult=3)
        kind = "jet"
    else:
        d = G.gen_doc(rng, max_events=4, max_mult=3)
        kind = "oscar"
    n = len(d["events"])
    if kind == "oscar":
        # every event its own impact parameter and ending, so that a misplaced end line is visible
        for i, ev in enumerate(d["events"]):
            ev["b"] = f"{i + 1}.{rng.choice([0, 125, 250, 500, 750])}"
            ev["yn"] = "yes" if i % 2 else "no"
        # empty events anywhere
        for ev in d["events"]:
            if rng.random() < 0.25:
                ev["rows"] = []
    r = rng.random()
    if r < 0.3:
        sel = None
    elif r < 0.5:
        sel = rng.randrange(n)
    elif r < 0.75 and n >= 3:
        a = rng.randrange(1, n - 1)            # ranges that do not start at the first event
        sel = [a, rng.randrange(a + 1, n)]
    else:
        a = rng.randrange(n)
        sel = [a, rng.randrange(a, n)]
    hist = []
    for _ in range(rng.choice([0, 0, 1, 1, 2, 3])):
        m = rng.choice(MENU)
        if kind == "oscar" and d["fmt"] == "ASCII":
            # custom files need the columns a filter reads; keep to filters on always-present data
            if m[0] not in ("multiplicity_cut",):
                continue
        hist.append(list(m))
    return {"kind": kind, "doc": d, "sel": sel, "hist": hist}


def _open(case, path=None, tmp=None, **extra):
    kw = dict(extra)
    if path is None:
        path = os.path.join(tmp, f"c06_src_{os.getpid()}" + (".dat" if case["kind"] == "jet" else ".oscar"))
        open(path, "w").write(J.render(case["doc"]) if case["kind"] == "jet" else G.render(case["doc"]))
        if case["sel"] is not None:
            kw["events"] = tuple(case["sel"]) if isinstance(case["sel"], list) else case["sel"]
    if case["kind"] == "jet":
        from sparkx.Jetscape import Jetscape as K
        kw["particletype"] = case["doc"]["ptype"]
    else:
        from sparkx.Oscar import Oscar as K
    return K(path, **kw), path


def apply_hist(o, hist):
    for name, args, _ in hist:
        a = [tuple(x) if isinstance(x, list) and name.endswith("_cut") else x for x in args]
        o = getattr(o, name)(*a)
    return o


PREC = {"f6": 6, "f9": 9}


def rounded(x, digits):
    return float(format(x, f".{digits}g"))


def col_precision(case):
    """per written column: ('i', None) integer or ('f', digits)"""
    if case["kind"] == "jet":
        return [("i", 0), ("i", 0), ("i", 0), ("f", 6), ("f", 6), ("f", 6), ("f", 6)]
    d = case["doc"]
    g9 = {"p0", "px", "py", "pz"}
    cols = d["cols"] if d["fmt"] == "ASCII" else G.HEADER_COLS[d["fmt"]]
    return [("i", 0) if G.ASCII_KIND[c] != "f" else ("f", 9 if c in g9 else 6) for c in cols]


def oracle(case):
    tmp = os.path.join(C.VERIF, ".work")
    os.makedirs(tmp, exist_ok=True)
    f1 = os.path.join(tmp, f"c06_w1_{os.getpid()}" + (".dat" if case["kind"] == "jet" else ".oscar"))
    f2 = os.path.join(tmp, f"c06_w2_{os.getpid()}" + (".dat" if case["kind"] == "jet" else ".oscar"))
    src = None
    try:
        with warnings.catch_warnings():
            warnings.simplefilter("ignore")
            # the scratch paths have a history: a file with other event-level metadata (trailer / impact parameters) was read
            # from the source path and written to / read back from the output path just before (same process); nothing of it
            # may survive when the paths are overwritten - this makes a stale per-path cache visible within ONE replayable case
            try:
                wdoc = json.loads(json.dumps(case["doc"]))
                if case["kind"] == "jet":
                    wdoc["sigma"], wdoc["sigerr"] = "7.5", "0.25"
                else:
                    for ev in wdoc["events"]:
                        if "b" in ev:
                            ev["b"] = "9.750"
                ow, _ = _open(dict(case, doc=wdoc, sel=None), tmp=tmp)
                ow.print_particle_lists_to_file(f1)
                _open(dict(case, doc=wdoc, sel=None), path=f1)
            except Exception:
                pass
            o, src = _open(case, tmp=tmp)
            before = [list(e) for e in o.particle_objects_list()]
            imp_before = list(o.impact_parameters()) if case["kind"] == "oscar" else None
            # the object has already been asked for its rows and printed once BEFORE the filter history (print - filter - print):
            # what is written afterwards is the filtered content
            try:
                o.particle_list()
                if o.num_events() != 0:
                    o.print_particle_lists_to_file(f2)
            except Exception:
                pass
            try:
                o = apply_hist(o, case["hist"])
            except Exception as e:
                return None                      # the filter history itself is rejected: nothing is written
            held = [list(e) for e in o.particle_objects_list()]
            if o.num_events() == 0:
                return None                      # an object without events has no file representation
            try:
                o.print_particle_lists_to_file(f1)
            except Exception as e:
                return f"print_particle_lists_to_file raises {type(e).__name__}: {e}"[:300]
            try:
                r, _ = _open(case, path=f1)
            except Exception as e:
                return f"the written file cannot be read back: {type(e).__name__}: {e}"[:300]
            got = [list(e) for e in r.particle_objects_list()]
            if len(got) != len(held):
                return f"{len(held)} events written, {len(got)} read back"
            prec = col_precision(case)
            plo = o.particle_list() if o.num_events() != 1 else [o.particle_list()]
            plr = r.particle_list() if r.num_events() != 1 else [r.particle_list()]
            for i, (eo, er) in enumerate(zip(plo, plr)):
                if len(eo) != len(er):
                    return f"event {i}: {len(eo)} particles written, {len(er)} read back"
                for j, (po, pr) in enumerate(zip(eo, er)):
                    if len(po) != len(pr):
                        return f"event {i} particle {j}: the object written holds {len(po)} columns, {len(pr)} are read back"
                    for c, (vo, vr) in enumerate(zip(po, pr)):
                        kind, dg = prec[c] if c < len(prec) else ("i", 0)
                        exp = int(vo) if kind == "i" else rounded(float(vo), dg)
                        if not (vr == exp or (isinstance(exp, float) and math.isnan(exp) and math.isnan(vr))):
                            return f"event {i} particle {j} column {c}: held {vo!r}, read back {vr!r}, expected {exp!r}"
            # integer columns exactly, read off the Particle objects themselves (independent of the row conversion the writer uses)
            for i, (eh, eg) in enumerate(zip(held, got)):
                for j, (ph, pg) in enumerate(zip(eh, eg)):
                    for attr in ("ID", "pdg", "charge", "ncoll", "proc_id_origin", "proc_type_origin", "pdg_mother1", "pdg_mother2",
                                 "baryon_number", "strangeness", "status"):
                        try:
                            vh, vg = getattr(ph, attr), getattr(pg, attr)
                        except Exception:
                            continue
                        if isinstance(vh, (int, float, np.integer, np.floating)) and not math.isnan(float(vh)):
                            if math.isnan(float(vg)) or float(vh) != float(vg):
                                return f"event {i} particle {j}: integer column {attr} holds {vh!r}, read back {vg!r}"
            if r.num_events() != o.num_events():
                return f"num_events {o.num_events()} written, {r.num_events()} read back"
            co = np.asarray(o.num_output_per_event()); cr = np.asarray(r.num_output_per_event())
            if co.size and (cr.ndim != 2 or co[:, 1].tolist() != cr[:, 1].tolist()):
                return f"per-event counts {co.tolist()} written, {cr.tolist()} read back"
            if case["kind"] == "oscar":
                # each held event keeps its own impact parameter (event identified through its particles)
                origin = {}
                for idx, ev in enumerate(before):
                    for p in ev:
                        origin[id(p)] = idx
                exp_imp = []
                known = True
                removed = len(held) != len(before)
                for pos, ev in enumerate(held):
                    if ev:
                        exp_imp.append(imp_before[origin[id(ev[0])]])
                    elif not removed:
                        exp_imp.append(imp_before[pos])
                    else:
                        known = False
                        break
                if known and [float(x) for x in r.impact_parameters()] != [float(x) for x in exp_imp]:
                    return (f"impact parameters read back {list(r.impact_parameters())}, the held events' own are {exp_imp}"
                            + (" (after an event-removing filter)" if removed else ""))
            else:
                if tuple(r.get_sigmaGen()) != tuple(o.get_sigmaGen()):
                    return f"sigmaGen {o.get_sigmaGen()} written, {r.get_sigmaGen()} read back"
                # ... and it is the trailer of THIS source file (scratch paths are reused from case to case on purpose: a path
                # that was read before and has been overwritten since must be read afresh)
                want = (G.nearest_double(case["doc"]["sigma"]), G.nearest_double(case["doc"]["sigerr"]))
                if tuple(float(x) for x in r.get_sigmaGen()) != want:
                    return f"sigmaGen read back {tuple(r.get_sigmaGen())}, the source file's trailer says {want}"
            r.print_particle_lists_to_file(f2)
            b1, b2 = open(f1, "rb").read(), open(f2, "rb").read()
            if b1 != b2:
                k = next((i for i in range(min(len(b1), len(b2))) if b1[i] != b2[i]), min(len(b1), len(b2)))
                return f"re-writing the re-read object is not a fixpoint: files differ at byte {k}: {b1[k-20:k+20]!r} vs {b2[k-20:k+20]!r}"
            return None
    finally:
        for p in (f1, f2, src):
            try:
                if p:
                    os.remove(p)
            except OSError:
                pass


PRELUDE = """From Coq Require Import List String ZArith QArith.
From SX Require Import Lib.Strs Gen.GenParticleMap Gen.GenFormats Model.Oscar Model.Writer.
Import ListNotations.
Local Open Scope string_scope.
"""


def write_case(case):
    """state of the real object right before writing + the file it writes, as a Coq check_write / check_jwrite term"""
    tmp = os.path.join(C.VERIF, ".work")
    f1 = os.path.join(tmp, f"c06_m_{os.getpid()}" + (".dat" if case["kind"] == "jet" else ".oscar"))
    src = None
    try:
        with warnings.catch_warnings():
            warnings.simplefilter("ignore")
            o, src = _open(case, tmp=tmp)
            try:
                o = apply_hist(o, case["hist"])
            except Exception:
                return None
            evs = o.particle_objects_list()
            if o.num_events() == 0:
                evs_c = "[]"
            else:
                evs_c = coq_list([coq_list([coq_list([G.coq_slot(x) for x in p.data_.tolist()]) for p in e]) for e in evs])
            cnt = np.asarray(o.num_output_per_event())
            cnt_c = coq_list([f"({z(a)}, {z(b)})%Z" for a, b in cnt.tolist()]) if cnt.ndim == 2 else "[]"
            try:
                o.print_particle_lists_to_file(f1)
                text = open(f1).read()
            except Exception:
                text = None
            if text is not None:
                # the sign of zero is not modelled (a value is the rational it denotes): compare "-0" as "0"
                text = "\n".join(" ".join("0" if t == "-0" else t for t in l.split(" ")) for l in text.split("\n"))
            vals = set()
            ints = set(range(0, 12))
            for e in evs:
                for p in e:
                    for x in p.data_.tolist():
                        if not math.isnan(x):
                            vals.add(x)
            for a, b in (cnt.tolist() if cnt.ndim == 2 else []):
                ints.add(int(b))
            ft = []
            vals = {0.0 if v == 0 else v for v in vals}
            for v in sorted(vals):
                ft.append(f"(FG, {q(v)}, {coq_str('%g' % v)})")
                ft.append(f"(FG9, {q(v)}, {coq_str('%.9g' % v)})")
                ft.append(f"(FD, {q(v)}, {coq_str('%d' % v)})")
            dt = [f"({z(i)}%Z, {coq_str(str(i))})" for i in sorted(ints)]
            if case["kind"] == "jet":
                srclines = open(src).read().split("\n")
                st = (f"{{| js_events := {evs_c}; js_nevents := {z(o.num_events())}%Z; js_counts := {cnt_c}; "
                      f"js_defstr := {coq_str(o.particle_type_defining_string_)}; "
                      f"js_header := {coq_list([coq_str(t) for t in J.tokens_of(srclines[0])])}; "
                      f"js_last := {coq_list([coq_str(t) for t in J.tokens_of(o.last_line_)])} |}}")
                if text is None:
                    w = "None"
                else:
                    ls = text.split("\n")
                    ls = ls[:-1] if ls and ls[-1] == "" else ls
                    w = "(Some " + J.coq_file(ls) + ")"
                return f"(check_jwrite (qstable {coq_list(ft)}) (zstable {coq_list(dt)}) {st} {w})"
            srclines = open(src).read().split("\n")
            foot = coq_list([coq_list([coq_str(t) for t in l.replace("\n", "").split(" ")]) for l in o.event_end_lines_])
            st = (f"{{| os_events := {evs_c}; os_nevents := {z(o.num_events())}%Z; os_counts := {cnt_c}; "
                  f"os_format := {coq_str(o.oscar_format_)}; os_attrs := {coq_list([coq_str(a) for a in o.custom_attr_list])}; "
                  f"os_footers := {foot}; os_header := {G.coq_file(srclines[:3])} |}}")
            if text is None:
                w = "None"
            else:
                ls = text.split("\n")
                ls = ls[:-1] if ls and ls[-1] == "" else ls
                w = "(Some " + G.coq_file(ls) + ")"
            return f"(check_write (qstable {coq_list(ft)}) (zstable {coq_list(dt)}) {st} {w})"
    finally:
        for p in (f1, src):
            try:
                if p:
                    os.remove(p)
            except OSError:
                pass


def classify(case, msg):
    if "after an event-removing filter" in msg:
        return "C06-footers-after-event-removal"
    return None


def correspondence(ctx, model_ok=True):
    n = 240 if ctx.quick else 3000
    cases = [gen_case(ctx.rng) for _ in range(n)]
    out = {"evaluations": n, "distinct_nontrivial": 0, "rule": "", "samples": [], "failures": [], "broken": []}
    keys = set()
    dist = Counter()
    for c in cases:
        msg = oracle(c)
        dist[(c["kind"], "sel" if c["sel"] is not None else "all", len(c["hist"]))] += 1
        if c["hist"] or c["sel"] is not None:
            keys.add(json.dumps(c, sort_keys=True))
        if msg:
            out["failures"].append(Failure(c, "property oracle", on_impl=msg, key=classify(c, msg)))
    # writer model against the files the real writers produce
    terms, tcases = [], []
    for c in cases:
        t = write_case(c)
        if t is not None:
            terms.append(t); tcases.append(c)
    ok, log = C.make(["Model/Writer.vo"])
    if not ok:
        out["broken"].append({"what": "Model/Writer.v does not build", "detail": log[-800:]})
    else:
        shard = 40
        files = [(f"c06_{i//shard}", PRELUDE + f"Eval vm_compute in {coq_list(terms[i:i+shard])}.\n") for i in range(0, len(terms), shard)]
        res = C.coq_eval_many(ctx, files)
        codes = []
        for (ok2, o2), (name, _) in zip(res, files):
            if not ok2:
                out["broken"].append({"what": f"cases file {name} failed", "detail": o2[-1500:]})
                break
            codes += C.parse_codes(o2)
        else:
            out["traces_validated_against_impl"] = sum(1 for x in codes if x == 0)
            dist["writer_model_codes"] = dict(Counter(codes))
            for c, code in zip(tcases, codes):
                if code != 0:
                    out["failures"].append(Failure(c, f"writer model and written file disagree (code {code})"))
    out["distinct_nontrivial"] = len(keys)
    out["distribution"] = {str(k): v for k, v in dist.items()}
    out["samples"] = [{"kind": c["kind"], "sel": c["sel"], "hist": c["hist"]} for c in cases[:4]]
    out["rule"] = ("random documents (Oscar2013 / Extended / ASCII / JETSCAPE) x event selection (none, k, (a,b)) x filter history of length 0-3 "
                   "(particle-level and event-removing filters); load, filter, write, read back, write again; non-trivial = a selection or a history")
    return out


def search(ctx):
    return [], 0

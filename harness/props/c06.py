"""C06 - written files read back to the same data; re-writing is a fixpoint."""
import json, os, math, warnings
from collections import Counter
import numpy as np
import common as C
from common import Failure, coq_list, q, z, coq_str
import oscgen as G
import jetgen as J

ID = "C06"
GEN = ["gen_particle_tables"]
ALLOWED_AXIOMS = []
TRUSTED = ["(interim) property oracle on the real writers/readers; the writer model and its theorems are being added"]
ASSUMPTIONS = []
LEVEL_TEXT = "interim: round-trip oracle on the real code over documents x selections x filter histories; theorems in preparation"
LEVEL_NOTE = "interim"
TECHNIQUE = "Coq proof on a writer model composed with the C01 loader theorem (in preparation); round-trip oracle"

# filter histories applied before writing: (method name, args, removes_events)
MENU = [("charged_particles", [], False), ("uncharged_particles", [], False),
        ("pT_cut", [(0.3, None)], False), ("rapidity_cut", [1.0], False),
        ("particle_species", [[211, -211, 2212]], False), ("remove_particle_species", [[211, 22]], False),
        ("multiplicity_cut", [(2, None)], True), ("multiplicity_cut", [(1, 3)], True),
        ("lower_event_energy_cut", [2.0], True)]


def gen_case(rng, quick=True):
    if rng.random() < 0.35:
        d = J.gen_doc(rng, max_events=4, max_mult=3)
        kind = "jet"
    else:
        d = G.gen_doc(rng, max_events=4, max_mult=3)
        kind = "oscar"
    n = len(d["events"])
    r = rng.random()
    if r < 0.4:
        sel = None
    elif r < 0.65:
        sel = rng.randrange(n)
    else:
        a = rng.randrange(n)
        sel = [a, rng.randrange(a, n)]
    hist = []
    for _ in range(rng.choice([0, 0, 1, 1, 2, 3])):
        m = rng.choice(MENU)
        if kind == "oscar" and d["fmt"] == "ASCII":
            # custom files need the columns a filter reads; keep to filters on always-present data
            if m[0] not in ("multiplicity_cut",):
                continue
        hist.append(list(m))
    return {"kind": kind, "doc": d, "sel": sel, "hist": hist}


def _open(case, path=None, tmp=None, **extra):
    kw = dict(extra)
    if path is None:
        path = os.path.join(tmp, f"c06_src_{os.getpid()}" + (".dat" if case["kind"] == "jet" else ".oscar"))
        open(path, "w").write(J.render(case["doc"]) if case["kind"] == "jet" else G.render(case["doc"]))
        if case["sel"] is not None:
            kw["events"] = tuple(case["sel"]) if isinstance(case["sel"], list) else case["sel"]
    if case["kind"] == "jet":
        from sparkx.Jetscape import Jetscape as K
        kw["particletype"] = case["doc"]["ptype"]
    else:
        from sparkx.Oscar import Oscar as K
    return K(path, **kw), path


def apply_hist(o, hist):
    for name, args, _ in hist:
        a = [tuple(x) if isinstance(x, list) and name.endswith("_cut") else x for x in args]
        o = getattr(o, name)(*a)
    return o


PREC = {"f6": 6, "f9": 9}


def rounded(x, digits):
    return float(format(x, f".{digits}g"))


def col_precision(case):
    """per written column: ('i', None) integer or ('f', digits)"""
    if case["kind"] == "jet":
        return [("i", 0), ("i", 0), ("i", 0), ("f", 6), ("f", 6), ("f", 6), ("f", 6)]
    d = case["doc"]
    g9 = {"p0", "px", "py", "pz"}
    cols = d["cols"] if d["fmt"] == "ASCII" else G.HEADER_COLS[d["fmt"]]
    return [("i", 0) if G.ASCII_KIND[c] != "f" else ("f", 9 if c in g9 else 6) for c in cols]


def oracle(case):
    tmp = os.path.join(C.VERIF, ".work")
    os.makedirs(tmp, exist_ok=True)
    f1 = os.path.join(tmp, f"c06_w1_{os.getpid()}" + (".dat" if case["kind"] == "jet" else ".oscar"))
    f2 = os.path.join(tmp, f"c06_w2_{os.getpid()}" + (".dat" if case["kind"] == "jet" else ".oscar"))
    src = None
    try:
        with warnings.catch_warnings():
            warnings.simplefilter("ignore")
            o, src = _open(case, tmp=tmp)
            before = [list(e) for e in o.particle_objects_list()]
            imp_before = list(o.impact_parameters()) if case["kind"] == "oscar" else None
            try:
                o = apply_hist(o, case["hist"])
            except Exception as e:
                return None                      # the filter history itself is rejected: nothing is written
            held = [list(e) for e in o.particle_objects_list()]
            if o.num_events() == 0:
                return None                      # an object without events has no file representation
            try:
                o.print_particle_lists_to_file(f1)
            except Exception as e:
                return f"print_particle_lists_to_file raises {type(e).__name__}: {e}"[:300]
            try:
                r, _ = _open(case, path=f1)
            except Exception as e:
                return f"the written file cannot be read back: {type(e).__name__}: {e}"[:300]
            got = [list(e) for e in r.particle_objects_list()]
            if len(got) != len(held):
                return f"{len(held)} events written, {len(got)} read back"
            prec = col_precision(case)
            plo = o.particle_list() if o.num_events() != 1 else [o.particle_list()]
            plr = r.particle_list() if r.num_events() != 1 else [r.particle_list()]
            for i, (eo, er) in enumerate(zip(plo, plr)):
                if len(eo) != len(er):
                    return f"event {i}: {len(eo)} particles written, {len(er)} read back"
                for j, (po, pr) in enumerate(zip(eo, er)):
                    for c, (vo, vr) in enumerate(zip(po, pr)):
                        kind, dg = prec[c] if c < len(prec) else ("i", 0)
                        exp = int(vo) if kind == "i" else rounded(float(vo), dg)
                        if not (vr == exp or (isinstance(exp, float) and math.isnan(exp) and math.isnan(vr))):
                            return f"event {i} particle {j} column {c}: held {vo!r}, read back {vr!r}, expected {exp!r}"
            if r.num_events() != o.num_events():
                return f"num_events {o.num_events()} written, {r.num_events()} read back"
            co = np.asarray(o.num_output_per_event()); cr = np.asarray(r.num_output_per_event())
            if co.size and (cr.ndim != 2 or co[:, 1].tolist() != cr[:, 1].tolist()):
                return f"per-event counts {co.tolist()} written, {cr.tolist()} read back"
            if case["kind"] == "oscar":
                # each held event keeps its own impact parameter (event identified through its particles)
                origin = {}
                for idx, ev in enumerate(before):
                    for p in ev:
                        origin[id(p)] = idx
                exp_imp = []
                known = True
                removed = len(held) != len(before)
                for pos, ev in enumerate(held):
                    if ev:
                        exp_imp.append(imp_before[origin[id(ev[0])]])
                    elif not removed:
                        exp_imp.append(imp_before[pos])
                    else:
                        known = False
                        break
                if known and [float(x) for x in r.impact_parameters()] != [float(x) for x in exp_imp]:
                    return (f"impact parameters read back {list(r.impact_parameters())}, the held events' own are {exp_imp}"
                            + (" (after an event-removing filter)" if removed else ""))
            else:
                if tuple(r.get_sigmaGen()) != tuple(o.get_sigmaGen()):
                    return f"sigmaGen {o.get_sigmaGen()} written, {r.get_sigmaGen()} read back"
            r.print_particle_lists_to_file(f2)
            b1, b2 = open(f1, "rb").read(), open(f2, "rb").read()
            if b1 != b2:
                k = next((i for i in range(min(len(b1), len(b2))) if b1[i] != b2[i]), min(len(b1), len(b2)))
                return f"re-writing the re-read object is not a fixpoint: files differ at byte {k}: {b1[k-20:k+20]!r} vs {b2[k-20:k+20]!r}"
            return None
    finally:
        for p in (f1, f2, src):
            try:
                if p:
                    os.remove(p)
            except OSError:
                pass


def classify(case, msg):
    if "after an event-removing filter" in msg:
        return "C06-footers-after-event-removal"
    return None


def correspondence(ctx, model_ok=True):
    n = 150 if ctx.quick else 2500
    cases = [gen_case(ctx.rng) for _ in range(n)]
    out = {"evaluations": n, "distinct_nontrivial": 0, "rule": "", "samples": [], "failures": [], "broken": []}
    keys = set()
    dist = Counter()
    for c in cases:
        msg = oracle(c)
        dist[(c["kind"], "sel" if c["sel"] is not None else "all", len(c["hist"]))] += 1
        if c["hist"] or c["sel"] is not None:
            keys.add(json.dumps(c, sort_keys=True))
        if msg:
            out["failures"].append(Failure(c, "property oracle", on_impl=msg, key=classify(c, msg)))
    out["distinct_nontrivial"] = len(keys)
    out["distribution"] = {str(k): v for k, v in dist.items()}
    out["samples"] = [{"kind": c["kind"], "sel": c["sel"], "hist": c["hist"]} for c in cases[:4]]
    out["rule"] = ("random documents (Oscar2013 / Extended / ASCII / JETSCAPE) x event selection (none, k, (a,b)) x filter history of length 0-3 "
                   "(particle-level and event-removing filters); load, filter, write, read back, write again; non-trivial = a selection or a history")
    return out


def search(ctx):
    return [], 0

"""C13 - multi-particle pT correlations (MultiParticlePtCorrelations.py)."""
import itertools, math
from fractions import Fraction
import numpy as np
import common as C
from common import Failure, q, coq_list

ID = "C13"
GEN = ["gen_ptcorr"]
ALLOWED_AXIOMS = C.STD_REAL_AXIOMS
TRUSTED = [
    "Coq 8.16.1 kernel + vm_compute (no native_compute)",
    "translator tools/py2coq/gen_ptcorr.py (poly extractor): reads the if-chains of "
    "_transverse_momentum_correlations_event_num_denom and _kappa_cumulant into ring expressions",
    "hand model coq/Model/PtCorr.v of _P_W_k, the event-sum ratio and the cumulant driver, tied by this run's correspondence",
    "float rounding is not modelled: theorems are exact identities over any commutative ring (instances R, Qc, Z)",
]
ASSUMPTIONS = ["pT_abs() is an oracle value per particle (C08 covers it)",
               "C13_numerator_R depends on the stdlib real-number axioms only (sig_forall_dec, sig_not_dec, functional_extensionality_dep)"]


def mk_events(spec):
    from sparkx.Particle import Particle
    evs = []
    for ev in spec:
        l = []
        for pt, w in ev:
            p = Particle()
            p.px = float(pt)
            p.py = 0.0
            if w is not None:
                p.weight = float(w)
            l.append(p)
        evs.append(l)
    return evs


def run_impl(case):
    """real code: N_events, D_events, correlations, cumulants"""
    from sparkx.MultiParticlePtCorrelations import MultiParticlePtCorrelations
    mo = case["max_order"]
    obj = MultiParticlePtCorrelations(max_order=mo)
    with np.errstate(all="ignore"):
        if case.get("prev") is not None:
            # the same object has analysed another sample (same number of events) before: the results for this sample
            # must not depend on that history
            if case.get("inplace"):
                # ... and it was the SAME list object, changed in place afterwards (events replaced / refilled)
                L = mk_events(case["prev"])
                obj.mean_pT_correlations(L, compute_error=False)
                if case["inplace"] == "cumulants_first":
                    obj.mean_pT_cumulants(L, compute_error=False)
                new = mk_events(case["events"])
                for i in range(len(L)):
                    if case["inplace"] == "inner":
                        L[i][:] = new[i]
                    else:
                        L[i] = new[i]
                kap_first = obj.mean_pT_cumulants(L, compute_error=False)
                corr = obj.mean_pT_correlations(L, compute_error=False)
            else:
                obj.mean_pT_correlations(mk_events(case["prev"]), compute_error=False)
                kap_first = obj.mean_pT_cumulants(mk_events(case["events"]), compute_error=False)
                corr = obj.mean_pT_correlations(mk_events(case["events"]), compute_error=False)
            N = np.array(obj.N_events, dtype=float).reshape(len(case["events"]), -1)
            D = np.array(obj.D_events, dtype=float).reshape(len(case["events"]), -1)
            return {"N": N.tolist(), "D": D.tolist(), "corr": list(map(float, corr)), "kappa": list(map(float, kap_first))}
        corr = obj.mean_pT_correlations(mk_events(case["events"]), compute_error=False)
        N = np.array(obj.N_events, dtype=float).reshape(len(case["events"]), -1)
        D = np.array(obj.D_events, dtype=float).reshape(len(case["events"]), -1)
        obj2 = MultiParticlePtCorrelations(max_order=mo)
        kap = obj2.mean_pT_cumulants(mk_events(case["events"]), compute_error=False)
    return {"N": N.tolist(), "D": D.tolist(), "corr": list(map(float, corr)), "kappa": list(map(float, kap))}


def dsum_brute(k, xs):
    """sum over ordered k-tuples of distinct positions of the product (exact)"""
    tot = Fraction(0)
    for comb in itertools.combinations(range(len(xs)), k):
        pr = Fraction(1)
        for i in comb:
            pr *= xs[i]
        tot += pr
    return tot * math.factorial(k)


def cumulants_from(Cs):
    ks = []
    for n in range(1, len(Cs) + 1):
        v = Cs[n - 1] - sum(math.comb(n - 1, j - 1) * ks[j - 1] * Cs[n - j - 1] for j in range(1, n))
        ks.append(v)
    return ks


def oracle(case):
    """property oracle on the real code: definition by brute force over distinct tuples (exact rationals)"""
    got = run_impl(case)
    mo = case["max_order"]
    Cs = []
    for k in range(1, mo + 1):
        n = d = Fraction(0)
        for ev in case["events"]:
            w = [Fraction(1) if x[1] is None else Fraction(x[1]) for x in ev]
            a = [wi * Fraction(x[0]) for wi, x in zip(w, ev)]
            n += dsum_brute(k, a)
            d += dsum_brute(k, w)
        if d == 0:
            Cs.append(None)
            continue
        Cs.append(n / d)
        g = got["corr"][k - 1]
        if not (math.isfinite(g) and abs(Fraction(g) - n / d) <= Fraction(1, 10**9) * (abs(n / d) + abs(Fraction(g)))):
            return (f"mean_pT_correlations order k={k}: implementation returns {g!r}, the sum over distinct "
                    f"{k}-tuples gives {n}/{d} = {float(n/d)!r}")
    if all(c is not None for c in Cs):
        ks = cumulants_from(Cs)
        for k in range(1, mo + 1):
            g = got["kappa"][k - 1]
            scale = abs(ks[k - 1]) + sum(abs(c) ** k for c in Cs[:1]) + 1
            if not (math.isfinite(g) and abs(Fraction(g) - ks[k - 1]) <= Fraction(1, 10**7) * scale):
                return f"mean_pT_cumulants kappa_{k}: implementation {g!r}, moment-cumulant recursion {float(ks[k-1])!r}"
    return None


def gen_case(rng, small=False, mo=None, nev=None, history=True):
    """regime A (2/3): small integers, every float operation exact, multiplicities may be below k;
    regime B: dyadic pT / weights, multiplicities above k (no catastrophic cancellation), tolerance 1e-9;
    a third of the cases come with a previous sample of the same size analysed by the same object first"""
    top = mo is None
    mo = mo or rng.choice([1, 2, 3, 4, 5, 6, 7, 8, 8, 8, 6, 4])
    nev = nev or rng.choice([1, 1, 2, 2, 3, 4])
    evs = []
    exact = rng.random() < 0.67
    weighted = rng.random() < 0.6
    for _ in range(nev):
        if exact:
            m = rng.choice([mo, mo, mo + 1, mo + 2, max(0, mo - 1), rng.randint(0, mo + 2)])
        else:
            m = mo + rng.choice([1, 1, 2, 3])
        if small:
            m = min(m, 8)
        ev = []
        for _ in range(m):
            if exact:
                pt = rng.choice([1, 1, 2, 2, 3, 0])
                w = rng.choice([1, 2]) if weighted and rng.random() < 0.5 else None
            else:
                pt = rng.choice([1, 2, 3, 0.5, 1.5, 0.25, 0.75])
                w = rng.choice([1, 2, 0.5, 1.5]) if weighted and rng.random() < 0.7 else None
            ev.append([pt, w])
        if exact:  # keep every intermediate of the order-8 polynomials below 2^53
            while sum((p[1] or 1) * p[0] for p in ev) > 20 or sum((p[1] or 1) for p in ev) > 20:
                i = max(range(len(ev)), key=lambda i: (ev[i][1] or 1) * ev[i][0])
                ev[i] = [1, None]
        evs.append(ev)
    if all(len(e) < mo for e in evs):
        evs[0] = [[rng.choice([1, 2]), None] for _ in range(mo)]
    if exact and nev > 1 and rng.random() < 0.12:
        i = rng.randrange(nev)                      # an event of particles at rest in the transverse plane (pT = 0)
        evs[i] = [[0, p[1]] for p in evs[i]] or [[0, None] for _ in range(mo)]
    case = {"max_order": mo, "events": evs}
    if top and history and rng.random() < 0.33:
        case["prev"] = gen_case(rng, small=small, mo=mo, nev=nev, history=False)["events"]
        if rng.random() < 0.5:
            case["inplace"] = rng.choice(["inner", "outer", "cumulants_first"])
    return case


def fv(x):
    if math.isnan(x):
        return "NaN"
    if math.isinf(x):
        return "PInf" if x > 0 else "NInf"
    return f"(Fin {q(x)})"


PRELUDE = """From Coq Require Import List ZArith QArith Qabs.
From SX Require Import Lib.KRing Lib.QCheck Gen.GenPtCorr Model.PtCorr.
Import ListNotations.
Local Open Scope Q_scope.
Definition tol : Q := 1 # 1000000000.
(* cumulants are differences of large terms: the float error scales with the terms, not the result *)
Definition kscale (evs : list (list (Q * option Q))) (c : nat) : Q :=
  let C1 := match qcorr 0 evs with Some v => Qabs v | None => 0 end in
  let b := if Qle_bool 1 C1 then C1 else 1 in
  100000 * fold_right Qplus 0 (map (fun j => match qcorr j evs with Some v => Qabs v * Qpower b (Z.of_nat (c - j)) | None => 0 end) (seq 0 (S c))).
Fixpoint cmp_kappa (evs : list (list (Q * option Q))) (c : nat) (eK : list fv) : nat :=
  match eK with
  | [] => 0%nat
  | e :: t =>
    Nat.max (match qkappa c evs, e with
             | Some m, Fin i => if Qeq_bool m i then 0 else if Qle_bool (Qabs (m - i)) ((1 # 1000000000000) * kscale evs c) then 1 else 2
             | None, Fin _ => 2 | Some _, _ => 2 | None, _ => 0 end)%nat
            (cmp_kappa evs (S c) t)
  end.
Definition check (mo : nat) (evs : list (list (Q * option Q))) (eN eD : list (list fv)) (eC eK : list fv) : nat :=
  let ords := seq 0 mo in
  worst [ worst (map (fun er => cmp_list tol (map (fun c => qN c (fst er)) ords) (snd er)) (combine evs eN));
          worst (map (fun er => cmp_list tol (map (fun c => qD c (fst er)) ords) (snd er)) (combine evs eD));
          (if Nat.eqb (length eN) (length evs) then 0 else 3)%nat;
          cmp_list tol (map (fun c => qcorr c evs) ords) eC;
          cmp_kappa evs 0 eK ].
"""


def coq_case(case, got):
    evs = coq_list([coq_list([f"({q(p[0])}, {C.coq_opt(p[1], q)})" for p in ev]) for ev in case["events"]])
    eN = coq_list([coq_list([fv(x) for x in row]) for row in got["N"]])
    eD = coq_list([coq_list([fv(x) for x in row]) for row in got["D"]])
    eC = coq_list([fv(x) for x in got["corr"]])
    eK = coq_list([fv(x) for x in got["kappa"]])
    return f"(check {case['max_order']} {evs} {eN} {eD} {eC} {eK})"


def correspondence(ctx, model_ok=True):
    n = 240 if ctx.quick else 4000
    cases, gots, failures = [], [], []
    import os, json
    corpus = os.path.join(C.VERIF, "corpus", ID)
    if os.path.isdir(corpus):
        for fn in sorted(os.listdir(corpus)):
            cases.append(json.load(open(os.path.join(corpus, fn)))["case"])
    while len(cases) < n:
        cases.append(gen_case(ctx.rng))
    for c in cases:
        gots.append(run_impl(c))
    dist = {"max_order": {}, "n_events": {}, "weighted_cases": 0, "events_below_k": 0}
    keys = set()
    for c in cases:
        dist["max_order"][c["max_order"]] = dist["max_order"].get(c["max_order"], 0) + 1
        dist["n_events"][len(c["events"])] = dist["n_events"].get(len(c["events"]), 0) + 1
        dist["weighted_cases"] += any(p[1] is not None for e in c["events"] for p in e)
        dist["events_below_k"] += any(len(e) < c["max_order"] for e in c["events"])
        if any(len(e) >= 2 for e in c["events"]):
            keys.add(json.dumps(c, sort_keys=True))
    out = {"evaluations": len(cases), "distinct_nontrivial": len(keys), "distribution": dist,
           "rule": "seeded random event samples (1-4 events, multiplicities around max_order incl. below it, small "
                   "integer/dyadic pT, unset or dyadic weights); non-trivial = at least one event with >= 2 particles; "
                   "distinct by canonical JSON; model = generated polynomials + Model/PtCorr.v evaluated at exact Q by "
                   "vm_compute, compared with N_events, D_events, correlations and cumulants of the real code "
                   "(exact, or within 1e-9 relative where float rounding enters)",
           "samples": cases[:3], "model_runner": "Eval vm_compute in generated cases files (sharded coqc)",
           "failures": [], "broken": []}
    out["all_cases"] = cases          # the driver runs the property oracle on these as well
    if not model_ok:
        out["broken"].append({"what": "correspondence not run: the model's proofs/definitions did not build"})
        return out
    ok, log = C.make(["Model/PtCorr.vo", "Lib/QCheck.vo"])
    if not ok:
        out["broken"].append({"what": "model Model/PtCorr.v does not build", "detail": log[-800:]})
        return out
    shard = 120
    files = []
    for i in range(0, len(cases), shard):
        body = coq_list([coq_case(c, g) for c, g in zip(cases[i:i + shard], gots[i:i + shard])])
        files.append((f"c13_{i//shard}", PRELUDE + f"Eval vm_compute in {body}.\n"))
    res = C.coq_eval_many(ctx, files)
    codes = []
    for (ok, o), (name, _) in zip(res, files):
        if not ok:
            out["broken"].append({"what": f"cases file {name} failed to evaluate", "detail": o[-800:]})
            return out
        codes += C.parse_codes(o)
    if len(codes) != len(cases):
        out["broken"].append({"what": "cases output could not be parsed", "detail": f"{len(codes)} codes for {len(cases)} cases"})
        return out
    out["exact_agreements"] = sum(1 for c in codes if c == 0)
    out["tolerance_agreements"] = sum(1 for c in codes if c == 1)
    out["traces_validated_against_impl"] = sum(1 for c in codes if c <= 1)
    for c, g, code in zip(cases, gots, codes):
        if code >= 2:
            out["failures"].append(Failure(c, f"model and implementation disagree (code {code}): impl={g}"))
    return out


def search(ctx):
    """property oracle on the real code over small samples (brute-force tuple sums)"""
    found, n = [], 0
    budget = 150 if ctx.quick else 1500
    for i in range(budget):
        c = gen_case(ctx.rng, small=True)
        n += 1
        msg = oracle(c)
        if msg:
            c = shrink(c)
            found.append(Failure(c, "property oracle fails on the implementation", on_impl=oracle(c)))
            break
    return found, n


def shrink(case):
    """greedy: drop events, drop particles, lower max_order while the oracle still fails"""
    cur = case
    changed = True
    while changed:
        changed = False
        for cand in _smaller(cur):
            try:
                if oracle(cand):
                    cur, changed = cand, True
                    break
            except Exception:
                pass
    return cur


def _smaller(c):
    evs, prev = c["events"], c.get("prev")

    def mk(e, pv=prev):
        d = {"max_order": c["max_order"], "events": e}
        if pv is not None:
            d["prev"] = pv
            if c.get("inplace"):
                d["inplace"] = c["inplace"]
        return d
    if prev is not None:
        yield mk(evs, None)
    for i in range(len(evs)):
        if len(evs) > 1:
            yield mk(evs[:i] + evs[i + 1:], None if prev is None else prev[:i] + prev[i + 1:])
    for i, ev in enumerate(evs):
        for j in range(len(ev)):
            yield mk(evs[:i] + [ev[:j] + ev[j + 1:]] + evs[i + 1:])
    for i, ev in enumerate(evs):
        for j, p in enumerate(ev):
            if p[1] is not None:
                yield mk(evs[:i] + [ev[:j] + [[p[0], None]] + ev[j + 1:]] + evs[i + 1:])
            if p[0] != 1:
                yield mk(evs[:i] + [ev[:j] + [[1, p[1]]] + ev[j + 1:]] + evs[i + 1:])


"""C12 (part): Q-cumulant ERRORS, integrated and differential - correspondence of Gen/GenQCumulantErr.v +
Model/QCumulantErr.v with the real QCumulantFlow, and the metamorphic property oracle for these outputs.

Called from c12.py:   import props.c12_qcerr as QE ;  part = QE.correspondence_part(ctx)   (or cases / run_impl / coq_cases).
GEN needs "gen_qcumulant" and "gen_qcumulant_err", EXTRA_PROPERTY_FILES "C12QCErr".

Cases: particles on rational points of the unit circle for the harmonic n (so the Q instance of the model is exact up to the
root oracles), 2-4 events, multiplicities k..k+4.  The estimator adds a random reaction-plane angle per event from the
module-level `random` generator: it is seeded per case (`random.seed`), and by C12_qc_*_invariant it is immaterial.
"""
import math, random
import numpy as np
import common as C
from common import Failure, q, coq_list
from props import c11

MAX_CASES = 60
SELECTORS = c11.SELECTORS


# --------------------------------------------------------------------------------------------- cases
def gen_case(rng):
    mode = "int" if rng.random() < 0.5 else "diff"
    k = rng.choice([2, 4, 6]) if mode == "int" else rng.choice([2, 4])
    n = rng.choice([1, 2, 2, 3])
    nev = rng.choice([2, 3, 3, 4])
    evs = [[c11.gen_particle(rng) for _ in range(k + rng.randint(0, 4) + (2 if mode == "diff" else 0))] for _ in range(nev)]
    case = {"n": n, "k": k, "imag": rng.choice(["zero", "negative", "nan"]), "mode": mode, "events": evs, "seed": rng.randint(0, 10**6)}
    if mode == "diff":
        sel = rng.choice(SELECTORS)
        case["sel"] = sel
        case["bins"] = rng.choice([[0.0, 1.0, 3.0], [0.0, 3.0], [0.4, 1.4]]) if sel == "pT" else \
            rng.choice([[-2.0, 0.0, 2.0], [-3.0, 3.0], [-0.5, 1.5]])
        case["poi"] = rng.choice([None, None, [211], [211, -211]])
    if rng.random() < 0.2:
        e = rng.randrange(nev)
        i, j = sorted(rng.sample(range(len(evs[e])), 2))
        evs[e][j] = dict(evs[e][i])
        case["dup_in_event"] = [[e, i, j]]          # one Particle object at two positions of an event (see c11.mk_events)
    return case


def has_finite(got):
    return any(isinstance(v, float) and math.isfinite(v) and abs(v) > 1e-6 for v in _flat(got))


def cases(ctx):
    """equal shares of integrated k = 2/4/6 and differential k = 2/4; three quarters of every share are samples on which the
    real code returns a finite error (the fractional powers of a negative cumulant give NaN on about half of all samples)"""
    n = 10 if ctx.quick else MAX_CASES
    classes = [("int", 2), ("int", 4), ("int", 6), ("diff", 2), ("diff", 4)]
    quota = {cl: n // len(classes) for cl in classes}
    loose = {cl: quota[cl] // 4 for cl in classes}
    out, tries = [], 0
    while len(out) < n and tries < 40 * n:
        tries += 1
        c = gen_case(ctx.rng)
        cl = (c["mode"], c["k"])
        if quota[cl] <= 0:
            continue
        if not has_finite(run_impl(c)):
            if loose[cl] <= 0:
                continue
            loose[cl] -= 1
        quota[cl] -= 1
        out.append(c)
    return out


# --------------------------------------------------------------------------------------------- real code
def _events(case, alphas=None):
    evs = c11.mk_events(case)
    if alphas is not None:
        out, done = [], set()
        for ev, specs, a in zip(evs, case["events"], alphas):
            row = []
            for P, s in zip(ev, specs):
                if id(P) not in done:                  # an object listed twice (dup_in_event) is rotated once
                    done.add(id(P))
                    pt = float(s["pt"])
                    phi = P.phi() + a
                    P.px, P.py = pt * math.cos(phi), pt * math.sin(phi)
                row.append(P)
            out.append(row)
        evs = out
    return evs


def run_real(case, evs):
    """the real errors: integrated -> {'err': float, 'corr_err': {k: float}}, differential -> {'bins': [float | None]}"""
    from sparkx.flow.QCumulantFlow import QCumulantFlow
    import warnings
    random.seed(case.get("seed", 0))
    with np.errstate(all="ignore"), warnings.catch_warnings():
        warnings.simplefilter("ignore")
        try:
            obj = QCumulantFlow(n=case["n"], k=case["k"], imaginary=case["imag"])
            if case["mode"] == "int":
                out = {"err": float(obj.integrated_flow(evs)[1]), "corr_err": {}}
                phi = [[P.phi() for P in ev] for ev in evs]
                for kk in (2, 4, 6):
                    if kk <= case["k"]:
                        out["corr_err"][str(kk)] = float(obj._QCumulantFlow__calculate_corr(phi, kk)[1])
                return out
            r = obj.differential_flow(evs, list(case["bins"]), case["sel"], case["poi"])
            return {"bins": [None if len(b) == 0 else float(np.real(b[1])) for b in r]}
        except (ValueError, TypeError, IndexError, UnboundLocalError, ZeroDivisionError) as e:
            return {"exc": type(e).__name__}


def run_impl(case):
    return run_real(case, _events(case))


# --------------------------------------------------------------------------------------------- property oracle
def _same(a, b):
    if a is None or b is None:
        return a is None and b is None
    if not (math.isfinite(a) and math.isfinite(b)):
        return (math.isnan(a) and math.isnan(b)) or a == b or abs(a if math.isfinite(a) else b) <= 1e-6
    return abs(a - b) <= 1e-7 * (abs(a) + abs(b)) + 1e-10 or abs(a * a - b * b) <= 1e-12


def _flat(r):
    if "exc" in r:
        return [("exc", r["exc"])]
    if "bins" in r:
        return list(r["bins"])
    return [r["err"]] + [r["corr_err"][k] for k in sorted(r["corr_err"])]


def _full(r):
    """values and errors of a return value of integrated_flow / differential_flow as a flat list of floats / None"""
    if isinstance(r, tuple) and len(r) == 2 and not isinstance(r[0], (list, tuple, np.ndarray)):
        r = [r]
    out = []
    for b in r:
        if len(b) == 0:
            out.append(None)
        else:
            out += [float(np.real(b[0])), float(np.imag(b[0])), float(np.real(b[1]))]
    return out


def _history(case, rng):
    """ONE QCumulantFlow object asked one to three other questions about the SAME list objects first (integrated flow, the
    differential flow with another selector / other bins / the same ones): the answer to the final question is the one a fresh
    object gives (nothing but the random reaction planes - which the estimate does not depend on - may differ between calls)"""
    from sparkx.flow.QCumulantFlow import QCumulantFlow
    import warnings

    def ask(obj, evs, q):
        if q[0] == "int":
            return obj.integrated_flow(evs)
        return obj.differential_flow(evs, list(q[2]), q[1], q[3])

    final = ("int",) if case["mode"] == "int" else ("diff", case["sel"], case["bins"], case["poi"])
    pool = [("int",), ("diff", "pT", [0.0, 1.0, 3.0], None), ("diff", "rapidity", [-2.0, 0.0, 2.0], None),
            ("diff", "pseudorapidity", [-3.0, 3.0], None), final]
    if case["k"] == 6:
        pool = [("int",)]
    before = [rng.choice(pool) for _ in range(rng.choice([1, 1, 2, 3]))]
    with np.errstate(all="ignore"), warnings.catch_warnings():
        warnings.simplefilter("ignore")
        try:
            random.seed(case.get("seed", 0))
            fresh = _full(ask(QCumulantFlow(n=case["n"], k=case["k"], imaginary=case["imag"]), _events(case), final))
            ref = QCumulantFlow(n=case["n"], k=case["k"], imaginary=case["imag"]).integrated_flow(_events(case))[0]
        except (ValueError, TypeError, IndexError, UnboundLocalError, ZeroDivisionError):
            return None
        if not np.isfinite(ref) or abs(ref) ** case["k"] < 1e-6:
            return None          # the reference cumulant (nearly) vanishes: its roots amplify the rounding of the random planes
        evs = _events(case)
        obj = QCumulantFlow(n=case["n"], k=case["k"], imaginary=case["imag"])
        for q in before:
            try:
                ask(obj, evs, q)
            except (ValueError, TypeError, IndexError, UnboundLocalError, ZeroDivisionError):
                pass
        try:
            again = _full(ask(obj, evs, final))
        except Exception as e:
            return (f"QCumulantFlow(n={case['n']}, k={case['k']}): {final} raises {type(e).__name__} on an object asked {before} about "
                    f"the same events before; a fresh object returns {fresh}")
    if len(again) != len(fresh) or not all(_same_val(x, y) for x, y in zip(fresh, again)):
        return (f"QCumulantFlow(n={case['n']}, k={case['k']}): {final} on an object asked {before} about the same events before "
                f"returns {again}; a fresh object returns {fresh}")
    return None


def _same_val(a, b):
    if a is None or b is None:
        return a is None and b is None
    if not (math.isfinite(a) and math.isfinite(b)):
        return (math.isnan(a) and math.isnan(b)) or a == b
    return abs(a - b) <= 1e-6 * (abs(a) + abs(b)) + 1e-9


def oracle(case):
    """metamorphic statement of C12 for the Q-cumulant errors on the real code: rotating every event by its own angle,
    reordering the particles of every event and reordering the events leaves every returned error unchanged"""
    rng = random.Random(case.get("seed", 0) + 17)
    base = _flat(run_impl(case))
    if base and isinstance(base[0], tuple):
        return None
    alphas = [rng.uniform(0.0, 6.0) for _ in case["events"]]
    rot = _flat(run_real(case, _events(case, alphas)))
    perm = dict(case, events=[rng.sample(ev, len(ev)) for ev in case["events"]])
    perm["events"] = rng.sample(perm["events"], len(perm["events"]))
    per = _flat(run_impl(perm))
    hist = _history(case, rng)
    if hist:
        return hist
    for what, other in (("rotating every event by its own angle", rot), ("reordering particles and events", per)):
        if len(other) != len(base) or not all((isinstance(x, tuple) and x == y) or (not isinstance(x, tuple) and not isinstance(y, tuple) and _same(x, y))
                                              for x, y in zip(base, other)):
            return (f"QCumulantFlow(n={case['n']}, k={case['k']}) {case['mode']} errors change under {what}: {base} -> {other}")
    return None


# --------------------------------------------------------------------------------------------- Coq side
PRELUDE = """From Coq Require Import String ZArith QArith Qabs Bool List.
From SX Require Import Lib.KRing Lib.Cpx Lib.QCheck Gen.GenQCumulant Model.QCumulant Gen.GenQCumulantErr Model.QCumulantErr.
Import ListNotations.
Local Open Scope Q_scope.
Definition tol : Q := 1 # 1000000000.
Inductive impl := IErr | IEmpty | IVal (v : Q) | ISkip.
(* errors are square roots: agreement of the values (relative 1e-9 or absolute 1e-11) or of their squares (absolute 1e-13) *)
Definition cmpe (m i : Q) : nat :=
  if Qeq_bool m i then 0%nat else if close tol m i then 1%nat
  else if Qle_bool (Qabs (m - i)) (1 # 100000000000) then 1%nat
  else if Qle_bool (Qabs (m * m - i * i)) (1 # 10000000000000) then 1%nat else 2%nat.
Definition cmp_int (m : option Q) (i : impl) : nat :=
  match m, i with _, ISkip => 0 | None, IErr => 0 | Some a, IVal b => cmpe a b | _, _ => 2 end%nat.
Definition cmp_bin (m : dres Q) (i : impl) : nat :=
  match m, i with
  | _, ISkip => 0 | DErr _, IErr => 0 | DEmpty _, IEmpty => 0 | DVal _ (Some a), IVal b => cmpe a b | _, _ => 2
  end%nat.
Definition P (z1 z2 pt y eta : Q) (pdg : Z) : qpart := Build_qpart (z1, z2) pt y eta pdg.
Definition EV (l : list qpart) : event Q qpart := ((1, 0), l).
Definition chk_int (k : nat) (imag : string) (evs : list (event Q qpart)) (err : impl) (cerrs : list (nat * Q)) : nat :=
  worst (cmp_int (qqc_error k imag evs) err :: map (fun c => cmpe (qqc_corr_err (fst c) evs) (snd c)) cerrs).
Definition chk_diff (k : nat) (imag sel : string) (poi : option (list Z)) (evs : list (event Q qpart))
                    (bins : list (Q * Q * impl)) : nat :=
  worst (map (fun b => cmp_bin (qqc_diff_error k imag sel (fst (fst b)) (snd (fst b)) poi evs) (snd b)) bins).
"""


def coq_impl(x):
    if x is None:
        return "IEmpty"
    if not math.isfinite(x):
        return "ISkip"              # NaN / inf (root of a negative number, vanishing denominator): not represented in the model
    return f"(IVal {q(x)})"


def coq_case(case, got):
    if case["mode"] == "int":
        if "exc" in got:
            return f"(chk_int {case['k']} {C.coq_str(case['imag'])} {c11.coq_events(case)} IErr [])"
        cerrs = [f"({kk}%nat, {q(v)})" for kk, v in sorted(got["corr_err"].items()) if math.isfinite(v)]
        return f"(chk_int {case['k']} {C.coq_str(case['imag'])} {c11.coq_events(case)} {coq_impl(got['err'])} {coq_list(cerrs)})"
    edges = case["bins"]
    bins = [f"({q(edges[b])}, {q(edges[b + 1])}, {'IErr' if 'exc' in got else coq_impl(got['bins'][b])})" for b in range(len(edges) - 1)]
    poi = "None" if case["poi"] is None else "(Some " + coq_list([f"({int(x)})%Z" for x in case["poi"]]) + ")"
    return (f"(chk_diff {case['k']} {C.coq_str(case['imag'])} {C.coq_str(case['sel'])} {poi} {c11.coq_events(case)} "
            f"{coq_list(bins)})")


def coq_cases(cs, gots, name="c12_qcerr", shards=1):
    """cases file(s) [(name, text)] for C.coq_eval_many (one file by default; about 1.4 s of vm_compute per case, so a caller
    in a hurry may ask for several shards); the codes come back in the order of the cases"""
    terms = [coq_case(c, g) for c, g in zip(cs, gots)]
    size = max(1, -(-len(terms) // max(1, shards)))
    files = []
    for i in range(0, len(terms), size):
        nm = name if shards <= 1 else f"{name}_{i // size}"
        files.append((nm, PRELUDE + f"Eval vm_compute in {coq_list(terms[i:i + size])}.\n"))
    return files


def compared(got):
    vals = _flat(got)
    return sum(1 for v in vals if isinstance(v, float) and math.isfinite(v))


def correspondence_part(ctx):
    """runs everything; returns {'evaluations', 'values_compared', 'codes', 'failures': [Failure], 'broken': [...], 'metamorphic_runs'}"""
    cs = cases(ctx)
    gots = [run_impl(c) for c in cs]
    out = {"evaluations": len(cs), "values_compared": sum(compared(g) for g in gots), "failures": [], "broken": [],
           "not_finite_in_impl": sum(1 for g in gots for v in _flat(g) if isinstance(v, float) and not math.isfinite(v)),
           "rule": "Q-cumulant errors: seeded random samples, 2-4 events of k..k+4 particles (k..k+6 for differential) on rational "
                   "points of the unit circle, n = 1..3, integrated k = 2/4/6 (error and the errors of <<2>>..<<k>>) and differential "
                   "k = 2/4 (per-bin error; pT / rapidity / pseudorapidity bins, with and without poi_pdg); model at exact Q "
                   "(roots to 24 digits) against the real return values within 1e-9 relative (or 1e-11 absolute / 1e-13 on the "
                   "squares); non-finite real values are not compared"}
    meta = 0
    for c in cs[::3]:
        meta += 1
        msg = oracle(c)
        if msg:
            out["failures"].append(Failure(c, "Q-cumulant error: metamorphic run on the real code", on_impl=msg))
            break
    out["metamorphic_runs"] = meta
    ok, log = C.make(["Model/QCumulantErr.vo", "Lib/QCheck.vo"])
    if not ok:
        out["broken"].append({"what": "Model/QCumulantErr.v does not build", "detail": log[-800:]})
        return out
    files = coq_cases(cs, gots, shards=1 if ctx.quick else 4)
    codes = []
    for (ok, o), (nm, _) in zip(C.coq_eval_many(ctx, files), files):
        if not ok:
            out["broken"].append({"what": f"cases file {nm} failed to evaluate", "detail": o[-800:]})
            return out
        codes += C.parse_codes(o)
    if len(codes) != len(cs):
        out["broken"].append({"what": "c12_qcerr: cases output could not be parsed", "detail": f"{len(codes)} codes for {len(cs)} cases"})
        return out
    out["codes"] = codes
    out["exact_agreements"] = sum(1 for c in codes if c == 0)
    out["tolerance_agreements"] = sum(1 for c in codes if c == 1)
    n = 0
    for c, g, code in zip(cs, gots, codes):
        if code >= 2 and n < 5:
            n += 1
            out["failures"].append(Failure(c, f"Q-cumulant error: model and implementation disagree (code {code}): impl={g}",
                                           on_impl=oracle(c)))
    return out

"""C07 - truncated or damaged input is detected, never silently mis-loaded."""
import json, os, math
from collections import Counter
import numpy as np
import common as C
from common import Failure, coq_list
import oscgen as G
import jetgen as J

ID = "C07"
GEN = ["gen_particle_tables", "gen_particle_init", "gen_jetscapeloader", "gen_oscarloader"]
EXTRA_PROPERTY_FILES = ["SrcParticleInit", "SrcJetscapeLoader", "SrcOscarLoader"]     # Particle.py: construction of a particle from one line regenerated and proved equal to mk_particle / mk_jet_particle
SOURCE_TIE_NOTE = ('as C01 (SrcOscarLoader, SrcJetscapeLoader, SrcParticleInit): the end-of-file / count-mismatch checks that make'
    ' a damaged file raise are part of the regenerated read loops')
ALLOWED_AXIOMS = []
TRUSTED = [
    "Coq 8.16.1 kernel + vm_compute; every theorem closed under the global context",
    "loader models coq/Model/Oscar.v (incl. load_nonl for a file whose last line has no newline) and Jetscape.v, tied by this run's "
    "correspondence on EVERY truncation offset and every single particle-line deletion/duplication of the generated files",
    "tables regenerated from Particle.py; oracles float()/int()/PDGID as in C01; for C07_trunc additionally int_oracle_ok: int() of a "
    "non-empty decimal digit string is its value and int('') raises (premise of the theorem, a fact about Python's int)",
    "format definition used by C07_trunc / C07_jetscape_trunc: wf (as C01) + shape: event header lines are exactly "
    "'# event <i> out <n>', footers start '# event <i> end', numerals without leading zeros, the three file header lines do not "
    "contain the word event; jshape: only the JETSCAPE trailer contains sigmaGen and it starts with '#'",
]
ASSUMPTIONS = ["the truncated file is modelled after the loaders' split: n complete lines + (nothing | first j tokens of line n + a prefix of token j, "
               "no final newline); C07_cut_bytes_are_token_cuts proves every non-empty string prefix of a rendered file (blank- and newline-free "
               "tokens, non-empty lines) has this form",
               "JETSCAPE lines are tokenised after replace('\\t',' ') as in the loader; the byte-level lemma is stated for blank-joined tokens only",
               "offsets before the first newline: the model returns an error (load_nonl on a one-line file), as the loader's backward seek does",
               "Oscar2013Extended_IC / _Photons header scans are not modelled (wf requires a standard format)",
               "a cut inside the footer of event m at or after its word 'end' can load (m complete events, matching counts); the impact parameter of "
               "that last event is then read from the wrong token or the constructor fails - the theorem states events/counts only, as the property does"]
LEVEL_TEXT = ("Theorems (Coq). C07_trunc (Oscar2013/Extended/ASCII) and C07_jetscape_trunc: for EVERY well-formed file and EVERY truncation point "
              "(after any number of complete lines, and inside any line after any number of tokens plus an arbitrary prefix of the next token, i.e. every byte "
              "offset - C07_cut_bytes_are_token_cuts) the loader model raises, or returns exactly the first m complete events with num_events = m and the "
              "per-event counts of those events; and it returns only if the cut is the line boundary after event m or lies in the footer line of event m at or "
              "after its word 'end' (Oscar) / in the trailer at or after the word sigmaGen, with all events (JETSCAPE). Covers cuts inside the three header "
              "lines, inside '# event i out n' (including a decimal label cut to a shorter decimal, rejected by the final event-count comparison), inside "
              "particle lines, inside footers and inside the trailer. C07_trunc_ctor: the same through Oscar.__init__ (load + impact_parameter()). "
              "C07_delete / C07_dup / C07_jetscape_delete / C07_jetscape_dup: for every well-formed file and every particle line of it, the file with that line "
              "removed / repeated fails to load (from C07_lost_line / C07_duplicated_line: fewer / one more particle line than declared). "
              "Model and real readers are run side by side on every byte offset and every single-line deletion/duplication of generated files, with the "
              "error-or-complete-prefix oracle on the real code.")
LEVEL_NOTE = ("Full statement proved for truncation (no _partial names left). Hand-written loader models at token level tied by exhaustive-offset "
              "correspondence. The property oracle also checks the positional clause (a loading cut is an event boundary / inside an end line after 'end' / inside the trailer after sigmaGen) on the real code.")
TECHNIQUE = ("Coq: location of the cut line by induction over the events, split of the loader at the last complete event (scan / read-loop lemmas of C01), "
             "case analysis of the cut line's tokens against the three line shapes, decimal-prefix arithmetic (a proper prefix of a canonical numeral is "
             "at least ten times smaller); split-of-a-prefix-of-a-join lemma for the byte level; exhaustive byte-offset correspondence + property oracle")

PRELUDE = """From Coq Require Import List String ZArith QArith.
From SX Require Import Lib.Strs Gen.GenParticleMap Model.Oscar Model.Jetscape.
Import ListNotations.
Local Open Scope string_scope.
"""


def damages(text, rng, quick, all_offsets):
    """(kind, damaged text) for every truncation offset (or a sample) and every single row deletion/duplication"""
    out = []
    offs = range(0, len(text)) if all_offsets else sorted(set(rng.sample(range(len(text)), min(len(text), 25))))
    for k in offs:
        out.append((f"cut@{k}", text[:k]))
    lines = text.split("\n")
    for i, l in enumerate(lines):
        if l and not l.startswith("#"):
            out.append((f"del@{i}", "\n".join(lines[:i] + lines[i + 1:])))
            out.append((f"dup@{i}", "\n".join(lines[:i] + [l] + lines[i:])))
    return out


# constructor options under which a damaged file is opened as well (filters that keep every particle and every event, so the
# answer the property prescribes is the same as without them; the count checks of the loaders differ between these paths)
OPTIONS = {"mult_filter": {"filters": {"multiplicity_cut": (0, None)}},
           "off_switch": {"filters": {"charged_particles": False}},
           # JETSCAPE hadron files: the default particle type not spelled out (the model runs always spell it out)
           "bare": {},
           # the intact file was loaded from the very same path just before and the damaged copy has the same modification time
           # (restored with preserved timestamps): nothing may be remembered per path
           "intact_first": {}}


KEY_EVENTS_SEL = "C07-events-selection-skips-count-checks"


def ctor_options(case):
    if case.get("opts") == "all_events":
        # the selection of ALL events (first, last): the answer the property prescribes is the same as without it
        return {"events": (0, max(0, len(case["doc"]["events"]) - 1))}
    return dict(OPTIONS[case["opts"]]) if case.get("opts") else {}


def observe(case, ctx, idx):
    jet = case["kind"] == "jet"
    path = os.path.join(ctx.work, f"d{idx}" + (".dat" if jet else ".oscar"))
    kw = ctor_options(case)
    if jet and not (case.get("opts") == "bare" and case["doc"]["ptype"] == "hadron"):
        kw["particletype"] = case["doc"]["ptype"]
    load = (lambda: J.observe(path, **kw)) if jet else (lambda: G.observe_oscar(path, **kw))
    if case.get("opts") == "intact_first":
        open(path, "w").write(J.render(case["doc"]) if jet else G.render(case["doc"]))
        load()
        st = os.stat(path)
        open(path, "w").write(case["text"])
        os.utime(path, ns=(st.st_atime_ns, st.st_mtime_ns))
    else:
        open(path, "w").write(case["text"])
    obs = load()
    os.remove(path)
    return obs


def coq_case(case, obs):
    text = case["text"]
    nl = text.endswith("\n")
    lines = text.split("\n")
    if nl:
        lines = lines[:-1]
    if case["kind"] == "jet":
        tf, ti, pv, pc, sq = J.tables(lines)
        word = "N_hadrons" if case["doc"]["ptype"] == "hadron" else "N_partons"
        return (f"(check_jdamaged (table {tf}) (table {ti}) (pvtable {pv}) (qtable {pc}) (qtable {sq}) "
                f"{J.coq_file(lines)} {C.coq_str(word)} {J.coq_observed(obs)})")
    tf, ti = G.token_tables(lines)
    pv = G.pdg_table([l.split(" ") for l in lines])
    return (f"(check_damaged (table {tf}) (table {ti}) (pvtable {pv}) {C.coq_bool(nl)} {G.coq_file(lines)} {G.coq_observed(obs)})")


def full_load(case, tmp):
    """events of the undamaged file, as data_ lists"""
    import warnings
    if case["kind"] == "jet":
        from sparkx.Jetscape import Jetscape
        path = os.path.join(tmp, f"full_{os.getpid()}.dat")
        open(path, "w").write(J.render(case["doc"]))
        with warnings.catch_warnings():
            warnings.simplefilter("ignore")
            o = Jetscape(path, particletype=case["doc"]["ptype"])
    else:
        from sparkx.Oscar import Oscar
        path = os.path.join(tmp, f"full_{os.getpid()}.oscar")
        open(path, "w").write(G.render(case["doc"]))
        with warnings.catch_warnings():
            warnings.simplefilter("ignore")
            o = Oscar(path)
    os.remove(path)
    return [[p.data_.tolist() for p in e] for e in o.particle_objects_list()]


def oracle(case, obs=None, full=None):
    """either an error, or exactly a prefix of the undamaged file's events (complete ones only) with matching counts"""
    tmp = os.path.join(C.VERIF, ".work")
    os.makedirs(tmp, exist_ok=True)
    if obs is None:
        class X: pass
        ctx = X(); ctx.work = tmp
        obs = observe(case, ctx, f"o{os.getpid()}")
    if "err" in obs:
        if case["dmg"].startswith(("del", "dup")):
            # the loader object itself (exported by the package) asked again after it refused the file: a lost / repeated line
            # must be refused every time, also after a first attempt that went through the constructor-filter path
            jet = case["kind"] == "jet"
            path = os.path.join(tmp, f"retry{os.getpid()}" + (".dat" if jet else ".oscar"))
            open(path, "w").write(case["text"])
            try:
                import warnings
                with warnings.catch_warnings():
                    warnings.simplefilter("ignore")
                    if jet:
                        from sparkx.loader.JetscapeLoader import JetscapeLoader as LD
                        kw = {"particletype": case["doc"]["ptype"]}
                    else:
                        from sparkx.loader.OscarLoader import OscarLoader as LD
                        kw = {}
                    try:
                        ld = LD(path)
                    except Exception:
                        ld = None
                    if ld is not None:
                        for first in ({"filters": {}}, {}):
                            try:
                                ld.load(**dict(kw, **first))
                            except Exception:
                                continue
                            return (f"{case['dmg']}: the constructor refuses the damaged file, but the same loader object loads it when asked "
                                    f"again (load({', '.join(first) or ''}) after an earlier refused attempt)")
            finally:
                try:
                    os.remove(path)
                except OSError:
                    pass
        return None
    if case["dmg"].startswith(("del", "dup")):
        return f"{case['dmg']}: a particle line was lost/duplicated but the file loads ({obs['nevents']} events)"
    if full is None:
        full = full_load(case, tmp)
    ev = obs["events"]
    if ev == [[]] and obs["nevents"] == 0:
        ev = []
    m = len(ev)
    text = case["text"]
    # number of events all of whose particle lines are inside the truncated text
    base = J.render(case["doc"]) if case["kind"] == "jet" else G.render(case["doc"])
    k = len(text)
    def norm(e):
        return json.dumps(e)
    if m > len(full) or any(norm(a) != norm(b) for a, b in zip(ev, full[:m])):
        return f"{case['dmg']}: returned events are not a prefix of the file's events (partial or mis-attributed particles)"
    # the same against the document itself (what the loader makes of the undamaged file is not taken on trust): event j of the
    # returned list holds exactly the particle lines the file has for its j-th event, every column in its data_ slot
    docev = case["doc"]["events"]
    if m > len(docev):
        return f"{case['dmg']}: {m} events are returned, the undamaged file has {len(docev)}"
    for j in range(m):
        rows = docev[j]["rows"]
        if len(ev[j]) != len(rows):
            return f"{case['dmg']}: returned event {j} holds {len(ev[j])} particles, the file has {len(rows)} lines for it (partial or mis-attributed)"
        for r, (slots, row) in enumerate(zip(ev[j], rows)):
            exp = J.expected_slots(row) if case["kind"] == "jet" else G.expected_slots(case["doc"], row)
            for sl, v in exp.items():
                if slots[sl] != v:
                    return (f"{case['dmg']}: returned event {j} particle {r}: data_[{sl}] = {slots[sl]!r}, line {row!r} of the "
                            f"undamaged file says {v!r}")
    # every returned event must have all its particle lines before the cut
    lines = base.split("\n")
    pos = 0
    seen_rows = 0
    evidx = -1
    complete_rows = []          # per event: offset of the end of its last particle line (or header if empty)
    for l in lines:
        end = pos + len(l)
        if l.startswith("#") and ((" out " in l) or ("Event" in l and "weight" in l)):
            evidx += 1
            complete_rows.append(end)
        elif l and not l.startswith("#") and evidx >= 0:
            complete_rows[evidx] = end
        pos = end + 1
    for j in range(m):
        if complete_rows[j] > k:
            return f"{case['dmg']}: event {j} is returned although its particle lines are not all inside the truncated file"
    # where a cut that still loads may be (the positional clause of C07_trunc / C07_jetscape_trunc): on the line boundary after an
    # event's end line or inside that end line at or after its word 'end' (Oscar); inside the trailer at or after the word sigmaGen (JETSCAPE)
    if k < len(base):
        last = text.split("\n")[-1] if not text.endswith("\n") else text.split("\n")[-2]
        whole = base[:k].count("\n") if not text.endswith("\n") else base[:k].count("\n") - 1
        full_line = lines[whole]
        if case["kind"] == "jet":
            if not ("sigmaGen" in full_line and "sigmaGen" in last):
                return f"{case['dmg']}: the file loads although the cut is not inside the trailer after the word sigmaGen (last line {last!r})"
        else:
            is_end = full_line.startswith("# event") and " end " in full_line
            if not (is_end and "end" in last):
                return f"{case['dmg']}: the file loads although the cut is neither an event boundary nor inside an end line after 'end' (last line {last!r})"
    if obs["nevents"] != m:
        return f"{case['dmg']}: num_events() = {obs['nevents']} but {m} events are returned"
    cnt = obs["counts"]
    sizes = [len(e) for e in ev]
    try:
        got = [int(c[1]) for c in cnt]
    except Exception:
        return f"{case['dmg']}: num_output_per_event() = {cnt} does not describe {m} events"
    if got != sizes:
        return f"{case['dmg']}: counts {cnt} disagree with the returned event sizes {sizes}"
    return None


def correspondence(ctx, model_ok=True):
    nfiles = 6 if ctx.quick else 42
    opt_cases = []
    cases = []
    fulls = {}
    for i in range(nfiles + 2):
        if i >= nfiles:
            # many events with tiny multiplicities: multi-digit event labels, so that a cut inside the label of an
            # event header leaves a shorter decimal (the number of events read from the last line is then wrong)
            if i == nfiles:
                d = G.gen_doc(ctx.rng, fmt="Oscar2013", max_events=1, max_mult=1)
                for _ in range(50):
                    if d["events"] and d["events"][0]["rows"]:
                        break                   # single-particle events are the point of this file: draw until there is a row
                    d = G.gen_doc(ctx.rng, fmt="Oscar2013", max_events=1, max_mult=1)
                d["events"] = [{"rows": ([d["events"][0]["rows"][0]] if d["events"][0]["rows"] and j % 3 == 0 else []),
                                "b": "0.000", "yn": "no"} for j in range(12 if ctx.quick else 23)]
                base = {"kind": "oscar", "doc": d}
                text = G.render(d)
            else:
                d = J.gen_doc(ctx.rng, max_events=1, max_mult=1)
                for _ in range(50):
                    if d["events"] and d["events"][0]["rows"]:
                        break
                    d = J.gen_doc(ctx.rng, max_events=1, max_mult=1)
                d["events"] = [dict(d["events"][0], rows=(d["events"][0]["rows"][:1] if j % 4 == 0 else [])) for j in range(12)]
                base = {"kind": "jet", "doc": d}
                text = J.render(d)
        elif i % 2 == 1:
            d = J.gen_doc(ctx.rng, ptype=["hadron", "parton"][(i // 2) % 2], max_events=3, max_mult=2)
            base = {"kind": "jet", "doc": d}
            text = J.render(d)
        else:
            # every format family in every run (the loaders count the lines of an event differently per family)
            d = G.gen_doc(ctx.rng, fmt=["Oscar2013", "ASCII", "Oscar2013Extended"][(i // 2) % 3], max_events=3, max_mult=2)
            base = {"kind": "oscar", "doc": d}
            text = G.render(d)
        for k, (name, dt) in enumerate(damages(text, ctx.rng, ctx.quick, True)):
            if "\n" not in dt:
                continue                        # no complete line at all: the backward seek fails (trivial)
            c = dict(base); c["dmg"] = name; c["text"] = dt; c["file"] = i
            cases.append(c)
            # the same damaged file opened with constructor options (oracle only; the model runs are the default-option ones)
            if name.startswith(("del", "dup")) or k % 5 == 0:
                for on in list(OPTIONS) + (["all_events"] if c["doc"]["events"] else []):
                    oc = dict(c); oc["opts"] = on
                    opt_cases.append(oc)
    obs = [observe(c, ctx, i) for i, c in enumerate(cases)]
    loaded = sum(1 for o in obs if "err" not in o)
    out = {"evaluations": len(cases), "distinct_nontrivial": len({c["text"] for c in cases}),
           "rule": "for each generated file: EVERY byte offset as a truncation point (offsets before the first newline excluded) and every "
                   "single deletion / duplication of a particle line; model (token level, with/without final newline) and real constructor must "
                   "agree on error-vs-loaded and on everything loaded; the property oracle checks error-or-prefix-of-complete-events on the real code; "
                   "every format family (Oscar2013, Extended, ASCII, JETSCAPE hadron and parton) in every run; every deletion/duplication and every "
                   "fifth cut also opened with constructor options that keep everything (filters={multiplicity_cut:(0,None)}, a False switch), without "
                   "spelling out the default particle type, and after the intact file was loaded from the same path with the same mtime - oracle only",
           "samples": [{"dmg": c["dmg"], "tail": c["text"][-60:]} for c in cases[40:43]],
           "exhaustive": True, "failures": [], "broken": [],
           "distribution": {"loaded_despite_damage": loaded, "kinds": dict(Counter(c["dmg"][:3] for c in cases)),
                            "impl": dict(Counter(o.get("err", "ok") for o in obs))}}
    ok, log = C.make(["Model/Oscar.vo", "Model/Jetscape.vo"])
    if not ok:
        out["broken"].append({"what": "loader models do not build", "detail": log[-800:]})
        return out
    shard = 80
    files = []
    for i in range(0, len(cases), shard):
        body = coq_list([coq_case(c, o) for c, o in zip(cases[i:i + shard], obs[i:i + shard])])
        files.append((f"c07_{i//shard}", PRELUDE + f"Eval vm_compute in {body}.\n"))
    res = C.coq_eval_many(ctx, files)
    codes = []
    for (ok, o), (name, _) in zip(res, files):
        if not ok:
            out["broken"].append({"what": f"cases file {name} failed", "detail": o[-1500:]})
            return out
        codes += C.parse_codes(o)
    out["traces_validated_against_impl"] = sum(1 for c in codes if c <= 1)
    out["distribution"]["codes"] = dict(Counter(codes))
    tmp = os.path.join(C.VERIF, ".work")
    for c, o, code in zip(cases, obs, codes):
        cc = {k: c[k] for k in ("kind", "doc", "dmg", "text")}
        if code >= 2:
            out["failures"].append(Failure(cc, f"model/impl disagree code {code}; impl={json.dumps(o)[:300]}"))
        if c["file"] not in fulls:
            fulls[c["file"]] = full_load(c, tmp)
        msg = oracle(cc, o, fulls[c["file"]])
        if msg:
            out["failures"].append(Failure(cc, "property oracle", on_impl=msg))
    # the constructor-option stream: property oracle on the real code only
    nopt = 0
    for c in opt_cases:
        cc = {k: c[k] for k in ("kind", "doc", "dmg", "text", "opts")}
        o = observe(cc, ctx, f"opt{nopt}")
        nopt += 1
        msg = oracle(cc, o, fulls[c["file"]])
        if msg and c["opts"] == "all_events":
            # known finding (known_findings.json): the events= path of the loaders has no per-event / event-count check
            if sum(1 for f in out["failures"] if f.key == KEY_EVENTS_SEL) < 2:
                out["failures"].append(Failure(cc, "property oracle (file opened with events=(first, last))", key=KEY_EVENTS_SEL,
                                               on_impl=f"opened with {ctor_options(cc)}: {msg}"))
            continue
        if msg:
            out["failures"].append(Failure(cc, "property oracle (file opened with constructor options)",
                                           on_impl=f"opened with option set '{c['opts']}' {OPTIONS[c['opts']]}: {msg}"))
            if sum(1 for f in out["failures"] if f.case.get("opts")) >= 5:
                break
    out["distribution"]["opened_with_constructor_options"] = nopt
    out["evaluations"] += nopt
    return out


def search(ctx):
    return [], 0

"""C16 - smearing particles onto a lattice conserves the smeared quantity (Lattice3D.add_particle_data)."""
import json, math, os, warnings
from fractions import Fraction
import numpy as np
import common as C
from common import Failure, q, z, coq_list

ID = "C16"
GEN = ["gen_lattice"]
ALLOWED_AXIOMS = ["ClassicalDedekindReals.sig_forall_dec", "ClassicalDedekindReals.sig_not_dec",
                  "FunctionalExtensionality.functional_extensionality_dep"]
MODEL_INDEPENDENT_OF_PROOFS = True
TRUSTED = [
    "Coq 8.16.1 kernel + vm_compute (no native_compute)",
    "translator tools/py2coq/gen_lattice.py: reads the quantity dispatch table, `value_to_add = value*smearing_factor/cell_volume_`, "
    "the guard in front of `/= norm` and the division itself from add_particle_data",
    "hand model coq/Model/Smear.v in index space (stencil half-widths by round-half-even, closest node, the two loops, the "
    "node-by-node placement of add_same_spaced_grid), tied by this run's correspondence: per particle and per list the model's "
    "grid is compared node by node with the real grid",
    "the kernel (scipy.stats.multivariate_normal pdf, Gaussian and 'covariant') is an oracle: its values are recorded from the "
    "running implementation as exact rationals and handed to the model; theorems assume of it only what they state "
    "(finite; non-negative for the clip bound)",
    "exact field arithmetic instead of IEEE rounding (grids agree within 1e-12 relative); theorems hold in any field "
    "(instances proved: Qc, R); the executable instance is Q with Qred",
]
ASSUMPTIONS = [
    "conservation is proved under the hypotheses the code needs: finite kernel values and a kernel sum that passes the guard "
    "in front of the normalisation; every case of every run checks that these hold whenever the support is inside - a case where "
    "they fail is reported as a violation of the property (which demands conservation for any kernel, sigma, n_sigma)",
    "an exception raised in the middle of a particle list loses the partially updated lattice in the model (functional result)",
    "C16_conserve_R / C16_clip_R depend on the stdlib real-number axioms only",
]

QUANT = ["energy_density", "number_density", "charge_density", "baryon_density", "strangeness_density"]
ATTR = {"energy_density": "E", "charge_density": "charge", "baryon_density": "baryon_number", "strangeness_density": "strangeness"}
ERRS = {"TypeError", "ValueError", "IndexError", "KeyError", "AttributeError", "ZeroDivisionError"}


def errname(e):
    n = type(e).__name__
    return n if n in ERRS else "OtherError"


# ----------------------------------------------------------------------------- real code
def mk_particle(spec):
    from sparkx.Particle import Particle
    p = Particle()
    for k in ("x", "y", "z", "px", "py", "pz", "mass", "E", "charge", "baryon_number", "strangeness"):
        if spec.get(k) is not None:
            setattr(p, k, spec[k])
    return p


class Recorder:
    """stands in for scipy.stats.multivariate_normal inside sparkx.Lattice3D: same objects, pdf values recorded"""
    def __init__(self, real):
        self.real, self.calls = real, []

    def __call__(self, *a, **k):
        frozen, calls = self.real(*a, **k), []
        self.calls.append(calls)

        class Frozen:
            def pdf(self_, x):
                v = frozen.pdf(x)
                calls.append(float(v))
                return v
        return Frozen()


def mk_lattice(case, prior=True):
    from sparkx.Lattice3D import Lattice3D
    e, n, s = case["ext"], case["n"], case["nsig"]
    L = Lattice3D(e[0], e[1], e[2], e[3], e[4], e[5], n[0], n[1], n[2], s[0], s[1], s[2])
    if prior and case.get("prior"):
        L.grid_[...] = np.array(case["prior"], dtype=float).reshape(L.grid_.shape)
    return L


def smear(case, particles, add, prior=True):
    import sys
    import sparkx.Lattice3D
    LM = sys.modules["sparkx.Lattice3D"]
    L = mk_lattice(case, prior)
    rec = Recorder(LM.multivariate_normal)
    LM.multivariate_normal = rec
    try:
        with warnings.catch_warnings(), np.errstate(all="ignore"):
            warnings.simplefilter("ignore")
            try:
                # the flag as callers spell it: a Python bool, a numpy bool (e.g. the result of a comparison) or 0/1
                flag = {"np": np.bool_(add), "int": int(bool(add))}.get(case.get("add_spelling"), bool(add))
                L.add_particle_data([mk_particle(p) for p in particles], case["sigma"], case["quantity"], case["kernel"], flag)
            except Exception as e:
                return {"status": "err", "err": errname(e), "kern": rec.calls}
    finally:
        LM.multivariate_normal = rec.real
    return {"status": "ok", "grid": [float(v) for v in L.grid_.flatten()], "kern": rec.calls, "vol": float(L.cell_volume_),
            "axes": {"x": [float(v) for v in L.x_values_], "y": [float(v) for v in L.y_values_], "z": [float(v) for v in L.z_values_],
                     "min": [float(L.x_min_), float(L.y_min_), float(L.z_min_)], "max": [float(L.x_max_), float(L.y_max_), float(L.z_max_)]},
            "nsig": [float(L.n_sigma_x_), float(L.n_sigma_y_), float(L.n_sigma_z_)]}


def run_impl(case):
    full = smear(case, case["particles"], case["add"])
    singles = [smear(case, [p], False, prior=False) for p in case["particles"]]
    return {"full": full, "singles": singles}


# ----------------------------------------------------------------------------- property oracle (direct)
def F(x):
    return Fraction(float(x))


def round_half_even(fr):
    fl = math.floor(fr)
    r = fr - fl
    if r < Fraction(1, 2):
        return fl
    if r > Fraction(1, 2):
        return fl + 1
    return fl if fl % 2 == 0 else fl + 1


def geometry(case):
    """per particle: closest node and stencil half-widths, computed here from exact rationals (None: tie within rounding)"""
    L = mk_lattice(case)
    axes = [[F(v) for v in a] for a in (L.x_values_, L.y_values_, L.z_values_)]
    m = []
    for d in range(3):
        dx = axes[d][1] - axes[d][0]
        m.append(round_half_even(F(case["nsig"][d]) * F(case["sigma"]) / dx))
    out = []
    for p in case["particles"]:
        c = []
        for d, k in enumerate("xyz"):
            dist = [abs(v - F(p[k])) for v in axes[d]]
            c.append(dist.index(min(dist)))
        out.append((c, m))
    return out, [len(a) for a in axes]


def support_inside(c, m, n):
    return all(c[d] - m[d] >= 0 and c[d] + m[d] <= n[d] - 1 for d in range(3))


def quantity_of(case, p):
    if case["quantity"] == "number_density":
        return 1.0
    return float(p[ATTR[case["quantity"]]])


def oracle(case):
    """the property text on the real code: totals, clip bound, add flag, order"""
    if case["quantity"] not in QUANT or case["kernel"] not in ("gaussian", "covariant"):
        return None
    full = smear(case, case["particles"], case["add"])
    if full["status"] != "ok":
        return None                                   # rejected input: nothing to conserve
    geo, n = geometry(case)
    vol = full["vol"]
    prior = sum(case["prior"]) if (case.get("prior") and case["add"]) else 0.0
    vals = [quantity_of(case, p) for p in case["particles"]]
    tot = vol * sum(full["grid"])
    scale = sum(abs(v) for v in vals) + abs(vol * prior) + 1e-300
    if all(support_inside(c, m, n) for c, m in geo):
        want = vol * prior + sum(vals)
        if not (math.isfinite(tot) and abs(tot - want) <= 1e-9 * scale):
            return (f"every particle's kernel support is inside the lattice, but cell_volume * sum(grid) = {tot!r} after "
                    f"add_particle_data while the particles carry {sum(vals)!r} (prior content {vol * prior!r}): the smeared "
                    f"{case['quantity']} is not conserved (kernel={case['kernel']}, sigma={case['sigma']}, n_sigma={case['nsig']})")
    elif all(v >= 0 for v in vals):
        # rounding: every node holds fl(prior_i + deposit_i), so the deposited total read off the grid carries an error of
        # up to ~ulp(|node|) per node (times the cell volume); that is not a deposit
        slack = 1e-13 * abs(vol) * math.fsum(abs(g) for g in full["grid"])
        if not (math.isfinite(tot) and tot - vol * prior <= sum(vals) * (1 + 1e-9) + slack + 1e-300):
            return f"clipped support: deposited {tot - vol * prior!r} exceeds the particles' quantity {sum(vals)!r}"
    # add flag
    if case["add"] and case.get("prior"):
        fresh = smear(case, case["particles"], False)
        if fresh["status"] == "ok":
            for i, (a, b, c0) in enumerate(zip(full["grid"], fresh["grid"], case["prior"])):
                if abs(a - (b + c0)) > 1e-9 * (abs(a) + abs(b) + abs(c0)):
                    return f"add=True: node {i} holds {a!r}, prior content {c0!r} + fresh deposit {b!r} expected"
    if not case["add"] and case.get("prior"):
        clean = smear(case, case["particles"], False, prior=False)
        if clean["status"] == "ok" and any(abs(a - b) > 1e-12 * (abs(a) + abs(b)) for a, b in zip(full["grid"], clean["grid"])):
            return "add=False did not start from an empty lattice"
    # order
    if len(case["particles"]) > 1:
        rev = smear(case, list(reversed(case["particles"])), case["add"])
        if rev["status"] == "ok":
            sc = scale / abs(vol)
            for i, (a, b) in enumerate(zip(full["grid"], rev["grid"])):
                if abs(a - b) > 1e-9 * (abs(a) + abs(b)) + 1e-12 * sc:
                    return f"the result depends on the order of the particles: node {i} holds {a!r} vs {b!r} for the reversed list"
    return None


# ----------------------------------------------------------------------------- generator
def gen_case(rng, small=False):
    sc = 2.0 ** rng.choice([0, 0, 0, 0, -3, 3, 10, 17, 17, 20])
    d = [rng.choice([0.5, 1.0, 2.0]) * sc for _ in range(3)]
    n = [rng.randint(2, 9), rng.randint(2, 7), rng.randint(2, 5)]
    if small:
        n = [min(v, 5) for v in n]
    sigma = rng.choice([0.5, 1.0, 2.0, 1.0]) * sc
    hw = [rng.choice([0, 0.4, 0.5, 1, 1, 1.5, 2, 2.5, 3, 1.2] if not small else [0, 0.5, 1, 1, 1.5, 2]) for _ in range(3)]
    inside_mode = rng.random() < 0.55
    if inside_mode:                                   # every stencil fits: lattice at least 2m+1 nodes, particles central
        cap = [4, 3, 2]
        hw = [min(h, cap[i]) if round_half_even(Fraction(h)) <= cap[i] else cap[i] for i, h in enumerate(hw)]
        mm = [round_half_even(Fraction(h)) for h in hw]
        n = [max(n[i], 2 * mm[i] + 1 + rng.choice([0, 0, 1, 2])) for i in range(3)]
        n = [min(n[0], 9), min(n[1], 7), min(n[2], 5)]
    lo = [rng.randint(-4, 2) * d[i] for i in range(3)]
    ext = []
    for i in range(3):
        ext += [lo[i], lo[i] + (n[i] - 1) * d[i]]
    nsig = [hw[i] * d[i] / sigma for i in range(3)]
    quantity = rng.choice(QUANT)
    kernel = rng.choice(["gaussian", "gaussian", "covariant"])
    parts = []
    nparts = rng.choice([1, 1, 2, 3, 4, 0])       # 0: an empty particle list (e.g. everything filtered away)
    for _ in range(nparts):
        pos = []
        for i in range(3):
            node = rng.randrange(n[i])
            r = rng.random()
            if inside_mode:
                node = rng.randint(mm[i], n[i] - 1 - mm[i])
                r *= 0.84
                if 0.35 <= r < 0.5 and node == n[i] - 1 - mm[i]:
                    r = 0.0                              # the tie goes to the lower node, keep it central anyway
            if r < 0.35:
                off = 0.0
            elif r < 0.5:
                off = 0.5                                   # half-way between two nodes: first on ties
            elif r < 0.85:
                off = rng.choice([0.25, -0.25, 0.125, 0.375, -0.375])
            else:
                node, off = rng.choice([(0, -0.75), (n[i] - 1, 0.75), (0, -1.5), (n[i] - 1, 2.0)])   # outside the lattice
            pos.append(lo[i] + (node + off) * d[i])
        mass = rng.choice([0.0, 0.5, 1.0, 0.938, 0.138])
        px, py, pz = (rng.choice([0.0, 0.5, -0.5, 1.0, -2.0, 0.25]) for _ in range(3))
        if mass == 0.0 and px == py == pz == 0.0:
            px = 1.0
        parts.append({"x": pos[0], "y": pos[1], "z": pos[2], "px": px, "py": py, "pz": pz, "mass": mass,
                      "E": rng.choice([0.5, 1.0, 2.0, 3.25, 10.0]), "charge": rng.choice([-2, -1, 0, 1, 1, 2]),
                      "baryon_number": rng.choice([-1, 0, 1, 1]), "strangeness": rng.choice([-3, -1, 0, 1, 2])})
    case = {"ext": ext, "n": n, "nsig": nsig, "sigma": sigma, "quantity": quantity, "kernel": kernel,
            "add": rng.random() < 0.5, "particles": parts}
    if rng.random() < 0.5:
        case["add_spelling"] = rng.choice(["np", "int"])
    if rng.random() < 0.5 or not parts:
        case["prior"] = [float(rng.choice([0, 0, 1, 2, -1, 0.5])) for _ in range(n[0] * n[1] * n[2])]
    r = rng.random()
    if not parts:
        return case
    if r < 0.04:
        case["quantity"] = "entropy_density"
    elif r < 0.08:
        case["kernel"] = "box"
    elif r < 0.12:
        parts[0]["x"] = float("nan")
    elif r < 0.16:
        parts[-1][rng.choice(["E", "charge", "baryon_number", "strangeness"])] = None
    return case


def gen_case_decimal(rng):
    """lattices with decimal steps (0.1, 0.3, ...): node coordinates are rounded doubles, coordinate sums may land one ulp
    outside the range; stencils inside, touching the faces exactly; no ties in round() or in the closest-node search"""
    N = [rng.choice([5, 6, 7, 8, 9]), rng.choice([4, 5, 6, 7]), rng.choice([3, 4, 5])]
    step = [rng.choice([0.1, 0.3, 0.7, 0.2, 1.1]) for _ in range(3)]
    lo = [rng.choice([-0.3, 0.0, 0.1, -1.7, 2.3]) for _ in range(3)]
    ext = []
    for i in range(3):
        ext += [lo[i], lo[i] + (N[i] - 1) * step[i]]
    sigma = rng.choice([0.1, 0.25, 0.3, 0.7])
    m = [min(rng.choice([0, 1, 1, 2]), (N[i] - 1) // 2) for i in range(3)]
    nsig = [(m[i] + rng.choice([-0.3, 0.0, 0.3])) * step[i] / sigma if m[i] > 0 else 0.2 * step[i] / sigma for i in range(3)]
    parts = []
    for _ in range(rng.choice([1, 1, 2, 3])):
        pos = []
        for i in range(3):
            node = rng.choice([m[i], N[i] - 1 - m[i], rng.randint(m[i], N[i] - 1 - m[i])])
            pos.append(lo[i] + (node + rng.choice([0, 0.2, -0.3])) * step[i])
        parts.append({"x": pos[0], "y": pos[1], "z": pos[2], "px": rng.choice([0.5, 0.0, -1.0]), "py": 0.25, "pz": 1.0,
                      "mass": rng.choice([0.0, 1.0, 0.138]), "E": rng.choice([0.5, 2.0, 3.25]), "charge": rng.choice([-1, 1, 2]),
                      "baryon_number": rng.choice([-1, 0, 1]), "strangeness": rng.choice([-2, 0, 1])})
    return {"ext": ext, "n": N, "nsig": nsig, "sigma": sigma, "quantity": rng.choice(QUANT),
            "kernel": rng.choice(["gaussian", "covariant"]), "add": False, "particles": parts}


# ----------------------------------------------------------------------------- Coq side
PRELUDE = """From Coq Require Import List ZArith QArith Qabs Qminmax Bool String.
From SX Require Import Lib.KRing Lib.Py Lib.QCheck Gen.GenLattice Model.Lattice Model.Smear.
Import ListNotations.
Local Open Scope Q_scope.
Definition qd (m e : Z) : Q := if (0 <=? e)%Z then inject_Z (m * 2 ^ e) else Qmake m (Z.to_pos (2 ^ (- e))).
Definition err_eqb (a b : errcls) : bool :=
  match a, b with TypeError, TypeError | ValueError, ValueError | IndexError, IndexError | KeyError, KeyError
  | AttributeError, AttributeError | ZeroDivisionError, ZeroDivisionError | OtherError, OtherError => true | _, _ => false end.
(* pdf values in the order of the loops over the temporary lattice *)
Definition kern_fun (m : Z * Z * Z) (vals : list (option Q)) : Z * Z * Z -> option Q :=
  fun o => let '(mx, my, mz) := m in let '(a, b, c) := o in
           nth (Z.to_nat (((a + mx) * (2 * my + 1) + (b + my)) * (2 * mz + 1) + (c + mz))) vals None.
Record pspec := { s_pos : fv * fv * fv; s_E : option Q; s_charge : option Q; s_baryon : option Q; s_strange : option Q;
                  s_momnan : bool; s_vals : list (option Q) }.
Definition attr_of (s : pspec) (a : string) : option Q :=
  if String.eqb a "E" then s_E s else if String.eqb a "charge" then s_charge s
  else if String.eqb a "baryon_number" then s_baryon s else if String.eqb a "strangeness" then s_strange s else None.
Definition mk_part (m : Z * Z * Z) (s : pspec) : part Q :=
  {| ppos := s_pos s; pattr := attr_of s; pmom_nan := s_momnan s; pkern := kern_fun m (s_vals s) |}.
Definition hw (nsig sigma : Q) (a : axis) : Z := match half_width nsig sigma a with Ok m => m | Err _ => 0%Z end.
Definition grid_of (ny nz : Z) (l : list Q) : Z * Z * Z -> Q :=
  fun p => let '(a, b, c) := p in nth (Z.to_nat ((a * ny + b) * nz + c)) l 0.
Inductive expect := EGrid (l : list fv) | EErr (e : errcls).
(* 0 exact, 1 within 1e-12 of the scale of the deposit, 2 mismatch *)
Definition cmpv (scale : Q) (m : Q) (i : fv) : nat :=
  match i with
  | Fin x => if Qeq_bool m x then 0%nat
             else if Qle_bool (Qabs (m - x)) ((1 # 1000000000000) * (Qabs m + Qabs x + scale)) then 1%nat else 2%nat
  | _ => 2%nat
  end.
Fixpoint cmpl (scale : Q) (ms : list Q) (is_ : list fv) : nat :=
  match ms, is_ with
  | [], [] => 0%nat
  | a :: s, b :: t => Nat.max (cmpv scale a b) (cmpl scale s t)
  | _, _ => 3%nat
  end.
Definition qabs_opt (o : option Q) := match o with Some v => Qabs v | None => 0 end.
Definition scale_of (quantity : string) (vol : Q) (ps : list pspec) (prior : list Q) : Q :=
  (fold_right Qplus 0 (map (fun s => Qabs (match quantity_of Q 1 quantity (mk_part (0, 0, 0)%Z s) with Ok v => v | Err _ => 0 end)) ps)) / Qabs vol
  + fold_right (fun a b => Qmax (Qabs a) b) 0 prior.
Definition run (L : slat Q) (nsig : Q * Q * Q) (sigma : Q) (quantity : string) (kern : kernel) (add : bool) (ps : list pspec)
  : result (slat Q) :=
  let '(sx, sy, sz) := nsig in
  let m := (hw sx sigma (sax L), hw sy sigma (say L), hw sz sigma (saz L)) in
  q_add_particle_data L nsig (map (mk_part m) ps) sigma quantity kern add.
Definition cmp_run (r : result (slat Q)) (dims : Z * Z * Z) (scale : Q) (e : expect) : nat :=
  match r, e with
  | Ok L', EGrid g => cmpl scale (map (sgrid L') (cells dims)) g
  | Err a, EErr b => if err_eqb a b then 0%nat else 2%nat
  | _, _ => 2%nat
  end.
(* the hypotheses of the conservation theorem, per particle whose stencil is inside: finite kernel, guard passes *)
Definition hyp_fail (bad : option Q -> bool) (L : slat Q) (nsig : Q * Q * Q) (sigma : Q) (quantity : string) (kern : kernel)
           (ps : list pspec) : bool :=
  let '(sx, sy, sz) := nsig in
  let m := (hw sx sigma (sax L), hw sy sigma (say L), hw sz sigma (saz L)) in
  existsb (fun s =>
    match prep Q 1 (sax L) (say L) (saz L) nsig sigma quantity kern (mk_part m s) with
    | Ok d => forallb (fun o => inside (sdims L) (add3 (dc d) o)) (stencil (dm d))
              && bad (knorm Q 0 qadd d)
    | Err _ => false
    end) ps.
Definition lens_ok (L : slat Q) (nsig : Q * Q * Q) (sigma : Q) (ps : list pspec) : bool :=
  let '(sx, sy, sz) := nsig in
  let m := (hw sx sigma (sax L), hw sy sigma (say L), hw sz sigma (saz L)) in
  forallb (fun s => match s_vals s with [] => true | v => Nat.eqb (List.length v) (List.length (stencil m)) end) ps.
Definition check (L : slat Q) (prior : list Q) (nsig : Q * Q * Q) (sigma : Q) (quantity : string) (kern : kernel) (add : bool)
           (ps : list pspec) (full : expect) (singles : list expect) : nat :=
  let scale := scale_of quantity (svol L) ps (if add then prior else []) in
  let L0 := {| sax := sax L; say := say L; saz := saz L; svol := svol L; sgrid := fun _ => 0 |} in
  let c1 := cmp_run (run L nsig sigma quantity kern add ps) (sdims L) scale full in
  let c2 := worst (map (fun se => cmp_run (run L0 nsig sigma quantity kern false [fst se]) (sdims L) scale (snd se)) (combine ps singles)) in
  let c3 := if lens_ok L nsig sigma ps then 0%nat else 4%nat in
  (Nat.max c1 (Nat.max c2 c3)
   + (if hyp_fail (fun N => match N with None => true | _ => false end) L nsig sigma quantity kern ps then 10 else 0)
   + (if hyp_fail (fun N => match N with Some N => negb (gen_norm_ok N) | None => false end) L nsig sigma quantity kern ps then 20 else 0))%nat.
"""


def qd(x):
    """exact Coq Q term of a finite double; dyadic form keeps tiny pdf values short"""
    fr = Fraction(float(x))
    if fr.denominator.bit_length() > 40 or fr.numerator.bit_length() > 64:
        m, e = fr.numerator, 0
        if fr.denominator > 1:
            e = -(fr.denominator.bit_length() - 1)
        else:
            while m % 2 == 0:
                m //= 2
                e += 1
        return f"(qd {z(m)} {z(e)})"
    return q(x)


def oq(x):
    if x is None or (isinstance(x, float) and math.isnan(x)):
        return "None"
    if math.isinf(x):
        return "None"
    return f"(Some {qd(x)})"


def fvt(x):
    x = float(x)
    if math.isnan(x):
        return "NaN"
    if math.isinf(x):
        return "PInf" if x > 0 else "NInf"
    return f"(Fin {qd(x)})"


def expect_term(r):
    if r["status"] == "err":
        return f"(EErr {r['err']})"
    return f"(EGrid {coq_list([fvt(v) for v in r['grid']])})"


def coq_case(case, got):
    ref = got["full"] if got["full"]["status"] == "ok" else next((s for s in got["singles"] if s["status"] == "ok"), None)
    if ref is None:                                            # nothing ran: read the geometry from a fresh lattice
        L = mk_lattice(case)
        ref = {"vol": float(L.cell_volume_), "nsig": [float(L.n_sigma_x_), float(L.n_sigma_y_), float(L.n_sigma_z_)],
               "axes": {"x": [float(v) for v in L.x_values_], "y": [float(v) for v in L.y_values_], "z": [float(v) for v in L.z_values_],
                        "min": [float(L.x_min_), float(L.y_min_), float(L.z_min_)], "max": [float(L.x_max_), float(L.y_max_), float(L.z_max_)]}}
    ax = ref["axes"]
    n = case["n"]

    def axis(i, k):
        return f"{{| amin := {q(ax['min'][i])}; amax := {q(ax['max'][i])}; avals := {coq_list([q(v) for v in ax[k]])} |}}"
    prior = case.get("prior") or [0.0] * (n[0] * n[1] * n[2])
    pl = coq_list([q(v) for v in prior])
    L = (f"{{| sax := {axis(0, 'x')}; say := {axis(1, 'y')}; saz := {axis(2, 'z')}; svol := {qd(ref['vol'])}; "
         f"sgrid := grid_of {n[1]} {n[2]} prior |}}")
    ps = []
    for i, p in enumerate(case["particles"]):
        kv = got["singles"][i]["kern"]
        vals = kv[0] if kv else []
        momnan = any(p.get(k) is None or (isinstance(p.get(k), float) and math.isnan(p[k])) for k in ("px", "py"))
        ps.append(f"{{| s_pos := ({fvt(p['x'])}, {fvt(p['y'])}, {fvt(p['z'])}); s_E := {oq(p.get('E'))}; s_charge := {oq(p.get('charge'))}; "
                  f"s_baryon := {oq(p.get('baryon_number'))}; s_strange := {oq(p.get('strangeness'))}; "
                  f"s_momnan := {C.coq_bool(momnan)}; s_vals := {coq_list([oq(v) for v in vals])} |}}")
    kern = {"gaussian": "Gaussian", "covariant": "Covariant"}.get(case["kernel"], "UnknownKernel")
    ns = ref["nsig"]
    return (f"(let prior := {pl} in check {L} prior ({q(ns[0])}, {q(ns[1])}, {q(ns[2])}) {qd(case['sigma'])} "
            f"{C.coq_str(case['quantity'])} {kern} {C.coq_bool(case['add'])} {coq_list(ps)} {expect_term(got['full'])} "
            f"{coq_list([expect_term(s) for s in got['singles']])})")


FIXED = [
    # massless particle, covariant kernel, support inside
    {"ext": [-4.0, 4.0, -4.0, 4.0, -4.0, 4.0], "n": [9, 9, 9], "nsig": [1.0, 1.0, 1.0], "sigma": 1.0, "quantity": "energy_density",
     "kernel": "covariant", "add": False,
     "particles": [{"x": 0.0, "y": 0.0, "z": 0.0, "px": 1.0, "py": 0.0, "pz": 0.0, "mass": 0.0, "E": 1.0, "charge": 1,
                    "baryon_number": 0, "strangeness": 0}]},
    # lattice spacing 2^17: the kernel sum is below 1e-15
    {"ext": [-524288.0, 524288.0, -524288.0, 524288.0, -524288.0, 524288.0], "n": [9, 9, 9], "nsig": [1.0, 1.0, 1.0],
     "sigma": 131072.0, "quantity": "energy_density", "kernel": "gaussian", "add": False,
     "particles": [{"x": 0.0, "y": 0.0, "z": 0.0, "px": 1.0, "py": 0.0, "pz": 0.0, "mass": 1.0, "E": 2.0, "charge": 1,
                    "baryon_number": 1, "strangeness": 0}]},
    # decimal steps: the stencil touches the lower x face, -0.3 + 0.4 is one ulp below x_min = 0.1
    {"ext": [0.1, 1.3, 0.1, 0.5, 2.3, 6.7], "n": [5, 5, 5], "nsig": [0.4285714285714286, 0.24285714285714288, 2.042857142857143],
     "sigma": 0.7, "quantity": "energy_density", "kernel": "gaussian", "add": False,
     "particles": [{"x": 0.31, "y": 0.30000000000000004, "z": 3.07, "px": 0.5, "py": 0.0, "pz": 1.0, "mass": 1.0, "E": 2.0,
                    "charge": 1, "baryon_number": 1, "strangeness": -1}]},
]


def correspondence(ctx, model_ok=True):
    ncases = 120 if ctx.quick else 900
    cases = []
    corpus = os.path.join(C.VERIF, "corpus", ID)
    if os.path.isdir(corpus):
        for fn in sorted(os.listdir(corpus)):
            cases.append(json.load(open(os.path.join(corpus, fn)))["case"])
    cases += [json.loads(json.dumps(c)) for c in FIXED]
    while len(cases) < ncases:
        cases.append(gen_case(ctx.rng) if len(cases) % 5 else gen_case_decimal(ctx.rng))
    gots = [run_impl(c) for c in cases]
    geo = []
    dist = {"quantity": {}, "kernel": {}, "add": 0, "particles": {}, "supports": {"inside": 0, "clipped": 0, "mixed": 0},
            "half_widths": {}, "rejected_by_impl": 0, "prior_content": 0}
    keys = set()
    for c, g in zip(cases, gots):
        dist["quantity"][c["quantity"]] = dist["quantity"].get(c["quantity"], 0) + 1
        dist["kernel"][c["kernel"]] = dist["kernel"].get(c["kernel"], 0) + 1
        dist["add"] += bool(c["add"])
        dist["prior_content"] += bool(c.get("prior"))
        dist["particles"][len(c["particles"])] = dist["particles"].get(len(c["particles"]), 0) + 1
        if g["full"]["status"] != "ok":
            dist["rejected_by_impl"] += 1
        try:
            gg, n = geometry(c)
            ins = [support_inside(cc, m, n) for cc, m in gg]
            dist["supports"]["inside" if all(ins) else "clipped" if not any(ins) else "mixed"] += 1
            hk = "x".join(str(v) for v in gg[0][1])
            dist["half_widths"][hk] = dist["half_widths"].get(hk, 0) + 1
        except Exception:
            pass
        keys.add(json.dumps(c, sort_keys=True))
    out = {"evaluations": len(cases), "distinct_nontrivial": len(keys), "distribution": dist,
           "rule": "seeded random cases: lattice 2-9 x 2-7 x 2-5 nodes, spacing 0.5/1/2 times 2^s (s in -3..20, so node "
                   "coordinates are exact), 1-4 particles on nodes, half-way between nodes, off nodes and outside the lattice, "
                   "sigma and n_sigma giving stencil half-widths 0-3 per axis (incl. the .5 ties of round()), both kernels, "
                   "massless and massive particles, the five quantities (negative charges), add on/off with and without "
                   "prior content, every fifth case a lattice with decimal steps (0.1, 0.3, 0.7, ...) whose stencils touch the "
                   "faces exactly (float coordinate sums land on nodes only up to rounding), plus rejected inputs (unknown quantity/kernel, NaN position, NaN quantity). For every "
                   "case the pdf values the implementation obtained are recorded as exact rationals and given to the model; "
                   "Model/Smear.v is run by vm_compute on the whole list AND on every particle alone, and every node of "
                   "the resulting grids is compared with the real grid (exact or within 1e-12); additionally the "
                   "hypotheses of the conservation theorem are evaluated for every particle whose stencil is inside. "
                   "Every case deposits at least one particle (non-trivial); distinct by canonical JSON.",
           "samples": cases[2:5], "model_runner": "Eval vm_compute in generated cases files (sharded coqc)",
           "failures": [], "broken": []}
    out["all_cases"] = cases          # the driver runs the property oracle on these as well
    if not model_ok:
        out["broken"].append({"what": "correspondence not run: the model did not build"})
        return out
    ok, log = C.make(["Model/Smear.vo", "Lib/QCheck.vo"])
    if not ok:
        out["broken"].append({"what": "model Model/Smear.v does not build", "detail": log[-800:]})
        return out
    shard = 5
    files = []
    for i in range(0, len(cases), shard):
        body = coq_list([coq_case(c, g) for c, g in zip(cases[i:i + shard], gots[i:i + shard])])
        files.append((f"c16_{i // shard}", PRELUDE + f"Eval vm_compute in {body}.\n"))
    res = C.coq_eval_many(ctx, files)
    codes = []
    for (ok, o), (name, _) in zip(res, files):
        if not ok:
            out["broken"].append({"what": f"cases file {name} failed to evaluate", "detail": o[-800:]})
            return out
        codes += C.parse_codes(o)
    if len(codes) != len(cases):
        out["broken"].append({"what": "cases output could not be parsed", "detail": f"{len(codes)} codes for {len(cases)} cases"})
        return out
    out["exact_agreements"] = sum(1 for c in codes if c % 10 == 0)
    out["tolerance_agreements"] = sum(1 for c in codes if c % 10 == 1)
    out["traces_validated_against_impl"] = sum(1 for c in codes if c % 10 <= 1)
    for c, g, code in zip(cases, gots, codes):
        if code % 10 >= 2:
            out["failures"].append(Failure(shrink(c) if oracle(c) else c,
                                           f"model and implementation disagree (code {code}) on the deposited grid",
                                           key="C16-grid-mismatch"))
        elif code >= 10:
            why = []
            if (code // 10) % 2 == 1:
                why.append("C16-nan-kernel|NaN kernel value: the stencil of a particle is inside the lattice but the kernel the implementation "
                           "evaluated is not finite, so a hypothesis of the conservation theorem fails")
            if code // 10 >= 2:
                why.append("C16-norm-guard|normalisation refused: the stencil of a particle is inside the lattice and its kernel sum is not zero, "
                           "but the guard in front of `/= norm` does not let the normalisation happen")
            # make the loss observable: the offending particles alone, counted by number
            wit = [c] + [dict({k: v for k, v in c.items() if k != "prior"}, quantity="number_density", add=False, particles=[p])
                         for p in c["particles"]]
            bad = next((w for w in wit if oracle(w)), None)
            for w in why:
                out["failures"].append(Failure(shrink(bad) if bad else c, w.split("|")[1], key=w.split("|")[0]))
    return out


# ----------------------------------------------------------------------------- search
def search(ctx):
    found, n = [], 0
    for c in [json.loads(json.dumps(c)) for c in FIXED]:
        n += 1
        msg = oracle(c)
        if msg:
            found.append(Failure(c, "property oracle fails on the implementation", on_impl=msg))
    budget = 60 if ctx.quick else 500
    for i in range(budget):
        if found:
            break
        c = gen_case(ctx.rng, small=True) if i % 3 else gen_case_decimal(ctx.rng)
        n += 1
        try:
            msg = oracle(c)
        except Exception:
            continue
        if msg:
            c = shrink(c)
            found.append(Failure(c, "property oracle fails on the implementation", on_impl=oracle(c)))
    return found, n


def shrink(case):
    cur = case
    changed = True
    while changed:
        changed = False
        cands = []
        ps = cur["particles"]
        if len(ps) > 1:
            cands += [dict(cur, particles=ps[:i] + ps[i + 1:]) for i in range(len(ps))]
        if cur.get("prior"):
            cands.append({k: v for k, v in cur.items() if k != "prior"})
        if cur["add"]:
            cands.append(dict(cur, add=False))
        for cand in cands:
            try:
                if oracle(cand):
                    cur, changed = cand, True
                    break
            except Exception:
                pass
    return cur


LEVEL_TEXT = ("Theorems (Coq, any field; instances Qc and R; any lattice size, any particle list): after add_particle_data "
              "cell_volume*sum(grid') = cell_volume*sum(grid) + sum of the particles' quantities when every stencil is inside "
              "the lattice, the kernel values are finite and the guard lets the normalisation happen; with a clipped stencil, "
              "non-negative kernel and non-negative quantities the deposit never exceeds the quantities; node by node the "
              "result is the old content plus each particle's contribution, hence add=True accumulates, add=False starts from "
              "zero, and any Permutation of the particles gives the same grid. value_to_add, the normalisation guard and "
              "the quantity table are regenerated from the source every run (a dropped cell-volume factor breaks a `field` step).")
LEVEL_NOTE = ("Trusted: Coq kernel/vm_compute; translator gen_lattice (three formula/table extractions); hand model Model/Smear.v "
              "in index space, validated only by comparing its grids node by node with the real code on every run; the kernel "
              "pdf as an oracle whose values are recorded from the running code; exact arithmetic instead of IEEE rounding; "
              "R instance on the stdlib real axioms. The hypotheses 'kernel finite, guard passes' are not provable about scipy; "
              "they are evaluated on every case and a failure is reported as a violation.")
TECHNIQUE = ("Coq proof: point-wise decomposition of the deposit into per-particle contributions (fold invariant), indicator sums over "
             "the index box, sum exchange, `field` for the normalisation, Permutation invariance of finite sums; abstract ordered "
             "field for the clip bound; vm_compute correspondence with recorded kernel values")

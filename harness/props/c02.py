"""C02 - event selection equals loading everything and slicing."""
import json, os
from collections import Counter
import common as C
from common import Failure, coq_list
import oscgen as G
import jetgen as J

ID = "C02"
GEN = ["gen_particle_tables", "gen_particle_init", "gen_pobj", "gen_jetscapeloader", "gen_oscarloader"]
EXTRA_PROPERTY_FILES = ["SrcParticleInit", "SrcPObj", "SrcJetscapeLoader", "SrcOscarLoader"]     # Particle.py: construction of a particle from one line regenerated and proved equal to mk_particle / mk_jet_particle
SOURCE_TIE_NOTE = ('as C01 (SrcOscarLoader, SrcJetscapeLoader, SrcParticleInit: events=/filters= bookkeeping of both read loops, s'
    'kip/read line arithmetic, option validation) plus ParticleObjectLoader.py / ParticleObjectStorer.py / BaseStor'
    'er.__init__ (gen_pobj, runtime Model/PObjRt.v, Properties/SrcPObj.v, 17 theorems: ParticleObjectStorer(list, *'
    '*kw) observed through particle_list_/num_events_/num_output_per_event_ equals Model/PObj.v pload for every key'
    'word dictionary incl. error classes)')
ALLOWED_AXIOMS = []
TRUSTED = [
    "Coq 8.16.1 kernel + vm_compute; every theorem closed under the global context",
    "loader models coq/Model/Oscar.v, Jetscape.v, PObj.v (hand-written; files at token level) incl. the skip/read line arithmetic, the "
    "per-event count rewrite under a constructor filter (set row / delete row and decrement the later labels) and the final slicing; "
    "tied by this run's correspondence over EVERY valid selector (and out-of-range ones) of every generated file / event list, "
    "without and with constructor filters (Oscar: charged_particles; JETSCAPE: charged_particles, multiplicity_cut, both chained)",
    "document models OscarDoc.v / JetscapeDoc.v (what a well-formed file is: jwf - event i carries label i+1 and declares its "
    "number of particle rows, rows are not mistaken for header/trailer lines; hadron and parton files through the defining word)",
    "tables regenerated from Particle.py (gen_particle_tables); oracles float()/int()/PDGID/sqrt as in C01",
]
ASSUMPTIONS = ["the theorems speak about the loader models (Oscar, JETSCAPE, particle-object storer); that the models describe the code is "
               "checked by the correspondence, and the property itself by the property oracle on the real code (all three classes)",
               "a constructor filter is an arbitrary total function of one event's particle list in the Oscar/JETSCAPE theorems (a filter "
               "that raises is only in the particle-object model); the concrete filter chains are C05's subject",
               "Oscar2013Extended_IC / _Photons header scans are not modelled (as in C01)"]
LEVEL_TEXT = ("Theorems (Coq): for every well-formed Oscar-family or JETSCAPE (hadron/parton) document, any number of events, empty events "
              "anywhere, and every selector: loading with events=(a,b) / events=k returns exactly the slice a..b of the unrestricted load - "
              "particles in order, counts under the original labels as a 2-D table, number of events, for Oscar the selected events' own impact "
              "parameters, for JETSCAPE the unchanged sigmaGen pair; events=k is events=(k,k) for ANY file (JETSCAPE: under any constructor filter as well); a "
              "selection past the last event is IndexError (JETSCAPE: also with a filter), never a wrapped index; with a constructor filter "
              "(any per-event function) the result is select-then-filter: each selected event filtered on its own, an event the filter empties "
              "dropped unless it was empty in the file, counts = the sizes of the events kept, labels consecutive from the first selected "
              "label (equal to the original labels whenever no event is dropped); sigmaGen of any two successful loads of one file agree. "
              "The particle-object storer has the analogous theorems on its own model (slice, single = range, counts, select-then-filter with "
              "a possibly raising filter, invalid selectors).  All three models are run against the real constructors for every selector.")
LEVEL_NOTE = ("Hand-written loader models run side by side with the real loaders AND proved equal to the regenerated method bodies of the three loaders (see SOURCE TIES below).  Under a constructor filter the count rows "
              "after a DROPPED event carry decremented labels (the code relabels consecutively, as the filter methods do): the theorems state "
              "exactly that, so 'original labels' is proved for the unfiltered selection and for filtered selections that drop no event.  "
              "Oscar: events=k together with a filter has no theorem of its own (range-with-filter and unfiltered single = range only).  "
              "Constructor filters are an arbitrary per-event function in the theorems and three concrete chains in the correspondence; "
              "particle_list() itself is not modelled for the file loaders - the theorems fix what it consumes (2-D count table whose sizes "
              "equal the held events' sizes, num_events = number of rows) and the property oracle calls it on every case.")
TECHNIQUE = ("Coq proof (firstn/skipn line arithmetic by induction over events; read-loop invariant 'counts = relabelled sizes of the events "
             "kept ++ the open event ++ the events to come') on executable loader models; exhaustive-selector vm_compute correspondence")

PRELUDE = """From Coq Require Import List String ZArith QArith.
From SX Require Import Lib.Strs Gen.GenParticleMap Model.Oscar Model.Jetscape.
Import ListNotations.
Local Open Scope string_scope.
Definition charged (ps : list particle) : list particle :=
  filter (fun p => match get_slot 12 p with Some c => negb (Qeq_bool c 0) | None => false end) ps.
Definition mult_cut2 (ps : list particle) : list particle := if (List.length ps <? 2)%nat then [] else ps.
Definition check_jetscape_f (flt : list particle -> list particle)
           (tf ti : string -> option Q) (pv : Q -> bool) (pc : Q -> Q) (sq : Q -> Q)
           (file : list line) (defstr : string) (sel : selector) (obs : jobserved) : nat :=
  match jload tf ti pv pc sq (Some flt) file defstr sel, obs with
  | Err e, JObsErr e' => if err_eqb e e' then 0 else 2
  | Ok ld, JObsOk ev n c two s1 s2 =>
    if negb (list_eqb (list_eqb jparticle_eqb) (j_events ld) ev) then 3
    else if negb (j_nevents ld =? n)%Z then 4
    else if negb (list_eqb zz_eqb (j_counts ld) c) then 5
    else if negb (Bool.eqb (j_counts_2d ld) two) then 6
    else if negb (Qeq_bool (fst (j_sigma ld)) s1 && Qeq_bool (snd (j_sigma ld)) s2) then 8
    else 0
  | Ok _, JObsErr _ => 9
  | Err _, JObsOk _ _ _ _ _ _ => 10
  end%nat.
Definition check_oscar_f (tf ti : string -> option Q) (pv : Q -> bool) (file : list line) (sel : selector)
           (obs : observed) : nat :=
  let r := ld <- load tf ti pv (Some charged) file sel ;; imps <- impact_parameters tf ld ;; Ok (ld, imps) in
  match r, obs with
  | Err e, ObsErr e' => if err_eqb e e' then 0 else 2
  | Ok (ld, imps), ObsOk ev n c f a im =>
    if negb (list_eqb (list_eqb (list_eqb oq_eqb)) (l_events ld) ev) then 3
    else if negb (l_nevents ld =? n)%Z then 4
    else if negb (list_eqb zz_eqb (l_counts ld) c) then 5
    else if negb (list_eqb Qeq_bool imps im) then 8
    else 0
  | Ok _, ObsErr _ => 9
  | Err _, ObsOk _ _ _ _ _ _ => 10
  end%nat.
"""


# ------------------------------------------------------------------ particle-object storer (Model/PObj.v)
PO_PDG = [211, -211, 111, 2212, 2112, 22, 321, -321, 3122]
PO_CHARGE = {211: 1, -211: -1, 111: 0, 2212: 1, 2112: 0, 22: 0, 321: 1, -321: -1, 3122: 0}
PO_FILTERS = ["charged", "species", "mult", "energy", "charged+mult"]

PO_PRELUDE = """From Coq Require Import List ZArith QArith Bool Arith.
From SX Require Import Lib.Py Model.PObj.
Import ListNotations.
Definition mem (x : nat) (l : list nat) : bool := existsb (Nat.eqb x) l.
Definition keep_ids (k : list nat) (e : list nat) : list nat := filter (fun p => mem p k) e.
Definition mult_cut (m : nat) (e : list nat) : list nat := if (length e <? m)%nat then [] else e.
Definition energy (tab : list (nat * Q)) (e : list nat) : Q :=
  fold_left (fun acc p => match find (fun r => Nat.eqb (fst r) p) tab with Some r => Qred (acc + snd r) | None => acc end) e 0%Q.
Definition energy_cut (tab : list (nat * Q)) (thr : Q) (e : list nat) : list nat :=
  if Qle_bool thr (energy tab e) then e else [].
Inductive pobs := PObsErr (e : errcls) | PObsOk (ev : list (list nat)) (n : Z) (c : list (Z * Z)).
Definition err_eqb (a b : errcls) : bool :=
  match a, b with
  | TypeError, TypeError | ValueError, ValueError | IndexError, IndexError | KeyError, KeyError
  | AttributeError, AttributeError | ZeroDivisionError, ZeroDivisionError | OtherError, OtherError => true
  | _, _ => false
  end.
Definition zz_eqb (a b : Z * Z) : bool := (fst a =? fst b)%Z && (snd a =? snd b)%Z.
Fixpoint leqb {A} (eq : A -> A -> bool) (a b : list A) : bool :=
  match a, b with [], [] => true | x :: s, y :: t => eq x y && leqb eq s t | _, _ => false end.
Definition check_pobj (flt : option (list nat -> result (list nat))) (s : psel) (evs : list (list nat)) (o : pobs) : nat :=
  match pload nat flt s evs, o with
  | Err e, PObsErr e' => if err_eqb e e' then 0 else 2
  | Ok st, PObsOk ev n c =>
    if negb (leqb (leqb Nat.eqb) (p_events nat st) ev) then 3
    else if negb (p_nevents nat st =? n)%Z then 4
    else if negb (leqb zz_eqb (p_counts nat st) c) then 5 else 0
  | Ok _, PObsErr _ => 9
  | Err _, PObsOk _ _ _ => 10
  end%nat.
"""


def po_gen(rng):
    nev = rng.choice([1, 2, 3, 4, 5, 6])
    events, pid = [], 0
    for _ in range(nev):
        ev = []
        for _ in range(rng.choice([0, 1, 2, 3, 5])):
            pdg = rng.choice(PO_PDG)
            ev.append({"id": pid, "pdg": pdg, "E": rng.choice([0.5, 1.0, 1.5, 2.25, 4.0]),
                       "px": rng.choice([-1.0, 0.25, 0.5]), "py": 0.5, "pz": rng.choice([-2.0, 0.0, 1.0])})
            pid += 1
        events.append(ev)
    return events


def po_filter_arg(name):
    """the constructor's filters= dictionary"""
    return {"charged": {"charged_particles": True}, "species": {"particle_species": [211, 2212, 22]},
            "mult": {"multiplicity_cut": (2, None)}, "energy": {"lower_event_energy_cut": 2.5},
            "charged+mult": {"charged_particles": True, "multiplicity_cut": (2, None)}}[name]


def po_expected_event(name, ev):
    """what the documented filter keeps of ONE event (independent of sparkx)"""
    from fractions import Fraction
    if name == "charged":
        return [p for p in ev if PO_CHARGE[p["pdg"]] != 0]
    if name == "species":
        return [p for p in ev if p["pdg"] in (211, 2212, 22)]
    if name == "mult":
        return ev if len(ev) >= 2 else []
    if name == "energy":
        return ev if sum(Fraction(p["E"]) for p in ev) >= Fraction(5, 2) else []
    if name == "charged+mult":
        e = [p for p in ev if PO_CHARGE[p["pdg"]] != 0]
        return e if len(e) >= 2 else []
    raise KeyError(name)


def po_build(events):
    from sparkx.Particle import Particle
    out = []
    for ev in events:
        l = []
        for s_ in ev:
            p = Particle()
            p.ID, p.pdg = s_["id"], s_["pdg"]
            p.charge = PO_CHARGE[s_["pdg"]]
            p.E, p.px, p.py, p.pz = s_["E"], s_["px"], s_["py"], s_["pz"]
            l.append(p)
        out.append(l)
    return out


def po_open(case, built=None):
    import warnings
    from sparkx.ParticleObjectStorer import ParticleObjectStorer
    kw = {}
    if case["sel"] is not None:
        kw["events"] = tuple(case["sel"]) if isinstance(case["sel"], list) else case["sel"]
        if case.get("numpy_selector") and isinstance(case["sel"], int):
            import numpy as np
            kw["events"] = np.int64(case["sel"])         # (replay-only variant, see po_oracle)
    if case["filt"]:
        kw["filters"] = po_filter_arg(case["filt"])
    with warnings.catch_warnings():
        warnings.simplefilter("ignore")
        return ParticleObjectStorer(built if built is not None else po_build(case["events"]), **kw)


def po_observe(case):
    import numpy as np
    try:
        o = po_open(case)
    except Exception as e:
        return {"err": G.err_name(e), "msg": f"{type(e).__name__}: {e}"[:200]}
    cnt = np.asarray(o.num_output_per_event())
    return {"events": [[int(p.ID) for p in e] for e in o.particle_objects_list()], "nevents": int(o.num_events()),
            "counts": cnt.tolist() if cnt.ndim == 2 else [[-999, -999]], "counts_shape": list(cnt.shape)}


def po_coq_case(case, obs):
    ev = coq_list([coq_list([f"{p['id']}%nat" for p in e]) for e in case["events"]])
    sel = case["sel"]
    csel = "PAll" if sel is None else (f"(POne {C.z(sel)}%Z)" if isinstance(sel, int) else f"(PRange {C.z(sel[0])}%Z {C.z(sel[1])}%Z)")
    allp = [p for e in case["events"] for p in e]
    keepc = coq_list([f"{p['id']}%nat" for p in allp if PO_CHARGE[p["pdg"]] != 0])
    keeps = coq_list([f"{p['id']}%nat" for p in allp if p["pdg"] in (211, 2212, 22)])
    etab = coq_list([f"({p['id']}%nat, {C.q(p['E'])})" for p in allp])
    flt = {None: "None", "charged": f"(Some (fun e => Ok (keep_ids {keepc} e)))",
           "species": f"(Some (fun e => Ok (keep_ids {keeps} e)))",
           "mult": "(Some (fun e => Ok (mult_cut 2 e)))",
           "energy": f"(Some (fun e => Ok (energy_cut {etab} (5 # 2) e)))",
           "charged+mult": f"(Some (fun e => Ok (mult_cut 2 (keep_ids {keepc} e))))"}[case["filt"]]
    if "err" in obs:
        o = f"(PObsErr {obs['err']})"
    else:
        o = (f"(PObsOk {coq_list([coq_list([str(i) + '%nat' for i in e]) for e in obs['events']])} {C.z(obs['nevents'])}%Z "
             f"{coq_list([f'({C.z(a)}, {C.z(b)})%Z' for a, b in obs['counts']])})")
    return f"(check_pobj {flt} {csel} {ev} {o})"


def po_oracle(case):
    """C02 for the particle-object storer, stated on the real code: the object built with events= (and filters=) holds
    exactly the selected events of the input list (the very same Particle objects, in order), filtered event by event,
    with num_events / counts under the original positions, and particle_list() works"""
    import numpy as np
    events, sel = case["events"], case["sel"]
    n = len(events)
    if sel is None:
        idx = list(range(n))
    elif isinstance(sel, int):
        idx = [sel]
    else:
        idx = list(range(sel[0], sel[1] + 1))
    if not idx or min(idx) < 0 or max(idx) >= n or (isinstance(sel, list) and sel[0] > sel[1]):
        return None                                    # not a valid selector: nothing is claimed
    built = po_build(events)
    orig = [list(ev) for ev in built]                    # the input list as it is handed over (the very objects, per event)
    raw = {id(p): p.data_.copy() for ev in built for p in ev}
    def expected(ix):
        if case["filt"]:
            return [[orig[i][events[i].index(s_)] for s_ in po_expected_event(case["filt"], events[i])] for i in ix]
        return [list(orig[i]) for i in ix]
    # the same list has a history: a complete storer (same filters) was built from it just before and is still alive
    try:
        first = po_open(dict(case, sel=None), built)
    except Exception as e:
        return f"ParticleObjectStorer(filters={case['filt']}) raises {type(e).__name__}: {e}"[:300]
    try:
        o = po_open(case, built)
    except Exception as e:
        if case.get("numpy_selector"):
            return None      # a numpy integer selector may be refused; if it is accepted it has to mean event k (the generators
                             # do not produce this variant - the storer accepts it and holds ALL events, reported, not decided)
        return f"ParticleObjectStorer(events={sel}, filters={case['filt']}) raises {type(e).__name__}: {e}"[:300]
    want = expected(idx)
    got = o.particle_objects_list()
    if len(got) != len(want) or any(len(a) != len(b) or any(x is not y for x, y in zip(a, b)) for a, b in zip(got, want)):
        return (f"ParticleObjectStorer(events={'np.int64(%d)' % sel if case.get('numpy_selector') and isinstance(sel, int) else sel}, filters={case['filt']}): holds particles "
                f"{[[int(p.ID) for p in e] for e in got]}, the selected events (filtered one by one) are "
                f"{[[int(p.ID) for p in e] for e in want]}")
    if o.num_events() != len(want):
        return f"events={sel}: num_events() = {o.num_events()}, {len(want)} events selected"
    cnt = np.asarray(o.num_output_per_event())
    exp_cnt = [[i, len(w)] for i, w in zip(idx, want)]
    if cnt.tolist() != exp_cnt:
        return f"events={sel} filters={case['filt']}: num_output_per_event() = {cnt.tolist()}, expected {exp_cnt}"
    try:
        o.particle_list()
    except Exception as e:
        return f"events={sel} filters={case['filt']}: particle_list() raises {type(e).__name__}: {e}"[:300]
    # selecting neither changes a particle (every data_ slot as it was set) nor the storer built from the same list before
    for p in (p for e in got for p in e):
        if not np.array_equal(p.data_, raw[id(p)], equal_nan=True):
            return f"events={sel} filters={case['filt']}: particle {int(raw[id(p)][11])} was modified by the construction"
    hf, wf = first.particle_objects_list(), expected(list(range(n)))
    if len(hf) != len(wf) or any(len(a) != len(b) or any(x is not y for x, y in zip(a, b)) for a, b in zip(hf, wf)):
        return (f"events={sel} filters={case['filt']}: the complete storer built from the same list before now holds "
                f"{[[int(p.ID) for p in e] for e in hf]} instead of {[[int(p.ID) for p in e] for e in wf]}")
    if any(len(a) != len(b) or any(x is not y for x, y in zip(a, b)) for a, b in zip(built, orig)) or len(built) != len(orig):
        return f"events={sel} filters={case['filt']}: the list handed to the constructor was changed in place"
    return None


# constructor filters of the file-based cases: case["filt"] is False (none), True (charged_particles; kept as a bool so
# that older replay files stay valid) or one of the names below (JETSCAPE cases)
JET_FILTERS = [True, "mult", "charged+mult"]


def filt_name(f):
    return None if not f else ("charged" if f is True else f)


def filt_kwargs(f):
    """the constructor's filters= dictionary"""
    return {"charged": {"charged_particles": True}, "mult": {"multiplicity_cut": (2, None)},
            "charged+mult": {"charged_particles": True, "multiplicity_cut": (2, None)}}[filt_name(f)]


def filt_methods(f, obj):
    """the same filters as method calls on a loaded object (select, then filter)"""
    for name in filt_name(f).split("+"):
        obj = obj.charged_particles() if name == "charged" else obj.multiplicity_cut((2, None))
    return obj


FILT_COQ = {"charged": "charged", "mult": "mult_cut2", "charged+mult": "(fun e => mult_cut2 (charged e))"}


def selectors(n, rng, quick):
    sels = [None] + list(range(n)) + [(a, b) for a in range(n) for b in range(a, n)]
    sels += [n, (0, n), (n - 1, n + 1), (n + 1, n + 2)]           # out of range
    return sels


def observe(case, ctx, idx):
    kw = {}
    if case["sel"] is not None:
        kw["events"] = tuple(case["sel"]) if isinstance(case["sel"], list) else case["sel"]
    if case["filt"]:
        kw["filters"] = filt_kwargs(case["filt"])
    if case["kind"] == "jet":
        path = os.path.join(ctx.work, f"g{idx}.dat")
        open(path, "w").write(case["text"])
        obs = J.observe(path, particletype=case["doc"]["ptype"], **kw)
    else:
        path = os.path.join(ctx.work, f"g{idx}.oscar")
        open(path, "w").write(case["text"])
        obs = G.observe_oscar(path, **kw)
    os.remove(path)
    return obs


def coq_case(case, obs):
    lines = case["text"].split("\n")
    if lines and lines[-1] == "":
        lines = lines[:-1]
    sel = G.coq_sel(case["sel"] if not isinstance(case["sel"], list) else tuple(case["sel"]))
    if case["kind"] == "jet":
        tf, ti, pv, pc, sq = J.tables(lines)
        word = "N_hadrons" if case["doc"]["ptype"] == "hadron" else "N_partons"
        fn = f"check_jetscape_f {FILT_COQ[filt_name(case['filt'])]}" if case["filt"] else "check_jetscape"
        return (f"({fn} (table {tf}) (table {ti}) (pvtable {pv}) (qtable {pc}) (qtable {sq}) "
                f"{J.coq_file(lines)} {C.coq_str(word)} {sel} {J.coq_observed(obs)})")
    tf, ti = G.token_tables(lines)
    pv = G.pdg_table([l.split(" ") for l in lines])
    fn = "check_oscar_f" if case["filt"] else "check_oscar"
    return f"({fn} (table {tf}) (table {ti}) (pvtable {pv}) {G.coq_file(lines)} {sel} {G.coq_observed(obs)})"


def oracle(case):
    tmp = os.path.join(C.VERIF, ".work")
    os.makedirs(tmp, exist_ok=True)
    sel = case["sel"]
    if case["kind"] == "pobj":
        return po_oracle(case)
    n = len(case["doc"]["events"])
    hi = sel if isinstance(sel, int) else (sel[1] if sel is not None else 0)
    if sel is not None and hi >= n:
        return oracle_oob(case, tmp)
    if case["kind"] == "jet" and isinstance(sel, int):
        msg = oracle_single_is_range(case, tmp)
        if msg:
            return msg
    if isinstance(sel, int) and not case.get("filt"):
        msg = oracle_numpy_selector(case, tmp)
        if msg:
            return msg
    if sel is not None:
        msg = oracle_history(case, tmp)
        if msg:
            return msg
    if case.get("filt"):
        return oracle_filtered(case, tmp)
    if case["kind"] == "jet":
        return J.oracle_load(case["doc"], tmp, sel)
    return G.oracle_load(case["doc"], tmp, sel)


def _snapshot(o):
    """every observable C02 names, of a constructed object"""
    import numpy as np
    cnt = np.asarray(o.num_output_per_event())
    snap = {"events": [[p.data_.tolist() for p in e] for e in o.particle_objects_list()], "nevents": int(o.num_events()),
            "counts": cnt.tolist(), "counts_shape": list(cnt.shape)}
    if hasattr(o, "get_sigmaGen"):
        snap["sigma"] = [float(x) for x in o.get_sigmaGen()]
    if hasattr(o, "impact_parameters"):
        snap["impacts"] = [float(x) for x in o.impact_parameters()]
    try:
        pl = o.particle_list()
        snap["particle_list"] = [len(e) for e in pl] if isinstance(pl, list) else str(type(pl))
    except Exception as e:
        snap["particle_list"] = f"raises {type(e).__name__}: {e}"[:200]
    return snap


def oracle_single_is_range(case, tmp):
    """JETSCAPE: events=k is observably events=(k,k) - particles, num_events, count table INCLUDING its shape, sigmaGen,
    particle_list() - with and without a constructor filter"""
    k = case["sel"]
    kw = {"filters": filt_kwargs(case["filt"])} if case.get("filt") else {}
    snaps = []
    for ev in (k, (k, k)):
        try:
            snaps.append(_snapshot(_open(case, tmp, events=ev, **kw)))
        except Exception as e:
            snaps.append({"raises": f"{type(e).__name__}: {e}"[:200]})
    if json.dumps(snaps[0], sort_keys=True) != json.dumps(snaps[1], sort_keys=True):
        for key in sorted(set(snaps[0]) | set(snaps[1])):
            if json.dumps(snaps[0].get(key)) != json.dumps(snaps[1].get(key)):
                return (f"events={k} and events=({k},{k}) differ in {key} (filters={filt_name(case.get('filt'))}): "
                        f"{json.dumps(snaps[0].get(key))[:120]} vs {json.dumps(snaps[1].get(key))[:120]}")
    if isinstance(snaps[0].get("particle_list"), str):
        return f"events={k}: particle_list() {snaps[0]['particle_list']}"
    return None


def oracle_numpy_selector(case, tmp):
    """a selector given as a numpy integer (what np.arange / an array element hands over) is either refused with an exception or
    means the same event as the plain int - never silently something else"""
    import numpy as np
    k = case["sel"]
    try:
        got = _snapshot(_open(case, tmp, events=np.int64(k)))
    except Exception:
        return None
    want = _snapshot(_open(case, tmp, events=k))
    for key in sorted(set(got) | set(want)):
        if json.dumps(got.get(key)) != json.dumps(want.get(key)):
            return (f"events=np.int64({k}) is accepted but differs from events={k} in {key}: "
                    f"{json.dumps(got.get(key))[:140]} vs {json.dumps(want.get(key))[:140]}")
    return None


def _open(case, tmp, **kw):
    import warnings
    if case["kind"] == "jet":
        from sparkx.Jetscape import Jetscape as K
        path = os.path.join(tmp, f"or_{os.getpid()}.dat")
        text = J.render(case["doc"])
        kw["particletype"] = case["doc"]["ptype"]
    else:
        from sparkx.Oscar import Oscar as K
        path = os.path.join(tmp, f"or_{os.getpid()}.oscar")
        text = G.render(case["doc"])
    open(path, "w").write(text)
    try:
        with warnings.catch_warnings():
            warnings.simplefilter("ignore")
            return K(path, **kw)
    finally:
        os.remove(path)


def _open_seq(case, tmp, kws):
    """several constructions from ONE file that stays on disk in between (same path, same mtime)"""
    import warnings
    if case["kind"] == "jet":
        from sparkx.Jetscape import Jetscape as K
        path = os.path.join(tmp, f"seq_{os.getpid()}.dat")
        text = J.render(case["doc"])
    else:
        from sparkx.Oscar import Oscar as K
        path = os.path.join(tmp, f"seq_{os.getpid()}.oscar")
        text = G.render(case["doc"])
    open(path, "w").write(text)
    out = []
    try:
        with warnings.catch_warnings():
            warnings.simplefilter("ignore")
            for kw in kws:
                kw = dict(kw)
                if case["kind"] == "jet":
                    kw["particletype"] = case["doc"]["ptype"]
                try:
                    out.append(_snapshot(K(path, **kw)))
                except Exception as e:
                    out.append({"raises": f"{type(e).__name__}: {e}"[:200]})
    finally:
        os.remove(path)
    return out


def oracle_history(case, tmp):
    """the selection read from a file gives the same object whatever was constructed from that file before (a filtered complete
    load, the same selection with a filter, ...): nothing is remembered per file between constructions"""
    sel = case["sel"]
    kw = {"events": tuple(sel) if isinstance(sel, list) else sel}
    F = filt_kwargs(case["filt"]) if case.get("filt") else {"charged_particles": True}
    try:
        fresh = _snapshot(_open(case, tmp, **kw))
    except Exception as e:
        fresh = {"raises": f"{type(e).__name__}: {e}"[:200]}
    seq = _open_seq(case, tmp, [{"filters": F}, kw, dict(kw, filters=F), kw])
    for pos, what in ((1, "a filtered complete load"), (3, "the same selection with a filter")):
        if json.dumps(seq[pos], sort_keys=True) != json.dumps(fresh, sort_keys=True):
            for key in sorted(set(seq[pos]) | set(fresh)):
                if json.dumps(seq[pos].get(key)) != json.dumps(fresh.get(key)):
                    return (f"events={sel} constructed after {what} of the same file differs in {key} from the same construction "
                            f"on its own: {json.dumps(seq[pos].get(key))[:140]} vs {json.dumps(fresh.get(key))[:140]}")
    return None


def oracle_oob(case, tmp):
    sel = case["sel"]
    kw = {"filters": filt_kwargs(case["filt"])} if case.get("filt") else {}
    try:
        o = _open(case, tmp, events=tuple(sel) if isinstance(sel, list) else sel, **kw)
    except Exception as e:
        return None
    return f"selection {sel} reaches past the last event but an object with {o.num_events()} events was returned"


def row_charge(case, row):
    """the charge the file gives one particle line (Oscar family: its charge column; JETSCAPE: the PDG charge of its code) as an
    exact number, or None when the file does not determine it (no charge column / a code PDGID does not know)"""
    if case["kind"] == "jet":
        return J.pdg_charge(int(row[1]))
    cols = G.doc_cols(case["doc"])
    if "charge" not in cols or cols.index("charge") >= len(row):
        return None
    return int(row[cols.index("charge")])


def expected_filtered(case, idx):
    """the token rows of the selected events `idx` after the named constructor filter, applied event by event as documented
    (charged_particles keeps the lines with a non-zero charge; multiplicity_cut (2, None) keeps an event of at least two
    lines and empties any other), computed from the document alone; None when a charge is not determined by the file"""
    out = []
    for i in idx:
        rows = list(case["doc"]["events"][i]["rows"])
        for name in filt_name(case["filt"]).split("+"):
            if name == "charged":
                ch = [row_charge(case, r) for r in rows]
                if any(c is None for c in ch):
                    return None
                rows = [r for r, c in zip(rows, ch) if c != 0]
            else:
                rows = rows if len(rows) >= 2 else []
        out.append(rows)
    return out


def oracle_filtered(case, tmp):
    """select, then filter: constructor filters= together with events= equals selecting and calling the method"""
    import numpy as np
    sel = case["sel"]
    kw = {} if sel is None else {"events": tuple(sel) if isinstance(sel, list) else sel}
    n = len(case["doc"]["events"])
    hi = sel if isinstance(sel, int) else (sel[1] if sel is not None else 0)
    if sel is not None and hi >= n:
        return None
    try:
        a = _open(case, tmp, filters=filt_kwargs(case["filt"]), **kw)
    except Exception as e:
        return f"constructor with events={sel} and filters={filt_name(case['filt'])} raises {type(e).__name__}: {e}"[:300]
    b = filt_methods(case["filt"], _open(case, tmp, **kw))
    ea = [[p.data_.tolist() for p in e] for e in a.particle_objects_list() if len(e)]
    eb = [[p.data_.tolist() for p in e] for e in b.particle_objects_list() if len(e)]
    if json.dumps(ea) != json.dumps(eb):
        return f"events={sel} + filters=: particles differ from select-then-filter"
    # ... and against the document itself (neither the unfiltered selection nor the filter methods of the storer are taken on
    # trust): the non-empty events held are the selected events' lines the filter keeps, in file order
    idx = list(range(n)) if sel is None else ([sel] if isinstance(sel, int) else list(range(sel[0], sel[1] + 1)))
    exp = expected_filtered(case, idx)
    if exp is not None:
        exp_ne = [(i, rows) for i, rows in zip(idx, exp) if rows]
        held_ne = [e for e in a.particle_objects_list() if len(e)]
        if len(held_ne) != len(exp_ne):
            return (f"events={sel} + filters={filt_name(case['filt'])}: {len(held_ne)} non-empty events held, the file's selected events "
                    f"keep particles in {len(exp_ne)} events ({[i for i, _ in exp_ne]})")
        for ev, (i, rows) in zip(held_ne, exp_ne):
            if case["kind"] == "jet":
                msg = J.check_rows(ev, rows, i + 1)
            else:
                msg = G.check_rows(ev, rows, G.doc_cols(case["doc"]), i)
            if msg:
                return f"events={sel} + filters={filt_name(case['filt'])}: after the filter, {msg}"
    ca = np.asarray(a.num_output_per_event())
    sizes = [len(e) for e in a.particle_objects_list()]
    if a.particle_objects_list() == [[]] and a.num_events() == 0:
        sizes = []
    if ca.size and (ca.ndim != 2 or ca[:, 1].tolist() != sizes):
        return f"events={sel} + filters=: num_output_per_event() = {ca.tolist()} but the events held have sizes {sizes}"
    held_b = [e for e in b.particle_objects_list()]
    if ca.size and ca.ndim == 2 and len(ea) == len([e for e in a.particle_objects_list()]):
        # no event was dropped by the filter path: the labels are the original ones
        lo = 0 if sel is None else (sel if isinstance(sel, int) else sel[0])
        base = lo + (1 if case["kind"] == "jet" else 0)
        want_labels = list(range(base, base + len(sizes)))
        if len(idx) == len(sizes) and ca[:, 0].tolist() != want_labels:
            return f"events={sel} + filters=: event labels {ca[:, 0].tolist()}, the selected events are {want_labels}"
    if a.num_events() != len(sizes):
        return f"events={sel} + filters=: num_events() = {a.num_events()} but {len(sizes)} events are held"
    if case["kind"] == "oscar":
        # the selected events' own impact parameters (when the filter path dropped no event - with dropped events the footers are
        # the subject of the recorded finding of C06)
        lo_ = 0 if sel is None else (sel if isinstance(sel, int) else sel[0])
        hi_ = n - 1 if sel is None else (sel if isinstance(sel, int) else sel[1])
        if len(sizes) == hi_ - lo_ + 1:
            want_b = [G.nearest_double(ev["b"]) for ev in case["doc"]["events"][lo_:hi_ + 1]]
            try:
                got_b = [float(x) for x in a.impact_parameters()]
            except Exception as e:
                return f"events={sel} + filters=: impact_parameters() raises {type(e).__name__}: {e}"[:300]
            if got_b != want_b:
                return f"events={sel} + filters=: impact_parameters() = {got_b}, the selected events' own are {want_b}"
    if case["kind"] == "jet":
        want_sg = (G.nearest_double(case["doc"]["sigma"]), G.nearest_double(case["doc"]["sigerr"]))
        if tuple(float(x) for x in a.get_sigmaGen()) != want_sg:
            return f"events={sel} + filters=: get_sigmaGen() = {a.get_sigmaGen()}, the file's trailer states {want_sg}"
    try:
        a.particle_list()
    except Exception as e:
        return f"events={sel} + filters=: particle_list() raises {type(e).__name__}: {e}"[:300]
    return None


def correspondence(ctx, model_ok=True):
    nfiles = 14 if ctx.quick else 150
    njet = 6 if ctx.quick else 60                      # a fixed share of JETSCAPE files (hadron and parton) in every run
    kinds = ["jet"] * njet + ["oscar"] * (nfiles - njet)
    ctx.rng.shuffle(kinds)
    cases = []
    forced_empty = 0
    for i, kind in enumerate(kinds):
        if kind == "jet":
            d = J.gen_doc(ctx.rng, ptype=["hadron", "parton", None][i % 3], max_events=4, max_mult=3)
            if forced_empty < 2:
                # in every run: files with an event WITHOUT particles that is neither the first nor the last event (every selector
                # that starts at it is enumerated below) - not left to the draw
                for _ in range(50):
                    if len(d["events"]) >= 3:
                        break
                    d = J.gen_doc(ctx.rng, ptype=["hadron", "parton", None][i % 3], max_events=4, max_mult=3)
                if len(d["events"]) >= 3:
                    d["events"][1] = dict(d["events"][1], rows=[])
                    if forced_empty == 1 and len(d["events"]) >= 4:
                        d["events"][2] = dict(d["events"][2], rows=[])
                    forced_empty += 1
            d["final_newline"] = True
            base = {"kind": "jet", "doc": d, "text": J.render(d)}
            filts = [False] + JET_FILTERS
        else:
            d = G.gen_doc(ctx.rng, max_events=4, max_mult=3)
            base = {"kind": "oscar", "doc": d, "text": G.render(d)}
            filts = [False, True]
        n = len(d["events"])
        for sel in selectors(n, ctx.rng, ctx.quick):
            for filt in filts:
                c = dict(base)
                c["sel"] = list(sel) if isinstance(sel, tuple) else sel
                c["filt"] = filt
                cases.append(c)
    obs = [observe(c, ctx, i) for i, c in enumerate(cases)]
    out = {"evaluations": len(cases),
           "distinct_nontrivial": len({(c["text"], json.dumps(c["sel"]), c["filt"]) for c, o in zip(cases, obs) if "err" not in o and c["sel"] is not None}),
           "rule": "for each generated Oscar/ASCII/JETSCAPE file (a fixed share of JETSCAPE hadron and parton files in every run): EVERY "
                   "selector (none, each k, each (a,b), plus out-of-range ones), without a constructor filter and with charged_particles "
                   "(JETSCAPE also with multiplicity_cut and with both chained); non-trivial = a real selection that loads; "
                   "model evaluated by vm_compute and compared with the real constructor (events, counts incl. shape, num_events, impact "
                   "parameters / sigmaGen, exception class); the property oracle compares every case with the independent re-parse of the "
                   "selected slice, resp. with select-then-filter by the filter methods; for JETSCAPE also events=k against events=(k,k) "
                   "(incl. count-array shape and particle_list()) and that a selection past the last event raises also with a filter",
           "samples": [{"sel": c["sel"], "filt": c["filt"], "text": c["text"][:200]} for c in cases[5:7]],
           "exhaustive": False, "failures": [], "broken": []}
    ok, log = C.make(["Model/Oscar.vo", "Model/Jetscape.vo"])
    if not ok:
        out["broken"].append({"what": "loader models do not build", "detail": log[-800:]})
        return out
    shard = 60
    files = []
    for i in range(0, len(cases), shard):
        body = coq_list([coq_case(c, o) for c, o in zip(cases[i:i + shard], obs[i:i + shard])])
        files.append((f"c02_{i//shard}", PRELUDE + f"Eval vm_compute in {body}.\n"))
    res = C.coq_eval_many(ctx, files)
    codes = []
    for (ok, o), (name, _) in zip(res, files):
        if not ok:
            out["broken"].append({"what": f"cases file {name} failed", "detail": o[-1500:]})
            return out
        codes += C.parse_codes(o)
    out["traces_validated_against_impl"] = sum(1 for c in codes if c == 0)
    out["distribution"] = {"codes": dict(Counter(codes)), "impl": dict(Counter(o.get("err", "ok") for o in obs)),
                           "kinds": dict(Counter(c["kind"] for c in cases)), "with_filter": sum(1 for c in cases if c["filt"]),
                           "filters": dict(Counter(f"{c['kind']}:{filt_name(c['filt'])}" for c in cases)),
                           "jet_single_selectors": sum(1 for c in cases if c["kind"] == "jet" and isinstance(c["sel"], int)),
                           "jet_particle_types": dict(Counter(c["doc"]["ptype"] for c in cases if c["kind"] == "jet"))}
    for c, o, code in zip(cases, obs, codes):
        cc = {k: c[k] for k in ("kind", "doc", "sel", "filt")}
        if code != 0:
            out["failures"].append(Failure(cc, f"model/impl disagree code {code}; impl={json.dumps(o)[:300]}"))
    for c in cases:
        cc = {k: c[k] for k in ("kind", "doc", "sel", "filt")}
        msg = oracle(cc)
        if msg:
            out["failures"].append(Failure(cc, "property oracle", on_impl=msg, key=classify(cc, msg)))
    # ---- particle-object storer: every selector of every generated list, without and with constructor filters
    pcases = []
    for i in range(8 if ctx.quick else 80):
        evs = po_gen(ctx.rng)
        n = len(evs)
        sels = [None] + list(range(n)) + [(a, b) for a in range(n) for b in range(a, n)]
        sels += [n, n + 2, (0, n), (n, n + 1), -1, (1, 0), (-1, 0)]        # past the end (int: IndexError; pair: Python slice) / invalid
        filts = [None] + (ctx.rng.sample(PO_FILTERS, 2) if ctx.quick else PO_FILTERS)
        for sel in sels:
            for f in filts:
                pcases.append({"kind": "pobj", "events": evs, "sel": list(sel) if isinstance(sel, tuple) else sel, "filt": f})
    pobs = [po_observe(c) for c in pcases]
    ok, log = C.make(["Model/PObj.vo"])
    if not ok:
        out["broken"].append({"what": "particle-object model does not build", "detail": log[-800:]})
        return out
    pfiles = []
    for i in range(0, len(pcases), 150):
        body = coq_list([po_coq_case(c, o) for c, o in zip(pcases[i:i + 150], pobs[i:i + 150])])
        pfiles.append((f"c02_po_{i//150}", PO_PRELUDE + f"Eval vm_compute in {body}.\n"))
    pcodes = []
    for (ok, o), (name, _) in zip(C.coq_eval_many(ctx, pfiles), pfiles):
        if not ok:
            out["broken"].append({"what": f"cases file {name} failed", "detail": o[-1500:]})
            return out
        pcodes += C.parse_codes(o)
    if len(pcodes) != len(pcases):
        out["broken"].append({"what": "particle-object cases output could not be parsed", "detail": f"{len(pcodes)} codes for {len(pcases)} cases"})
        return out
    out["evaluations"] += len(pcases)
    out["distinct_nontrivial"] += len({json.dumps(c, sort_keys=True) for c, o in zip(pcases, pobs) if "err" not in o and c["sel"] is not None})
    out["traces_validated_against_impl"] += sum(1 for c in pcodes if c == 0)
    out["distribution"]["pobj"] = {"cases": len(pcases), "codes": dict(Counter(pcodes)), "impl": dict(Counter(o.get("err", "ok") for o in pobs)),
                                   "filters": dict(Counter(str(c["filt"]) for c in pcases))}
    for c, o, code in zip(pcases, pobs, pcodes):
        if code != 0:
            out["failures"].append(Failure(c, f"particle-object model/impl disagree code {code}; impl={json.dumps(o)[:300]}"))
    for c in pcases:
        msg = oracle(c)
        if msg:
            out["failures"].append(Failure(c, "property oracle", on_impl=msg))
    return out


def classify(case, msg):
    return None


def search(ctx):
    return [], 0

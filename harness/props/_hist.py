"""Shared by C09 / C10 / C14: cases for sparkx.Histogram, the runner of the real code, the Coq encoding
of cases and of the implementation's observations (compared inside Coq by Model/HistCheck.v)."""
import csv, json, math, os, warnings
from fractions import Fraction
import numpy as np
import common as C
from common import Failure

DEFAULT_COLUMNS = ["bin_center", "bin_low", "bin_high", "distribution", "stat_err+", "stat_err-", "sys_err+", "sys_err-"]
EXC = {"TypeError": "TypeError", "ValueError": "ValueError", "IndexError": "IndexError", "KeyError": "KeyError",
       "AttributeError": "AttributeError", "ZeroDivisionError": "ZeroDivisionError"}
ARRAYS = [("H", "histograms_"), ("RAW", "histograms_raw_count_"), ("ERR", "error_"), ("SCAL", "scaling_"),
          ("SYS", "systematic_error_")]


# ----------------------------------------------------------------------------- numbers in cases (JSON)
def num(x):
    """case value -> python number (NaN is the string "nan")"""
    return float("nan") if x == "nan" else x


def nums(l):
    return [num(x) for x in l]


def isnan(x):
    return x == "nan" or (isinstance(x, float) and math.isnan(x))


def frac(x):
    return Fraction(num(x))


# ----------------------------------------------------------------------------- running the real code
def make_hist(init):
    from sparkx.Histogram import Histogram
    if init["kind"] == "tuple":
        return Histogram((num(init["lo"]), num(init["hi"]), init["n"]))
    edges = nums(init["edges"])
    if init.get("as_int"):
        edges = [int(e) for e in edges]
    if init.get("np"):
        edges = np.array(edges)
    return Histogram(edges)


def _integral(l):
    return all(isinstance(x, (int, float)) and x == x and abs(x) < 2**53 and x == int(x) for x in l)


def _np_dtype(o, l):
    return int if o.get("np") == "int" and _integral(l) else float


def apply_op(h, o):
    k = o["op"]
    if k == "fill":
        v, w = o["v"], o.get("w")
        v = nums(v) if isinstance(v, list) else num(v)
        if w is not None:
            w = nums(w) if isinstance(w, list) else num(w)
        if o.get("np"):
            # "int": integer ndarrays where every entry is integral; "scalar": numpy scalars instead of Python numbers
            if isinstance(v, list):
                v = np.array(v, dtype=_np_dtype(o, v))
            elif o["np"] == "scalar":
                v = np.int64(v) if _integral([v]) and isinstance(v, int) else np.float64(v)
            elif o["np"] in ("scalar32", "scalar16") and isinstance(v, float) and (v != v or float(np.float16(v)) == v):
                # a value (or a NaN) as a numpy scalar that is not a Python float: np.float32 / np.float16
                v = np.float32(v) if o["np"] == "scalar32" else np.float16(v)
            if isinstance(w, list):
                w = np.array(w, dtype=_np_dtype(o, w))
            elif o["np"] == "scalar" and w is not None:
                w = np.int32(w) if _integral([w]) and isinstance(w, int) else np.float32(w) if float(np.float32(w)) == w else np.float64(w)
        h.add_value(v) if w is None else h.add_value(v, weight=w)
    elif k == "add_hist":
        h.add_histogram()
    elif k == "scale":
        s = o["s"]
        s = (np.array(nums(s), dtype=_np_dtype(o, nums(s))) if o.get("np") else nums(s)) if isinstance(s, list) else num(s)
        if o.get("np") == "scalar" and not isinstance(s, np.ndarray):
            s = np.int64(s) if isinstance(s, int) else np.float64(s)
        h.scale_histogram(s)
    elif k in ("set_err", "set_sys"):
        # how the caller hands the list over: plain floats, Python ints (integral values only), or a numpy array that the caller
        # goes on using (overwritten in place right after the call) - the histogram must hold its own float copy in every case
        l = nums(o["l"])
        how = o.get("how")
        if how == "int" and all(isinstance(x, float) and x == x and x == int(x) for x in l):
            l = [int(x) for x in l]
        elif how == "intarray" and all(isinstance(x, float) and x == x and x == int(x) for x in l):
            l = np.array([int(x) for x in l])
        elif how == "array":
            l = np.array(l, dtype=float)
        (h.set_error if k == "set_err" else h.set_systematic_error)(l)
        if isinstance(l, np.ndarray):
            l[...] = -77
    elif k == "stat_err":
        h.statistical_error()
    elif k == "density":
        h.make_density()
    elif k == "add_bin":
        h.add_bin(o["i"], num(o["e"]))
    elif k == "remove_bin":
        h.remove_bin(o["i"])
    elif k == "average":
        h.average()
    elif k == "avg_w":
        h.average_weighted(np.array(nums(o["ws"]), dtype=_np_dtype(o, nums(o["ws"]))) if o.get("np") else nums(o["ws"]))
    elif k == "avg_err":
        h.average_weighted_by_error()
    else:
        raise RuntimeError("unknown op " + k)


def arr_snap(a):
    a = np.asarray(a)
    if a.dtype == object:
        return {"nd": -1, "shape": [], "data": None}
    return {"nd": a.ndim, "shape": list(a.shape), "data": a.astype(float).tolist()}


def snap(h):
    s = {"nbins": int(h.number_of_bins_), "nhist": int(h.number_of_histograms_),
         "edges": [float(x) for x in np.asarray(h.bin_edges_).ravel()]}
    for short, attr in ARRAYS:
        s[short] = arr_snap(getattr(h, attr))
    return s


def sig_of(s):
    out = [s["nbins"], s["nhist"], len(s["edges"])]
    for short, _ in ARRAYS:
        a = s[short]
        if a["nd"] == 1:
            out += [1, a["shape"][0], 0]
        elif a["nd"] == 2:
            out += [2, a["shape"][0], a["shape"][1] if a["shape"][0] > 0 else 0]
        else:
            out += [99, 0, 0]
    return out


def exc_name(e):
    return EXC.get(type(e).__name__, "Other:" + type(e).__name__)


def early_write(h, wr, labels, workdir, tag="early", cols=None):
    """an additional write_to_file in the middle of a history, with the same one-dict label list object (and, `cols`, the same
    column list object) that the final write uses; returns the exception name or None.  Only used when the labels are valid for
    any number of histograms (one dict holding every requested column, all columns known)."""
    path = os.path.join(workdir or "/tmp", f"hist_{tag}_{os.getpid()}.csv")
    try:
        if wr.get("columns") is None:
            h.write_to_file(path, labels)
        else:
            h.write_to_file(path, labels, columns=list(wr["columns"]) if cols is None else cols)
        return None
    except Exception as e:
        return exc_name(e)
    finally:
        try:
            os.remove(path)
        except OSError:
            pass


def early_write_applies(wr):
    if wr is None or wr.get("early_at") is None:
        return False
    labels, cols = wr["labels"], wr.get("columns")
    req = list(DEFAULT_COLUMNS) if cols is None else list(cols)
    return len(labels) == 1 and all(c in DEFAULT_COLUMNS for c in req) and all(c in labels[0] for c in req)


def run_impl(case, workdir=None):
    """real code: the state after every operation (None once an exception ended the history), the exception,
    the geometry accessors and the parsed CSV of write_to_file"""
    warnings.simplefilter("ignore")
    out = {"init_exc": None, "init": None, "trace": [], "exc": None, "final": None, "geom": None, "write": None,
           "linspace": None}
    init = case["init"]
    if init["kind"] == "tuple":
        try:
            out["linspace"] = [float(x) for x in np.linspace(num(init["lo"]), num(init["hi"]), num=init["n"] + 1)]
        except Exception:
            out["linspace"] = []
    with np.errstate(all="ignore"):
        try:
            h = make_hist(init)
        except Exception as e:
            out["init_exc"] = exc_name(e)
            return out
        out["init"] = snap(h)
        wr0 = case.get("write")
        shared_labels = json.loads(json.dumps(wr0["labels"])) if wr0 is not None else None    # ONE object for every write
        shared_cols = list(wr0["columns"]) if wr0 is not None and wr0.get("columns") is not None else None   # likewise
        for step, o in enumerate(case["ops"]):
            try:
                apply_op(h, o)
                pk = case.get("peek")
                if pk is True or (isinstance(pk, list) and step in pk):
                    # the caller looks at the geometry after this operation (pure accessors): after every one, or after the listed steps
                    h.bin_centers(), h.bin_width(), h.bin_bounds_left(), h.bin_bounds_right()
                if early_write_applies(wr0) and wr0["early_at"] == step:
                    out["early_write_exc"] = early_write(h, wr0, shared_labels, workdir, cols=shared_cols)
            except Exception as e:
                out["exc"] = exc_name(e)
                out["trace"].append({"exc": out["exc"]})
                try:
                    out["after_exc"] = snap(h)
                except Exception:
                    out["after_exc"] = None
                return out
            out["trace"].append({"state": snap(h)})
        out["final"] = snap(h)
        try:
            out["geom"] = [[float(x) for x in f()] for f in (h.bin_centers, h.bin_width, h.bin_bounds_left, h.bin_bounds_right)]
        except Exception as e:
            out["geom"] = {"exc": exc_name(e)}
        wr = case.get("write")
        if wr is not None:
            path = os.path.join(workdir or "/tmp", f"hist_{os.getpid()}.csv")
            try:
                if wr.get("columns") is None:
                    h.write_to_file(path, shared_labels)
                else:
                    h.write_to_file(path, shared_labels, columns=shared_cols)
                out["write"] = {"tables": parse_csv(path, out["final"]["nbins"])}
            except Exception as e:
                out["write"] = {"exc": exc_name(e)}
            finally:
                try:
                    os.remove(path)
                except OSError:
                    pass
    return out


def parse_csv(path, nbins):
    """blocks of (header, nbins rows), each followed by an empty line"""
    with open(path, newline="") as f:
        rows = list(csv.reader(f))
    tables, i = [], 0
    while i < len(rows):
        if rows[i] == []:
            i += 1
            continue
        header = rows[i]
        body = rows[i + 1:i + 1 + nbins]
        tables.append([header, [[float(x) for x in r] for r in body]])
        i += 1 + nbins
    return tables


# ----------------------------------------------------------------------------- Coq encoding
def qc(x):
    f = Fraction(x)
    n, d = f.numerator, f.denominator
    return f"(qc {n} {d})" if n >= 0 else f"(qc ({n}) {d})"


def cell(x):
    x = num(x)
    if isinstance(x, float) and not math.isfinite(x):
        return "N"
    f = Fraction(x)
    n, d = f.numerator, f.denominator
    return f"(F {n} {d})" if n >= 0 else f"(F ({n}) {d})"


def cl(f, items):
    return "[" + "; ".join(f(i) for i in items) + "]"


def coq_arr(a):
    if a["nd"] == 1:
        return "(A1 " + cl(cell, a["data"]) + ")"
    if a["nd"] == 2:
        return "(A2 " + cl(lambda r: cl(cell, r), a["data"]) + ")"
    return None


def coq_state(s):
    arrs = [coq_arr(s[k]) for k, _ in ARRAYS]
    if any(a is None for a in arrs):
        return None
    H, RAW, ERR, SCAL, SYS = arrs
    return f"(mkH {s['nbins']} {cl(qc, s['edges'])} {s['nhist']} {H} {RAW} {ERR} {SCAL} {SYS})"


def coq_exc(name):
    return "(Err " + (name if name in EXC else "Unmodelled") + ")"


def coq_res_state(s, exc):
    if exc is not None:
        return coq_exc(exc), True
    c = coq_state(s)
    if c is None:
        return "(Err Unmodelled)", False
    return f"(Ok {c})", True


def coq_vals(v):
    return "(VList " + cl(cell, v) + ")" if isinstance(v, list) else f"(VScalar {cell(v)})"


def coq_wts(w):
    if w is None:
        return "WNone"
    return "(WList " + cl(cell, w) + ")" if isinstance(w, list) else f"(WScalar {cell(w)})"


def coq_op(o):
    k = o["op"]
    if k == "fill":
        return f"(OFill {coq_vals(o['v'])} {coq_wts(o.get('w'))})"
    if k == "add_hist":
        return "OAddHist"
    if k == "scale":
        s = o["s"]
        return "(OScale (SList " + cl(cell, s) + "))" if isinstance(s, list) else f"(OScale (SScalar {cell(s)}))"
    if k == "set_err":
        return "(OSetErr " + cl(cell, o["l"]) + ")"
    if k == "set_sys":
        return "(OSetSys " + cl(cell, o["l"]) + ")"
    if k == "stat_err":
        return "OStatErr"
    if k == "density":
        return "ODensity"
    if k == "add_bin":
        return f"(OAddBin {C.z(o['i'])} {qc(num(o['e']))})"
    if k == "remove_bin":
        return f"(ORemoveBin {C.z(o['i'])})"
    if k == "average":
        return "OAverage"
    if k == "avg_w":
        return "(OAvgW " + cl(cell, o["ws"]) + ")"
    if k == "avg_err":
        return "OAvgErr"
    raise RuntimeError(k)


def colkey(name):
    """column / dictionary key -> number: the eight default columns are 0..7"""
    if name in DEFAULT_COLUMNS:
        return DEFAULT_COLUMNS.index(name)
    return 8 + int(name[5:])          # "extra<k>"


def labnum(s):
    return int(s[1:])                 # "L<k>"


def coq_init(init):
    if init["kind"] == "tuple":
        n = init["n"]
        is_int = isinstance(n, int) and not isinstance(n, bool)
        return f"(ITuple {qc(num(init['lo']))} {qc(num(init['hi']))} {C.coq_bool(is_int)} {C.z(int(n))})"
    return "(IList " + cl(qc, nums(init["edges"])) + ")"


def coq_case(case, got):
    """-> (term, representable): the term is `check ...` ; not representable = the implementation's state has no
    counterpart in the model's types (object arrays, 0-d arrays): counted as a mismatch by the caller"""
    ok = True
    ls = cl(qc, got["linspace"]) if got["linspace"] is not None else "[]"
    e_init, r = coq_res_state(got["init"], got["init_exc"])
    ok &= r
    ops = cl(coq_op, case["ops"])
    wr = case.get("write")
    if wr is None:
        cwr = "None"
    else:
        labels = cl(lambda d: cl(lambda kv: f"({colkey(kv[0])}, {labnum(kv[1])})", list(d.items())), wr["labels"])
        cols = "None" if wr.get("columns") is None else "(Some " + cl(lambda c: str(colkey(c)), wr["columns"]) + ")"
        cwr = f"(Some ({labels}, {cols}))"
    trace = []
    for t in got["trace"]:
        if "exc" in t:
            trace.append("[" + str(100 + {"TypeError": 1, "ValueError": 2, "IndexError": 3, "KeyError": 4, "AttributeError": 5,
                                           "ZeroDivisionError": 6}.get(t["exc"], 7)) + "]")
        else:
            trace.append(cl(str, [0] + sig_of(t["state"])))
    e_final, r = coq_res_state(got["final"], got["exc"]) if (got["final"] is not None or got["exc"] is not None) else ("(Err Unmodelled)", True)
    ok &= r
    geom = "[]"
    if isinstance(got["geom"], list):
        geom = cl(lambda l: cl(cell, l), got["geom"])
    elif got["geom"] is not None:
        ok = False
    if got["write"] is None:
        ew = "None"
    elif "exc" in got["write"]:
        ew = f"(Some {coq_exc(got['write']['exc'])})"
    else:
        ew = "(Some (Ok " + cl(lambda t: "(" + cl(lambda s: str(labnum(s)), t[0]) + ", " + cl(lambda r: cl(cell, r), t[1]) + ")",
                              got["write"]["tables"]) + "))"
    term = (f"(check {ls} {coq_init(case['init'])} {e_init} {ops} {cwr} "
            f"(mkE {'[' + '; '.join(trace) + ']'} {e_final} {geom} {ew}))")
    return term, ok


PRELUDE = """From Coq Require Import List ZArith QArith Qcanon.
From SX Require Import Model.Histogram Model.HistCheck.
Import ListNotations.
Local Open Scope nat_scope.
"""


def run_cases(ctx, prop, cases, gots, shard=100):
    """evaluate `check` on every case inside Coq; returns (codes, broken)"""
    ok, log = C.make(["Model/HistCheck.vo"])
    if not ok:
        return None, [{"what": "model Model/Histogram.v / Model/HistCheck.v does not build", "detail": log[-800:]}]
    files, forced = [], {}
    for i in range(0, len(cases), shard):
        terms = []
        for j, (c, g) in enumerate(zip(cases[i:i + shard], gots[i:i + shard])):
            t, representable = coq_case(c, g)
            if not representable:
                forced[i + j] = 98
            terms.append(t)
        files.append((f"{prop.lower()}_{i // shard}", PRELUDE + "Eval vm_compute in [" + ";\n ".join(terms) + "].\n"))
    res = C.coq_eval_many(ctx, files)
    codes = []
    for (ok, o), (name, _) in zip(res, files):
        if not ok:
            return None, [{"what": f"cases file {name} failed to evaluate", "detail": o[-800:]}]
        codes += C.parse_codes(o)
    if len(codes) != len(cases):
        return None, [{"what": "cases output could not be parsed", "detail": f"{len(codes)} codes for {len(cases)} cases"}]
    for k, v in forced.items():
        codes[k] = max(codes[k], v)
    # a rejected call must leave a well-formed object behind: same shape signature as before the call
    # (checked on the implementation's own snapshots; the model has no state after an exception)
    for k, g in enumerate(gots):
        if g.get("exc") is not None and "after_exc" in g:
            prev = g["trace"][-2]["state"] if len(g["trace"]) >= 2 else g["init"]
            if g["after_exc"] is None or sig_of(g["after_exc"]) != sig_of(prev):
                codes[k] = max(codes[k], 77)
    return codes, []


COMPONENT = {7: "shapes changed by a call that raised", 1: "np.linspace differs from lo+i(hi-lo)/n", 2: "constructor", 3: "shape signature after some operation",
             4: "final state (values)", 5: "bin_centers/bin_width/bin_bounds", 6: "write_to_file output", 9: "state not representable"}


def describe(code):
    return f"code {code}: {COMPONENT.get(code // 10, '?')} (reason {code % 10})"


# ----------------------------------------------------------------------------- generators
DY = [0.25, 0.5, 0.75, 1.0, 1.5, 2.0, 0.125, 3.0]


def gen_init(rng, allow_bad=True):
    r = rng.random()
    if r < 0.35:                                   # uniform tuple, exact edges
        lo = rng.choice([-2.0, -1.0, 0.0, 0.5, -0.5, 0, 1])
        n = rng.choice([1, 2, 2, 3, 4, 4, 5, 8])
        step = rng.choice([0.25, 0.5, 1.0, 2.0, 0.75])
        return {"kind": "tuple", "lo": lo, "hi": lo + n * step, "n": n}
    if r < 0.45:                                   # uniform tuple, rounded edges (width not representable: the last
        lo = rng.choice([0.0, 0.1, -1.0, 0.3, -0.9, -0.2, 0.7])      # edge must still be hi exactly, as np.linspace gives)
        n = rng.choice([3, 5, 6, 7, 9, 10, 11])
        return {"kind": "tuple", "lo": lo, "hi": lo + rng.choice([1.0, 0.7, 2.0, 0.9, 3.2, 0.2, 0.4, 2.9, 1.8]), "n": n}
    if r < 0.50 and allow_bad:                     # rejected tuples
        return rng.choice([{"kind": "tuple", "lo": 1.0, "hi": 1.0, "n": 3}, {"kind": "tuple", "lo": 2.0, "hi": 1.0, "n": 3},
                           {"kind": "tuple", "lo": 0.0, "hi": 1.0, "n": 0}, {"kind": "tuple", "lo": 0.0, "hi": 1.0, "n": -2},
                           {"kind": "tuple", "lo": 0.0, "hi": 1.0, "n": 2.5}])
    # explicit edges, unequal widths
    nb = rng.choice([1, 2, 2, 3, 3, 4, 5, 6])
    as_int = rng.random() < 0.2
    e = rng.choice([-2.0, -1.0, 0.0, 0.5, -0.25])
    if as_int:
        e = float(int(e))
    edges = [e]
    for _ in range(nb):
        e += float(rng.choice([1, 2, 3])) if as_int else rng.choice(DY)
        edges.append(e)
    init = {"kind": "list", "edges": edges}
    if as_int:
        init["as_int"] = True
    if rng.random() < 0.3:
        init["np"] = True
    if allow_bad and rng.random() < 0.06:
        q = rng.random()
        if q < 0.3:
            init["edges"] = list(reversed(edges))           # decreasing: numpy's mirrored rule
        elif q < 0.6 and len(edges) > 2:
            init["edges"][1], init["edges"][2] = init["edges"][2], init["edges"][1] + 0.0   # not monotonic
        elif q < 0.8:
            init["edges"] = edges[:1] + edges                # duplicated edge (zero-width bin)
        else:
            init["edges"] = rng.choice([[], [1.0]])
        init.pop("as_int", None)
    return init


def edges_of(init):
    if init["kind"] == "tuple":
        try:
            return [float(x) for x in np.linspace(num(init["lo"]), num(init["hi"]), num=int(init["n"]) + 1)]
        except Exception:
            return [0.0, 1.0]
    return nums(init["edges"]) or [0.0]


def gen_value(rng, edges):
    r = rng.random()
    if r < 0.45:
        e = rng.choice(edges)
        if rng.random() < 0.12:                     # the doubles next to an edge
            e = math.nextafter(e, rng.choice([-math.inf, math.inf]))
        return e
    lo, hi = min(edges), max(edges)
    if r < 0.80 and len(edges) > 1:
        i = rng.randrange(len(edges) - 1)
        return edges[i] + (edges[i + 1] - edges[i]) * rng.choice([0.5, 0.25, 0.75, 0.125])
    if r < 0.90:
        return lo - rng.choice([0.5, 1.0, 0.125])
    return hi + rng.choice([0.0, 0.5, 1.0, 0.125])


def gen_fill(rng, edges, nan_ok=True):
    o = {"op": "fill"}
    r = rng.random()
    wmode = rng.choice(["none", "match", "match", "match", "match", "match", "bad"]) if rng.random() < 0.5 else "none"
    if r < 0.35:                                    # scalar
        v = gen_value(rng, edges)
        if rng.random() < 0.15 and float(v).is_integer():
            v = int(v)
        o["v"] = v
        if wmode == "match":
            o["w"] = rng.choice([0.5, 2.0, 1.5, 0.25, 3, -1.0, 1.0, 0.0, 0])
        elif wmode == "bad":
            o["w"] = rng.choice([[1.0], [1.0, 2.0], "nan"])
    else:
        k = rng.choice([0, 1, 2, 3, 4, 5, 8])
        o["v"] = [gen_value(rng, edges) for _ in range(k)]
        if wmode == "match":
            o["w"] = [rng.choice([0.5, 2.0, 1.5, 0.25, 1.0, 3.0, -0.5, 0.0, 0.0]) for _ in range(k)]
            if nan_ok and k and rng.random() < 0.08:
                o["w"][rng.randrange(k)] = "nan"
        elif wmode == "bad":
            o["w"] = rng.choice([2.0, [1.0] * (k + 1), [0.5] * max(0, k - 1)])
        if rng.random() < 0.3:
            o["np"] = True
            if rng.random() < 0.3:
                o["np"] = "int"                      # integer ndarrays (values / weights that are integral)
                if rng.random() < 0.5:
                    o["v"] = [float(round(x)) for x in o["v"]]
                    if isinstance(o.get("w"), list):
                        o["w"] = [float(round(x)) if not isnan(x) else x for x in o["w"]]
    if not isinstance(o["v"], list) and rng.random() < 0.15:
        o["np"] = "scalar"                           # numpy scalars (np.float64 / np.int64 value, np.float32 / np.int32 weight)
    if nan_ok and rng.random() < 0.06:
        if isinstance(o["v"], list) and o["v"]:
            o["v"][rng.randrange(len(o["v"]))] = "nan"
        else:
            o["v"] = "nan"
            if rng.random() < 0.6:
                o["np"] = rng.choice(["scalar", "scalar32", "scalar16"])     # the NaN as np.float64 / np.float32 / np.float16
    elif not isinstance(o["v"], list) and isinstance(o["v"], float) and rng.random() < 0.08:
        o["np"] = rng.choice(["scalar32", "scalar16"])
    return o


def gen_scale(rng, nbins):
    r = rng.random()
    if r < 0.5:
        o = {"op": "scale", "s": rng.choice([2.0, 0.5, 0.25, 3, 1.5, 0.0, 4.0, 1.0, 0.75])}
        if rng.random() < 0.15:
            o["np"] = "scalar"
        return o
    if r < 0.85:
        o = {"op": "scale", "s": [rng.choice([2.0, 0.5, 1.0, 4.0, 0.25, 1.5, 0.0]) for _ in range(nbins)]}
        if rng.random() < 0.4:
            o["np"] = True
            if rng.random() < 0.3:
                o["np"] = "int"
                o["s"] = [rng.choice([2.0, 1.0, 4.0, 3.0, 0.0, 1.0]) for _ in range(nbins)]
        elif rng.random() < 0.2:
            o["s"] = [rng.choice([2, 1, 4, 3, 0, 1]) for _ in range(nbins)]      # a list of Python ints
        return o
    return {"op": "scale", "s": rng.choice([-1.0, -0.5, [1.0] * (nbins + 1), [2.0] * max(0, nbins - 1), [-1.0] * nbins, "nan"])}


def shrink_case(case, fails):
    """greedy delta debugging over the operation list, then over the values of each fill"""
    cur = case
    changed = True
    while changed:
        changed = False
        for cand in _smaller(cur):
            try:
                if fails(cand):
                    cur, changed = cand, True
                    break
            except Exception:
                pass
    return cur


def _smaller(c):
    ops = c["ops"]
    if c.get("write") is not None:
        d = dict(c)
        d["write"] = None
        yield d
    for i in range(len(ops)):
        d = dict(c)
        d["ops"] = ops[:i] + ops[i + 1:]
        yield d
    for i, o in enumerate(ops):
        if o["op"] == "fill" and isinstance(o["v"], list) and len(o["v"]) > 0:
            for j in range(len(o["v"])):
                o2 = dict(o)
                o2["v"] = o["v"][:j] + o["v"][j + 1:]
                if isinstance(o.get("w"), list) and len(o["w"]) == len(o["v"]):
                    o2["w"] = o["w"][:j] + o["w"][j + 1:]
                d = dict(c)
                d["ops"] = ops[:i] + [o2] + ops[i + 1:]
                yield d
        if o["op"] == "fill" and o.get("w") is not None:
            o2 = dict(o)
            o2["w"] = None
            d = dict(c)
            d["ops"] = ops[:i] + [o2] + ops[i + 1:]
            yield d
    wr = c.get("write")
    if wr and wr.get("columns") is not None and len(wr["columns"]) > 1:
        for j in range(len(wr["columns"])):
            d = dict(c)
            d["write"] = dict(wr, columns=wr["columns"][:j] + wr["columns"][j + 1:])
            yield d

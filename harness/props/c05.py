"""C05 - constructor filters are equivalent to calling the filter methods."""
import json, math, os, warnings
import numpy as np
import common as C
from common import Failure, coq_list
from props import c03

ID = "C05"
GEN = ["gen_filters", "gen_dispatch", "gen_particle_tables", "gen_pobj", "gen_jetscapeloader", "gen_oscarloader"]
EXTRA_PROPERTY_FILES = ["C05Bridge", "SrcPObj", "SrcJetscapeLoader", "SrcOscarLoader"]
SOURCE_TIE_NOTE = ("constructor path: Model/CtorFilters.v per-event loop = events / count column of the loader models Oscar.load / jload / pload with the filter chain as their "
    "per-event function, for every well-formed document, selector in range and admissible chain incl. the regenerated dispatch chains (Properties/C05Bridge.v, 12 theorems), "
    "and those loader models equal the regenerated loaders (SrcOscarLoader, SrcJetscapeLoader, SrcPObj); labels after a dropped event are renumbered, as the code does")
ALLOWED_AXIOMS = []
MODEL_INDEPENDENT_OF_PROOFS = True
TRUSTED = [
    "Coq 8.16.1 kernel + vm_compute (no native_compute)",
    "translators tools/py2coq/gen_dispatch.py (dispatch chains through pyfrag; BaseStorer/Oscar/Jetscape/"
    "ParticleObjectStorer method wrappers as tables) and gen_filters.py - validated by this run's correspondence "
    "(the generated chain is run against the real __apply_kwargs_filters, the generated method table against the "
    "real methods)",
    "hand model coq/Model/CtorFilters.v: the contract of a filters entry, the per-event application loop of "
    "set_particle_list (file loaders drop an event iff it was non-empty and became empty; ParticleObjectLoader keeps "
    "every event), the method path - tied by this run's correspondence only",
    "run-time model coq/Model/PyRt.v; particles are observation records (C03's trusted base applies)",
    "event selection (events=k / (a,b)) is applied by the harness before the model runs: its correctness is C02's subject",
]
ASSUMPTIONS = [
    "C05_equiv_* quantify over documented calls (type fcall: every filter with its documented argument shapes) with "
    "distinct names that the class implements, and over event lists whose accessors do not raise (obs_total)",
    "the count array bookkeeping is modelled as the count column of the loaded events; labels are not compared",
]

CLASSES = ["Oscar", "Jetscape", "PObj"]
KEYS = {
    "Oscar": ["charged_particles", "uncharged_particles", "particle_species", "remove_particle_species", "participants",
              "spectators", "lower_event_energy_cut", "spacetime_cut", "pT_cut", "mT_cut", "rapidity_cut",
              "pseudorapidity_cut", "spacetime_rapidity_cut", "multiplicity_cut", "keep_hadrons", "keep_leptons",
              "keep_mesons", "keep_baryons", "keep_up", "keep_down", "keep_strange", "keep_charm", "keep_bottom",
              "keep_top", "remove_photons"],
    "Jetscape": ["charged_particles", "uncharged_particles", "particle_species", "remove_particle_species",
                 "lower_event_energy_cut", "pT_cut", "mT_cut", "rapidity_cut", "pseudorapidity_cut", "multiplicity_cut",
                 "particle_status", "keep_hadrons", "keep_leptons", "keep_quarks", "keep_mesons", "keep_baryons",
                 "keep_up", "keep_down", "keep_strange", "keep_charm", "keep_bottom", "keep_top", "remove_photons"],
}
KEYS["PObj"] = sorted(set(KEYS["Oscar"]) | set(KEYS["Jetscape"]))
ALLKEYS = KEYS["PObj"]
SWITCH = set(c03.NOARG)


# ----------------------------------------------------------------------------------------- sources
def write_oscar(path, events):
    with open(path, "w") as f:
        f.write("#!OSCAR2013 particle_lists t x y z mass p0 px py pz pdg ID charge\n"
                "# Units: fm fm fm fm GeV GeV GeV GeV GeV none none e\n# SMASH-3.1\n")
        for i, ev in enumerate(events):
            f.write(f"# event {i} out {len(ev)}\n")
            for s in ev:
                f.write(" ".join(s["values"]) + "\n")
            f.write(f"# event {i} end 0 impact   0.000 scattering_projectile_target yes\n")


def write_jetscape(path, events):
    with open(path, "w") as f:
        f.write("#\tJETSCAPE_FINAL_STATE\tv2\t|\tN\tpid\tstatus\tE\tPx\tPy\tPz\n")
        for i, ev in enumerate(events):
            f.write(f"#\tEvent\t{i + 1}\tweight\t1\tEPangle\t0\tN_hadrons\t{len(ev)}\n")
            for s in ev:
                f.write(" ".join(s["values"]) + "\n")
        f.write("#\tsigmaGen\t0.000314633\tsigmaErr\t6.06164e-07\n")


def source(ctx_work, case, tag):
    """-> (storer class, constructor source argument factory)"""
    cls = case["cls"]
    if cls == "Oscar":
        from sparkx.Oscar import Oscar
        path = os.path.join(ctx_work, f"{tag}.oscar")
        write_oscar(path, case["events"])
        return Oscar, (lambda: path)
    if cls == "Jetscape":
        from sparkx.Jetscape import Jetscape
        path = os.path.join(ctx_work, f"{tag}.dat")
        write_jetscape(path, case["events"])
        return Jetscape, (lambda: path)
    from sparkx.ParticleObjectStorer import ParticleObjectStorer
    objs = [[c03.build_particle(s) for s in ev] for ev in case["events"]]
    return ParticleObjectStorer, (lambda: [list(ev) for ev in objs])


def sel_kw(case):
    s = case["sel"]
    if s is None:
        return {}
    return {"events": tuple(s) if isinstance(s, list) else int(s)}


def sliced(case, evs):
    s = case["sel"]
    if s is None:
        return evs
    if isinstance(s, list):
        return evs[s[0]:s[1] + 1]
    return [evs[s]]


def filt_dict(case):
    return {k: c03.py_arg(a) for k, a in case["filters"]}


def call_method(storer, key, val):
    """the method call that a dictionary entry stands for"""
    if key in SWITCH:
        if val:
            getattr(storer, key)()
        return
    if key == "spacetime_cut":
        getattr(storer, key)(val[0], val[1])
        return
    getattr(storer, key)(val)


def pid_of(case, p, idmap):
    if case["cls"] == "PObj":
        return idmap.get(id(p), -1)
    return int(p.ID)


def counts_column(storer):
    a = storer.num_output_per_event()
    a = np.asarray(a)
    if a.size == 0:
        return []
    return [int(x) for x in np.atleast_2d(a)[:, 1]]


def run_impl(case, work, tag="src"):
    """real code: base load (for the observation records), constructor path, method path"""
    out = {}
    with warnings.catch_warnings():
        warnings.simplefilter("ignore")
        cls, src = source(work, case, tag)
        base_src = src()
        base = cls(base_src, **sel_kw(case))
        idmap = {}
        if case["cls"] == "PObj":
            n = 0
            for ev in base_src:
                for p in ev:
                    idmap[id(p)] = n
                    n += 1
        evs = base.particle_objects_list()
        out["base"] = [[pid_of(case, p, idmap) for p in ev] for ev in evs]
        out["obs"] = {pid_of(case, p, idmap): c03.observe(p) for ev in evs for p in ev}
        d = filt_dict(case)
        if len(d) >= 2:
            # an earlier object of this process was constructed with the SAME entries in the opposite insertion order:
            # nothing may be remembered per set of entries
            try:
                cls(src(), filters=dict(reversed(list(d.items()))), **sel_kw(case))
            except Exception:
                pass
        # list-valued id arguments: an earlier object of this process was constructed with the SAME list object, which then held
        # other codes and was refilled in place (whatever is remembered per argument object must not survive)
        for k_, v_ in list(d.items()):
            if k_ in ("particle_species", "remove_particle_species", "particle_status") and isinstance(v_, list) and v_:
                real = list(v_)
                v_[:] = [987654321 + i for i in range(len(real))]
                try:
                    cls(src(), filters=d, **sel_kw(case))
                except Exception:
                    pass
                v_[:] = real
        try:
            a = cls(src(), filters=d, **sel_kw(case))
            out["ctor"] = {"ok": [[pid_of(case, p, idmap) for p in ev] for ev in a.particle_objects_list()],
                           "counts": counts_column(a), "nev": int(a.num_events()),
                           "data": [[p.data_.tolist() for p in ev] for ev in a.particle_objects_list()]}
        except Exception as e:
            out["ctor"] = {"exc": c03.exn_name(e)}
        try:
            b = cls(src(), **sel_kw(case))
            for k, v in d.items():
                call_method(b, k, v)
            out["meth"] = {"ok": [[pid_of(case, p, idmap) for p in ev] for ev in b.particle_objects_list()],
                           "counts": counts_column(b), "nev": int(b.num_events()),
                           "data": [[p.data_.tolist() for p in ev] for ev in b.particle_objects_list()]}
        except Exception as e:
            out["meth"] = {"exc": c03.exn_name(e)}
        # the chain alone, on the first loaded event: the real __apply_kwargs_filters
        try:
            ldr_cls = {"Oscar": "OscarLoader", "Jetscape": "JetscapeLoader", "PObj": "ParticleObjectLoader"}[case["cls"]]
            import importlib
            L = getattr(importlib.import_module("sparkx.loader." + ldr_cls), ldr_cls)
            ldr = L.__new__(L)
            fn = getattr(ldr, f"_{ldr_cls}__apply_kwargs_filters")
            ev0 = list(evs[0]) if evs else []
            r = fn([ev0], d)
            out["chain"] = {"ok": [[pid_of(case, p, idmap) for p in ev] for ev in r]}
        except Exception as e:
            out["chain"] = {"exc": c03.exn_name(e)}
    return out


# ----------------------------------------------------------------------------------------- property oracle
def admissible_calls(case, base_objs):
    """every entry is a documented call of a filter the class has, with distinct names, and no accessor raises
    (decided by c03.expected on the case's own particle data: the selected events of case['events'])"""
    specs = sliced(case, case["events"])
    if [len(e) for e in specs] != [len(e) for e in base_objs]:
        specs = None          # (the loader handed over something else: c03 falls back to the objects' raw slots)
    keys = [k for k, _ in case["filters"]]
    if len(set(keys)) != len(keys):
        return False
    for k, a in case["filters"]:
        if k not in KEYS[case["cls"]]:
            return False
        v = c03.py_arg(a)
        if k in SWITCH:
            if not isinstance(v, bool):
                return False
            continue
        if k == "spacetime_cut":
            if not (isinstance(v, list) and len(v) == 2):
                return False
            args = [A_of(v[0]), A_of(v[1])]
        else:
            args = [a]
        if c03.expected({"filter": k, "args": args, "events": []}, base_objs, specs) is None:
            return False
    for k, a in case["filters"]:
        if k in SWITCH and c03.expected({"filter": k, "args": [], "events": []}, base_objs, specs) is None:
            return False
    return True


def A_of(v):
    if v is None:
        return {"t": "none"}
    if isinstance(v, str):
        return {"t": "str", "v": v}
    if isinstance(v, tuple):
        return {"t": "tuple", "v": [A_of(x) for x in v]}
    if isinstance(v, list):
        return {"t": "list", "v": [A_of(x) for x in v]}
    return c03.A_num(v)


def oracle(case, work=None):
    """C05 on the real code: constructor path vs method path on the events that still contain particles"""
    import tempfile
    own = None
    if work is None:
        own = tempfile.mkdtemp(prefix="c05_")
        work = own
    try:
        got = run_impl(case, work, "oracle")
        with warnings.catch_warnings():
            warnings.simplefilter("ignore")
            cls, src = source(work, case, "oracle2")
            base = cls(src(), **sel_kw(case))
            objs = base.particle_objects_list()
        desc = f"{case['cls']}(events={case['sel']}, filters={filt_dict(case)!r}) on events of sizes " \
               f"{[len(e) for e in case['events']]}"
        keys = [k for k, _ in case["filters"]]
        unknown = [k for k in keys if k not in KEYS[case["cls"]]]
        if unknown:
            if "ok" in got["ctor"]:
                return f"{desc}: unknown filter name {unknown[0]!r} is ignored by the constructor instead of rejected"
            return None
        try:
            adm = admissible_calls(case, objs)
        except Exception:
            adm = False        # a value outside every documented argument shape
        if not adm:
            return None
        c, m = got["ctor"], got["meth"]
        if "exc" in c or "exc" in m:
            return f"{desc}: constructor path -> {c.get('exc', 'ok')}, method path -> {m.get('exc', 'ok')}"
        ne_c = [e for e in c["ok"] if e]
        ne_m = [e for e in m["ok"] if e]
        if ne_c != ne_m:
            return f"{desc}: non-empty events differ: constructor {ne_c}, methods {ne_m} (particles by id)"
        # "same particles": not only the same ids in the same places, every stored attribute value is the same
        for ec, em, ids in zip([e for e in c["data"] if e], [e for e in m["data"] if e], ne_m):
            for rc, rm, i in zip(ec, em, ids):
                if not np.array_equal(np.asarray(rc, dtype=float), np.asarray(rm, dtype=float), equal_nan=True):
                    return (f"{desc}: particle {i} survives on both paths but its stored values differ: "
                            f"constructor {rc}, methods {rm}")
        pc = [n for n in c["counts"] if n != 0]
        pm = [n for n in m["counts"] if n != 0]
        want = [len(e) for e in ne_m]
        if pc != want or pm != want:
            return f"{desc}: per-event counts of the non-empty events: constructor {pc}, methods {pm}, actual sizes {want}"
        # a switch that is False has no effect
        offs = [k for k, a in case["filters"] if k in SWITCH and a == {"t": "bool", "v": False}]
        if offs:
            c2 = dict(case, filters=[kv for kv in case["filters"] if kv[0] not in offs])
            g2 = run_impl(c2, work, "oracle3")["ctor"]
            if g2.get("ok") != c["ok"]:
                return f"{desc}: removing the False switches {offs} changes the constructor result"
        return None
    finally:
        if own:
            import shutil
            shutil.rmtree(own, ignore_errors=True)


# ----------------------------------------------------------------------------------------- generators
def gen_events(rng, cls):
    nev = rng.choice([1, 2, 3, 3, 4])
    evs = []
    gid = 0
    for _ in range(nev):
        m = rng.choice([0, 1, 2, 3, 3, 4])
        ev = []
        for _ in range(m):
            dy = lambda lo=-4, hi=4: repr(rng.randint(lo * 8, hi * 8) / 8)
            pdg = str(rng.choice(c03.PDGS))
            if cls == "Oscar":
                t = rng.randint(8, 48) / 8
                z = rng.randint(-7, 7) / 8 if rng.random() < 0.93 else rng.randint(-64, 64) / 8
                vals = [repr(t), dy(), dy(), repr(z), dy(0, 2), dy(0, 6), dy(), dy(), dy(), pdg, str(gid),
                        str(rng.choice([-1, 0, 0, 1, 1, 2]))]
                ev.append({"mode": "array", "format": "Oscar2013", "values": vals})
            elif cls == "Jetscape":
                vals = [str(gid), pdg, str(rng.choice([0, 1, 11, 27, 27])), dy(0, 6), dy(), dy(), dy()]
                ev.append({"mode": "array", "format": "JETSCAPE", "values": vals})
            else:
                s = c03.gen_particle(rng)
                ev.append(s)
            gid += 1
        evs.append(ev)
    return evs


def gen_case(rng, cls=None, admissible_only=False):
    cls = cls or rng.choice(CLASSES)
    events = gen_events(rng, cls)
    n = len(events)
    r = rng.random()
    if r < 0.45:
        sel = None
    elif r < 0.65:
        sel = rng.randrange(n)
    else:
        a = rng.randrange(n)
        sel = [a, rng.randrange(a, n)]
    loaded = sliced({"sel": sel}, events)
    if admissible_only is False and rng.random() < 0.12 and any(len(e) for e in loaded):
        # order matters: a particle-removing filter FIRST, then a multiplicity window whose bounds lie at / next to the RAW
        # multiplicities of the events (so that an event passes or fails the cut only because of what the first filter removed)
        first = rng.choice([["charged_particles", {"t": "bool", "v": True}], ["uncharged_particles", {"t": "bool", "v": True}],
                            ["keep_hadrons", {"t": "bool", "v": True}], ["keep_mesons", {"t": "bool", "v": True}]])
        if first[0] not in KEYS[cls]:
            first = ["charged_particles", {"t": "bool", "v": True}]
        raw = [len(e) for e in loaded if len(e)]
        hi = rng.choice(raw) + rng.choice([0, 0, 1, -1])
        lo = rng.choice([None, None, 0, 1, max(0, rng.choice(raw) - 1)])
        win = c03.A_tuple(c03.A_none() if lo is None else c03.A_num(lo), c03.A_num(max(hi, 0)))
        if rng.random() < 0.25:
            win = c03.A_tuple(win["v"][1], win["v"][0])               # limits in the other order
        filters = [first, ["multiplicity_cut", win]]
        if rng.random() < 0.3:
            filters.append(["pT_cut", c03.gen_args(rng, "pT_cut", loaded, False)[0]])
        return {"cls": cls, "events": events, "sel": sel, "filters": filters}
    nk = rng.choice([1, 1, 2, 2, 3, 4])
    pool = KEYS[cls]
    keys = []
    while len(keys) < nk:
        k = rng.choice(pool)
        if not admissible_only and rng.random() < 0.05:
            k = rng.choice([x for x in ALLKEYS if x not in pool] + ["strange_particles", "pt_cut", "charged"])
        if k not in keys:
            keys.append(k)
    filters = []
    for k in keys:
        if k in SWITCH or k not in ALLKEYS:
            v = {"t": "bool", "v": rng.random() < 0.8}
            if not admissible_only and rng.random() < 0.04:
                v = rng.choice([{"t": "int", "v": 1}, {"t": "int", "v": 0}, {"t": "none"}, {"t": "str", "v": "yes"}])
            filters.append([k, v])
            continue
        bad = (not admissible_only) and rng.random() < 0.06
        args = c03.gen_args(rng, k, loaded, bad)
        if k == "spacetime_cut":
            v = {"t": "list", "v": args}
            if bad and rng.random() < 0.5:
                v = {"t": "tuple", "v": args}
            filters.append([k, v])
        else:
            filters.append([k, args[0]])
    return {"cls": cls, "events": events, "sel": sel, "filters": filters}


# ----------------------------------------------------------------------------------------- model side
PRELUDE = """From Coq Require Import List ZArith QArith String.
From SX Require Import Model.PyRt Model.CtorFilters Gen.GenFilters Gen.GenDispatch.
Import ListNotations.
Local Open Scope Z_scope.
Definition exn_eqb (a b : exn) : bool :=
  match a, b with
  | TypeError, TypeError | ValueError, ValueError | IndexError, IndexError | KeyError, KeyError
  | AttributeError, AttributeError | ZeroDivisionError, ZeroDivisionError | OverflowError, OverflowError
  | UnboundLocalError, UnboundLocalError | NotImplementedError, NotImplementedError => true
  | _, _ => false
  end.
Fixpoint zl_eqb (a b : list Z) : bool :=
  match a, b with [], [] => true | x :: s, y :: t => (x =? y) && zl_eqb s t | _, _ => false end.
Fixpoint zll_eqb (a b : list (list Z)) : bool :=
  match a, b with [], [] => true | x :: s, y :: t => zl_eqb x y && zll_eqb s t | _, _ => false end.
Definition pos (l : list Z) : list Z := filter (fun n => negb (n =? 0)) l.
(* 0 agree; 2 different events; 3 one side raises; 4 different exception; 5 outside the modelled domain;
   6 different positive counts *)
Definition chk (m : result (list (list pobs))) (i : result (list (list Z))) : nat :=
  match m, i with
  | Err Unmodelled, _ => 5%nat
  | Ok a, Ok b => if zll_eqb (map (map pid) a) b then 0%nat else 2%nat
  | Err a, Err b => if exn_eqb a b then 0%nat else 4%nat
  | _, _ => 3%nat
  end.
Definition chk_ctor (m : result (list (list pobs) * list Z)) (i : result (list (list Z) * list Z)) : nat :=
  match m, i with
  | Err Unmodelled, _ => 5%nat
  | Ok (a, ca), Ok (b, cb) => if zll_eqb (map (map pid) a) b then (if zl_eqb (pos ca) (pos cb) then 0%nat else 6%nat) else 2%nat
  | Err a, Err b => if exn_eqb a b then 0%nat else 4%nat
  | _, _ => 3%nat
  end.
Definition worst3 (a b c : nat) : nat := Nat.max a (Nat.max b c).
"""


def coq_res(r, with_counts=False):
    if "ok" in r:
        evs = coq_list([coq_list([C.z(i) for i in ev]) for ev in r["ok"]])
        if with_counts:
            return f"(Ok ({evs}, {coq_list([C.z(n) for n in r['counts']])}))"
        return f"(Ok {evs})"
    e = r["exc"]
    return f"(Err {e})" if e in c03.EXN else "(Err Unmodelled)"


def coq_case(idx, case, got):
    defs, evs = [], []
    for ev in got["base"]:
        names = []
        for pid in ev:
            nm = f"k{idx}_p{pid}"
            defs.append(f"Definition {nm} := {c03.coq_particle(pid, got['obs'][pid])}.")
            names.append(nm)
        evs.append(coq_list(names))
    X = case["cls"]
    d = "[" + "; ".join(f"({C.coq_str(k)}%string, {c03.coq_arg(a)})" for k, a in case["filters"]) + "]"
    defs.append(f"Definition k{idx}_d := {d}.")
    defs.append(f"Definition k{idx}_e : list (list pobs) := {coq_list(evs)}.")
    loader = "pobj_loader" if X == "PObj" else "file_loader"
    ctor = f"(chk_ctor ({loader} (fun ev => gen_apply_kwargs_{X} ev (VDict k{idx}_d)) k{idx}_e) {coq_res(got['ctor'], True)})"
    meth = f"(chk (method_path gen_arity_{X} gen_method_{X} k{idx}_d k{idx}_e) {coq_res(got['meth'])})"
    if any(k not in KEYS[X] or (k == "spacetime_cut" and not (a["t"] == "list" and len(a["v"]) >= 2))
           for k, a in case["filters"]):
        # a name the class has no filter method for, or a spacetime_cut value that is not the documented
        # [dim, limits] list: there is no method call this entry stands for, nothing to compare
        meth = "0%nat"
    ev0 = f"[({evs[0]} : list pobs)]" if evs else "([[]] : list (list pobs))"
    chain = f"(chk (gen_apply_kwargs_{X} {ev0} (VDict k{idx}_d)) {coq_res(got['chain'])})"
    return defs, f"[{ctor}; {meth}; {chain}]"


def corpus_cases():
    out = []
    d = os.path.join(C.VERIF, "corpus", ID)
    if os.path.isdir(d):
        for fn in sorted(os.listdir(d)):
            out.append(json.load(open(os.path.join(d, fn)))["case"])
    return out


def kind(case):
    return case["cls"] + "/" + "+".join(k for k, _ in case["filters"])


def correspondence(ctx, model_ok=True):
    n = 700 if ctx.quick else 6000
    cases = corpus_cases()
    # every key of every class once alone (admissible), then random ordered dictionaries
    for cls in CLASSES:
        for k in KEYS[cls]:
            c = gen_case(ctx.rng, cls, admissible_only=True)
            v = {"t": "bool", "v": True} if k in SWITCH else None
            if v is None:
                args = c03.gen_args(ctx.rng, k, sliced(c, c["events"]), False)
                v = {"t": "list", "v": args} if k == "spacetime_cut" else args[0]
            c["filters"] = [[k, v]]
            cases.append(c)
    cases += list(_probe_cases(ctx.rng))       # falsy scalar arguments, unknown names with falsy values
    while len(cases) < n:
        cases.append(gen_case(ctx.rng))
    gots = [run_impl(c, ctx.work, f"s{i}") for i, c in enumerate(cases)]
    dist = {"per_class": {}, "selection": {"none": 0, "single": 0, "range": 0}, "dict_size": {}, "per_key": {},
            "ctor_raised": 0, "method_raised": 0, "false_switches": 0, "events_emptied_by_filters": 0}
    keys = set()
    for c, g in zip(cases, gots):
        dist["per_class"][c["cls"]] = dist["per_class"].get(c["cls"], 0) + 1
        dist["selection"]["none" if c["sel"] is None else "range" if isinstance(c["sel"], list) else "single"] += 1
        dist["dict_size"][len(c["filters"])] = dist["dict_size"].get(len(c["filters"]), 0) + 1
        for k, a in c["filters"]:
            dist["per_key"][k] = dist["per_key"].get(k, 0) + 1
            dist["false_switches"] += a == {"t": "bool", "v": False}
        dist["ctor_raised"] += "exc" in g["ctor"]
        dist["method_raised"] += "exc" in g["meth"]
        if "ok" in g["ctor"] and "ok" in g["meth"]:
            dist["events_emptied_by_filters"] += any(b and not m for b, m in zip(g["base"], g["meth"]["ok"])) \
                or len(g["meth"]["ok"]) != len(g["base"])
            if any(len(e) for e in g["base"]):
                keys.add(json.dumps(c, sort_keys=True))
    out = {"evaluations": len(cases), "distinct_nontrivial": len(keys), "distribution": dist,
           "rule": "seeded random cases: storer class (Oscar file / Jetscape file / ParticleObjectStorer list, 1-4 events of "
                   "0-4 particles, generated under the run's work directory) x event selection (none / k / (a,b)) x an "
                   "ordered filters dictionary of 1-4 keys (True/False switches, documented arguments incl. boundary-equal "
                   "limits and all id shapes; ~5% unknown or other-class names, ~6% inadmissible arguments); every key of "
                   "every class also alone. Three comparisons per case, by particle identity: the hand-modelled loader loop "
                   "around the generated chain vs the real constructor (events and positive counts), the generated method "
                   "table vs loading then calling the real methods, the generated chain vs the real "
                   "__apply_kwargs_filters on the first event; non-trivial = both real paths returned and some event is "
                   "non-empty",
           "samples": cases[:2], "model_runner": "Eval vm_compute in generated cases files (sharded coqc)",
           "failures": [], "broken": []}
    ok, log = C.make(["Gen/GenDispatch.vo", "Model/CtorFilters.vo"])
    if not ok:
        out["broken"].append({"what": "generated model Gen/GenDispatch.v / Model/CtorFilters.v does not build",
                              "detail": log[-800:]})
        return out
    shard = 60
    files = []
    for i in range(0, len(cases), shard):
        defs, terms = [], []
        for j, (c, g) in enumerate(zip(cases[i:i + shard], gots[i:i + shard])):
            d, t = coq_case(i + j, c, g)
            defs += d
            terms.append(t)
        files.append((f"c05_{i // shard}", PRELUDE + "\n".join(defs) + "\nEval vm_compute in List.concat " + coq_list(terms) + ".\n"))
    res = C.coq_eval_many(ctx, files)
    codes = []
    for (ok, o), (name, _) in zip(res, files):
        if not ok:
            out["broken"].append({"what": f"cases file {name} failed to evaluate", "detail": o[-800:]})
            return out
        codes += C.parse_codes(o)
    if len(codes) != 3 * len(cases):
        out["broken"].append({"what": "cases output could not be parsed", "detail": f"{len(codes)} codes for {len(cases)} cases"})
        return out
    names = {2: "different events", 3: "one side raises, the other returns", 4: "different exception class",
             6: "different positive counts"}
    part = ["constructor path (loader loop model around the generated chain)", "method path (generated method table)",
            "dispatch chain on one event"]
    agree = 0
    outside = 0
    for i, (c, g) in enumerate(zip(cases, gots)):
        cs = codes[3 * i:3 * i + 3]
        outside += any(x == 5 for x in cs)
        if all(x in (0, 5) for x in cs):
            agree += 1
            continue
        for j, x in enumerate(cs):
            if x in names:
                gg = {k: ({a: b for a, b in v.items() if a != "data"} if isinstance(v, dict) else v)
                      for k, v in g.items() if k != "obs"}
                out["failures"].append(Failure(c, f"{kind(c)}: model and implementation disagree on the {part[j]} "
                                                  f"({names[x]}): impl={gg}"))
                break
    out["exact_agreements"] = agree
    out["traces_validated_against_impl"] = agree
    dist["outside_modelled_domain"] = outside
    # the property itself on the real code, for every case (cheap)
    bad = 0
    for i, c in enumerate(cases + list(_oracle_only_cases(ctx.rng))):
        msg = oracle(c, ctx.work)
        if msg:
            bad += 1
            if bad <= 8:
                out["failures"].append(Failure(c, f"{kind(c)}: property oracle fails", on_impl=msg))
    dist["oracle_evaluations"] = len(cases)
    return out


# ----------------------------------------------------------------------------------------- search
def _probe_cases(rng):
    """targeted dictionaries: scalar arguments that are falsy (0, 0.0), and unknown names whose value is falsy"""
    for cls in CLASSES:
        for rep in range(4):
            base = gen_case(rng, cls=cls, admissible_only=True)
            for k, v in (("rapidity_cut", {"t": "int", "v": 0}), ("pseudorapidity_cut", {"t": "float", "v": (0.0).hex()}),
                         ("particle_status", {"t": "int", "v": 0}), ("spacetime_rapidity_cut", {"t": "int", "v": 0}),
                         ("no_such_filter", {"t": "bool", "v": False}), ("no_such_filter", {"t": "int", "v": 0}),
                         ("no_such_filter", {"t": "none"}), ("charged", {"t": "bool", "v": False}),
                         ("multiplicity_cut", {"t": "tuple", "v": [{"t": "int", "v": 10}, {"t": "int", "v": 1}]}),
                         ("multiplicity_cut", {"t": "tuple", "v": [{"t": "int", "v": 3}, {"t": "int", "v": 0}]}),
                         ("pT_cut", {"t": "tuple", "v": [{"t": "float", "v": (8.0).hex()}, {"t": "float", "v": (0.25).hex()}]})):
                if k in KEYS[cls] or k not in ALLKEYS:
                    yield dict(base, filters=[[k, v]])
                    if base["filters"] and base["filters"][0][0] != k:
                        yield dict(base, filters=[[k, v]] + base["filters"][:1])
            # an unknown name AFTER entries that leave no particle in any event (it must still be rejected)
            for first in ([["multiplicity_cut", {"t": "tuple", "v": [{"t": "int", "v": 99}, {"t": "none"}]}]],
                          [["particle_species", {"t": "int", "v": 424242}]],
                          [["particle_species", {"t": "int", "v": 424242}], ["multiplicity_cut", {"t": "tuple", "v": [{"t": "int", "v": 1}, {"t": "none"}]}]]):
                if all(k in KEYS[cls] for k, _ in first):
                    yield dict(base, filters=first + [["no_such_filter", {"t": "bool", "v": True}]])
                    yield dict(base, filters=first + [["charged", {"t": "int", "v": 1}]])
            # a dictionary whose switches are all False (nothing may happen), alone and in front of a real entry;
            # the first and the last event as the selection
            sw = [k for k in KEYS[cls] if k in SWITCH]
            off = [[k, {"t": "bool", "v": False}] for k in rng.sample(sw, 3)]
            yield dict(base, filters=off)
            yield dict(base, filters=off + [kv for kv in base["filters"] if kv[0] not in [o[0] for o in off]][:1])
            n = len(base["events"])
            for sel in (0, n - 1, [0, 0], [n - 1, n - 1], [0, n - 1]):
                yield dict(base, sel=sel)


def _oracle_only_cases(rng):
    """dictionaries the property quantifies over that the model side cannot render (an empty Coq list has no type):
    filters={} is a constructor call like any other - equivalent to calling no method"""
    for cls in CLASSES:
        base = gen_case(rng, cls=cls, admissible_only=True)
        yield dict(base, filters=[])
        yield dict(base, filters=[], sel=len(base["events"]) - 1)


def search(ctx):
    found, n = [], 0
    budget = 400 if ctx.quick else 3000
    seen = set()
    probes = list(_probe_cases(ctx.rng)) + list(_oracle_only_cases(ctx.rng))
    for i in range(budget + len(probes)):
        c = probes[i] if i < len(probes) else gen_case(ctx.rng, admissible_only=(i % 6 != 0))
        n += 1
        msg = oracle(c, ctx.work)
        if msg:
            sym = (c["cls"], msg.split(":")[1][:30] if ":" in msg else "")
            if sym in seen:
                continue
            seen.add(sym)
            c = shrink(c, ctx.work)
            found.append(Failure(c, f"{kind(c)}: property oracle fails on the implementation", on_impl=oracle(c, ctx.work)))
            if len(found) >= 6:
                break
    return found, n


def shrink(case, work):
    cur = case
    changed = True
    while changed:
        changed = False
        for cand in _smaller(cur):
            try:
                if oracle(cand, work):
                    cur, changed = cand, True
                    break
            except Exception:
                pass
    return cur


def _smaller(c):
    fs = c["filters"]
    for i in range(len(fs)):
        if len(fs) > 1:
            yield dict(c, filters=fs[:i] + fs[i + 1:])
    if c["sel"] is not None:
        yield dict(c, sel=None)
    evs = c["events"]
    if c["sel"] is None:
        for i in range(len(evs)):
            if len(evs) > 1:
                yield dict(c, events=evs[:i] + evs[i + 1:])
    for i, ev in enumerate(evs):
        for j in range(len(ev)):
            yield dict(c, events=evs[:i] + [ev[:j] + ev[j + 1:]] + evs[i + 1:])


LEVEL_TEXT = ("Theorems (Coq): for each of the three loaders the dispatch chain regenerated from the source does, for "
              "EVERY dictionary with distinct keys and every event list, key by key what the filter method of that name "
              "(regenerated from BaseStorer and the storer classes) does - same Filter function, same argument passing, "
              "False switch = no call, any other name = ValueError; key sets equal the class's filter methods (finite "
              "tables by computation); and for all lists of documented calls and all event lists the hand-modelled loader "
              "loop and the method path yield the same non-empty events with their sizes as positive counts, from "
              "'particle-level filter = map, event-level cut = filter' (C03 theorems) by induction. The models are run "
              "against the real constructors and methods on every run.")
LEVEL_NOTE = ("Trusted: Coq kernel/vm_compute; translators gen_dispatch/gen_filters and PyRt.v (tied by correspondence); the "
              "hand model of set_particle_list's per-event loop and of the method path (correspondence only); selection "
              "by events= is C02's; count-array labels are not compared; observations must not raise (obs_total).")
TECHNIQUE = ("Coq: dispatch chains translated from the loaders and proved equal to a fold over the method table for all "
             "dictionaries (case analysis on the key against the chain's literals, computation per key); abstract "
             "equivalence of per-event and whole-list application by induction over the chain; instantiation through "
             "the C03 filter theorems; vm_compute correspondence against real Oscar/Jetscape/ParticleObjectStorer objects")

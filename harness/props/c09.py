"""C09 - Histogram bins count exactly the values in [left,right) (Histogram.py)."""
import json, math, os, warnings
from fractions import Fraction
import numpy as np
import common as C
from common import Failure
from props import _hist as H

ID = "C09"
GEN = ["gen_histogram"]
ALLOWED_AXIOMS = []
MODEL_INDEPENDENT_OF_PROOFS = True
TRUSTED = [
    "Coq 8.16.1 kernel + vm_compute (no native_compute)",
    "translator tools/py2coq/gen_histogram.py (Python ast, fail-closed): turns the CURRENT bodies of Histogram.__init__ (tuple and list "
    "branch), add_value, scale_histogram, statistical_error, make_density, bin_centers/bin_width/bin_bounds_left/right/bin_boundaries/"
    "histogram into Gallina over the model's state (Gen/GenHistogram.v); it skips, as statements without effect on the modelled state, the "
    "`if self.<attr> is None: raise TypeError` guards, warning texts and warnings.warn",
    "runtime vocabulary coq/Lib/HistRt.v: one Coq function per accepted Python/numpy construct (np.digitize right=False, a[-1, j] += w, "
    "a[-1] *= x, np.zeros/ones/linspace/sqrt/sum, element-wise row arithmetic, negative-index wrap-around) with the list semantics of "
    "Model/Histogram.v; Python ints are Z",
    "hand model coq/Model/Histogram.v: its functions init_tuple, init_list, add_value, scale_histogram, statistical_error, make_density, "
    "widths/centers/bounds are PROVED EQUAL (C09_source_*) to the regenerated functions; in addition the model is run against the real "
    "code on every run (correspondence)",
    "np.digitize as its documented list semantics (number of edges <= v on non-decreasing edges; mirrored on non-increasing edges; ValueError otherwise)",
    "oracles: usqrt = np.sqrt (no law assumed), ulinspace = np.linspace (the values numpy returns are passed into the model and compared with lo+i(hi-lo)/n)",
    "float rounding is not modelled: values are exact rationals (Qc); NaN and +-inf are one non-finite cell value",
]
ASSUMPTIONS = [
    "a history ends at the first exception (the state after a raised exception is not modelled; a NaN inside a weight LIST is "
    "rejected only after the preceding elements were added - observed on the real code, not part of the property text)",
    "values/weights/factors are scalars or 1-D lists/ndarrays of floats (the recursive add_value calls on list elements are tied by "
    "unrolling the translated body twice: elements of a 1-D list are numbers)",
    "the source equalities of add_value, statistical_error, make_density hold for states with at least one bin edge / a 2-D error_ array "
    "(consequences of the shape invariant of C10); the dispatch `isinstance(bin_boundaries, tuple) and len(..) == 3` / `(list, np.ndarray)` "
    "of the constructor is pinned textually by the translator (the two branches are separate model functions)",
]


# ----------------------------------------------------------------------------- generator
def gen_case(rng, maxops=10):
    bad_init = rng.random() < 0.08
    init = H.gen_init(rng, allow_bad=bad_init)
    edges = H.edges_of(init)
    nb = max(0, len(edges) - 1)
    ops = []
    for _ in range(rng.randint(1, maxops)):
        r = rng.random()
        if r < 0.58:
            ops.append(H.gen_fill(rng, edges, nan_ok=rng.random() < 0.12))
        elif r < 0.78:
            ops.append(H.gen_scale(rng, nb))
        elif r < 0.86:
            ops.append({"op": "stat_err"})
        elif r < 0.95:
            if rng.random() < 0.8 and nb > 0:
                ops.append({"op": "fill", "v": [rng.choice(edges[:-1]) for _ in range(rng.randint(1, 3))]})
            ops.append({"op": "density"})
        else:
            ops.append({"op": "add_hist"})
    return {"init": init, "ops": ops, "write": None}


# ----------------------------------------------------------------------------- property oracle (real code)
def _eq(got, want, tol=Fraction(1, 10**12)):
    if not math.isfinite(got):
        return False
    want = Fraction(want)
    return Fraction(got) == want or abs(Fraction(got) - want) <= tol * (abs(want) + abs(Fraction(got)))


def oracle(case):
    """C09 stated directly on the real code (brute force over the added values, exact rationals)."""
    warnings.simplefilter("ignore")
    init = case["init"]
    uniform = init["kind"] == "tuple"
    if uniform:
        if not (isinstance(init["n"], int) and init["n"] > 0 and H.num(init["lo"]) < H.num(init["hi"])):
            return None
    else:
        given = H.nums(init["edges"])
        if len(given) < 2 or not all(a < b for a, b in zip(given, given[1:])):
            return None
    with np.errstate(all="ignore"):
        h = H.make_hist(init)
        got_edges = [float(x) for x in h.bin_boundaries()]
        if uniform:
            lo, hi, n = Fraction(H.num(init["lo"])), Fraction(H.num(init["hi"])), init["n"]
            want = [lo + i * (hi - lo) / n for i in range(n + 1)]
            if len(got_edges) != n + 1 or not all(_eq(g, w, Fraction(1, 10**14)) or abs(Fraction(g) - w) <= Fraction(1, 10**15)
                                                  for g, w in zip(got_edges, want)):
                return f"uniform binning {init}: edges are {got_edges}, expected {[float(w) for w in want]}"
            if got_edges[0] != float(lo) or got_edges[-1] != float(hi):
                return f"uniform binning {init}: outer edges are {got_edges[0]}, {got_edges[-1]}"
            if not all(a < b for a, b in zip(got_edges, got_edges[1:])):
                return None
            edges = [Fraction(g) for g in got_edges]
        else:
            if got_edges != [float(g) for g in given]:
                return f"explicit binning {given}: bin_boundaries() returns {got_edges}"
            edges = [Fraction(g) for g in given]
        nb = len(edges) - 1
        # geometry
        cen, wid, lef, rig = (list(map(float, f())) for f in (h.bin_centers, h.bin_width, h.bin_bounds_left, h.bin_bounds_right))
        for i in range(nb):
            if not (_eq(cen[i], (edges[i] + edges[i + 1]) / 2, Fraction(1, 10**15)) and _eq(wid[i], edges[i + 1] - edges[i], Fraction(1, 10**15))
                    and Fraction(lef[i]) == edges[i] and Fraction(rig[i]) == edges[i + 1]):
                return (f"bin {i} of edges {[float(e) for e in edges]}: centre/width/left/right = "
                        f"{cen[i]}, {wid[i]}, {lef[i]}, {rig[i]}")
        if len(cen) != nb or len(wid) != nb or len(lef) != nb or len(rig) != nb:
            return "geometry accessors have the wrong length"
        exp = [Fraction(0)] * nb          # expected content of the current histogram
        raw = [Fraction(0)] * nb          # expected raw counts
        eexp = None                       # expected error of the current histogram where the text fixes it: sqrt(contents) right after
        #                                   statistical_error, times every factor applied since (None: not fixed by the text)
        for step, o in enumerate(case["ops"]):
            k = o["op"]
            if k == "fill":
                v, w = o["v"], o.get("w")
                vl = v if isinstance(v, list) else [v]
                has_nan = any(H.isnan(x) for x in vl)
                wl = None
                valid = not has_nan
                if w is not None:
                    if isinstance(w, list) != isinstance(v, list) or (isinstance(w, list) and len(w) != len(v)):
                        valid = False
                    else:
                        wl = w if isinstance(w, list) else [w]
                        if any(H.isnan(x) for x in wl):
                            valid = False
                before = np.array(h.histogram(), copy=True)
                try:
                    H.apply_op(h, o)
                except ValueError:
                    if valid:
                        return f"operation {step}: add_value({json.dumps(o)}) raises ValueError on valid input"
                    if has_nan and not np.array_equal(before, h.histogram()):
                        return f"operation {step}: add_value with a NaN value raised but changed the histogram"
                    return None
                except Exception as e:
                    if valid or has_nan:
                        return f"operation {step}: add_value({json.dumps(o)}) raises {type(e).__name__}: {e}"
                    return None
                if has_nan:
                    return f"operation {step}: add_value({json.dumps(o)}) accepted a NaN value"
                if not valid:
                    return None
                eexp = None
                for j, x in enumerate(vl):
                    x = Fraction(H.num(x))
                    wt = Fraction(1) if wl is None else Fraction(H.num(wl[j]))
                    for i in range(nb):
                        if edges[i] <= x < edges[i + 1]:
                            exp[i] += wt
                            raw[i] += wt
            elif k == "scale":
                s = o["s"]
                if isinstance(s, list):
                    valid = len(s) == nb and all((not H.isnan(x)) and x >= 0 for x in s)
                    fac = [Fraction(H.num(x)) for x in s] if valid else None
                else:
                    valid = (not H.isnan(s)) and s >= 0
                    fac = [Fraction(H.num(s))] * nb if valid else None
                err0 = np.array(h.standard_error(), copy=True)
                try:
                    H.apply_op(h, o)
                except Exception as e:
                    if valid:
                        return f"operation {step}: scale_histogram({s}) raises {type(e).__name__}: {e}"
                    return None
                if not valid:
                    return None
                exp = [a * f for a, f in zip(exp, fac)]
                if eexp is not None:
                    eexp = [None if a is None else a * f for a, f in zip(eexp, fac)]
                err1 = np.asarray(h.standard_error())
                for i in range(nb):
                    e0 = float(err0[-1][i])
                    if math.isfinite(e0) and not _eq(float(err1[-1][i]), Fraction(e0) * fac[i]):
                        return f"operation {step}: scale_histogram({s}): error of bin {i} went from {e0} to {float(err1[-1][i])}"
            elif k == "stat_err":
                ret = np.asarray(h.statistical_error())
                want = np.sqrt(np.asarray(h.histogram(), dtype=float))
                if ret.shape != want.shape or not np.array_equal(ret, want, equal_nan=True) or \
                        not np.array_equal(np.asarray(h.standard_error()), want, equal_nan=True):
                    return f"operation {step}: statistical_error() is {ret.tolist()}, sqrt of the contents is {want.tolist()}"
                # ... and against the contents the added values / factors define (not the histogram's own contents)
                eexp = [None] * nb
                for i in range(nb):
                    g = float(ret[-1][i])
                    if exp[i] > 0:
                        eexp[i] = Fraction(math.sqrt(exp[i]))
                        if not _eq(g, eexp[i]):
                            return (f"operation {step}: statistical_error() of bin {i} is {g!r}; the weighted number of added values in it "
                                    f"(times the scale factors) is {float(exp[i])!r}, its square root {float(eexp[i])!r}")
                    elif exp[i] < 0 and not math.isnan(g):
                        return f"operation {step}: statistical_error() of bin {i} is {g!r} for the negative content {float(exp[i])!r}"
                    elif exp[i] == 0 and float(np.asarray(h.histogram())[-1][i]) == 0:
                        eexp[i] = Fraction(0)
                        if g != 0:
                            return f"operation {step}: statistical_error() of the empty bin {i} is {g!r}"
            elif k == "density":
                total = sum(exp)
                valid = total > 0 and all(a >= 0 for a in exp)
                try:
                    H.apply_op(h, o)
                except Exception as e:
                    if valid:
                        return f"operation {step}: make_density raises {type(e).__name__}: {e} on contents {[float(a) for a in exp]}"
                    return None
                if not valid:
                    return None
                cont = [float(x) for x in np.asarray(h.histogram())[-1]]
                integral = sum(Fraction(c) * (edges[i + 1] - edges[i]) for i, c in enumerate(cont))
                if abs(integral - 1) > Fraction(1, 10**9):
                    return (f"operation {step}: after make_density on edges {[float(e) for e in edges]} the contents are {cont}; "
                            f"their integral sum(content*width) is {float(integral)!r}, not 1")
                exp = [a / ((edges[i + 1] - edges[i]) * total) for i, a in enumerate(exp)]
                eexp = None
            elif k == "add_hist":
                H.apply_op(h, o)
                exp = [Fraction(0)] * nb
                raw = [Fraction(0)] * nb
                eexp = None
            else:
                return None
            cont = [float(x) for x in np.asarray(h.histogram())[-1]]
            rawc = [float(x) for x in np.asarray(h.histogram_raw_counts())[-1]]
            for i in range(nb):
                if not _eq(cont[i], exp[i]):
                    return (f"after operation {step} ({k}): bin {i} [{float(edges[i])}, {float(edges[i+1])}) holds {cont[i]!r}, "
                            f"the weighted number of added values in it (times the scale factors) is {float(exp[i])!r}")
                if not _eq(rawc[i], raw[i]):
                    return (f"after operation {step} ({k}): raw count of bin {i} is {rawc[i]!r}, expected {float(raw[i])!r}")
            if eexp is not None:
                errc = [float(x) for x in np.asarray(h.standard_error())[-1]]
                for i in range(nb):
                    if eexp[i] is not None and not _eq(errc[i], eexp[i]):
                        return (f"after operation {step} ({k}): standard_error() of bin {i} is {errc[i]!r}; statistical_error gave the "
                                f"square root of the contents and the factors applied since make it {float(eexp[i])!r}")
    return None


def classify(msg):
    if msg is None:
        return None
    if ("make_density" in msg and "integral" in msg) or "(density)" in msg:
        return "C09-density-normalises-sum"
    return None


# ----------------------------------------------------------------------------- correspondence
def correspondence(ctx, model_ok=True):
    n = 400 if ctx.quick else 12000
    cases = []
    corpus = os.path.join(C.VERIF, "corpus", ID)
    if os.path.isdir(corpus):
        for fn in sorted(os.listdir(corpus)):
            cases.append(json.load(open(os.path.join(corpus, fn)))["case"])
    cases += probes()
    n += len(cases)
    while len(cases) < n:
        cases.append(gen_case(ctx.rng))
    gots = [H.run_impl(c, ctx.work) for c in cases]
    dist = {"ops": {}, "init": {}, "ended_by_exception": 0, "values_on_an_edge": 0, "values_outside": 0, "weighted_fills": 0,
            "ndarray_fills": 0, "unequal_width_binnings": 0}
    keys = set()
    for c, g in zip(cases, gots):
        dist["init"][c["init"]["kind"]] = dist["init"].get(c["init"]["kind"], 0) + 1
        e = H.edges_of(c["init"])
        w = {round(b - a, 12) for a, b in zip(e, e[1:])}
        dist["unequal_width_binnings"] += len(w) > 1
        for o, t in zip(c["ops"], g["trace"]):
            key = o["op"] + (":exc" if "exc" in t else "")
            dist["ops"][key] = dist["ops"].get(key, 0) + 1
            if o["op"] == "fill":
                vl = o["v"] if isinstance(o["v"], list) else [o["v"]]
                dist["values_on_an_edge"] += sum(1 for x in vl if not H.isnan(x) and x in e)
                dist["values_outside"] += sum(1 for x in vl if not H.isnan(x) and (x < min(e) or x >= max(e)))
                dist["weighted_fills"] += o.get("w") is not None
                dist["ndarray_fills"] += bool(o.get("np"))
        dist["ended_by_exception"] += g["exc"] is not None or g["init_exc"] is not None
        if g["final"] is not None and any(x != 0 for r in (g["final"]["H"]["data"] or []) for x in (r if isinstance(r, list) else [r])):
            keys.add(json.dumps(c, sort_keys=True))
    out = {"evaluations": len(cases), "distinct_nontrivial": len(keys), "distribution": dist,
           "rule": "seeded random histories of 1-10 operations (add_value with scalars/lists/ndarrays, with and without weights, values "
                   "exactly on edges / inside / below / above the range / NaN; scale_histogram by scalars and per-bin arrays; "
                   "statistical_error; make_density; add_histogram) on uniform tuples (exact and rounded edges) and explicit unequal-width "
                   "binnings (float, int, ndarray; a few decreasing / non-monotonic / duplicated-edge lists); compared inside Coq: shape "
                   "signature after every operation, exception class, final values of all five arrays, bin_centers/bin_width/bin_bounds, "
                   "np.linspace against lo+i(hi-lo)/n; non-trivial = history not ended by an exception and some non-zero content; "
                   "distinct by canonical JSON",
           "samples": cases[:3], "model_runner": "Eval vm_compute in generated cases files (sharded coqc), comparison by Model/HistCheck.v",
           "failures": [], "broken": []}
    out["all_cases"] = cases          # the driver runs the property oracle on these as well
    codes, broken = H.run_cases(ctx, ID, cases, gots)
    if codes is None:
        out["broken"] += broken
        return out
    out["exact_agreements"] = sum(1 for c in codes if c == 0)
    out["tolerance_agreements"] = sum(1 for c in codes if c == 1)
    out["traces_validated_against_impl"] = sum(1 for c in codes if c <= 1)
    bad = [(c, g, code) for c, g, code in zip(cases, gots, codes) if code >= 2]
    for c, g, code in bad[:40]:
        msg = oracle(c)
        small = c
        if msg:
            key = classify(msg)
            small = H.shrink_case(c, lambda x: (oracle(x) is not None) and classify(oracle(x)) == key)
            msg = oracle(small)
        out["failures"].append(Failure(small, "model and implementation disagree: " + H.describe(code), key=classify(msg), on_impl=msg))
    return out


def probes():
    """targeted cases for the constants / comparisons / branches that the translator reads from the source: every edge as a value
    (first and last included), just outside, scalar / list / ndarray dispatch, weights None / 0 / list, bin_index arithmetic at both
    ends, scaling by scalar and per-bin list (raw counts untouched), statistical_error, make_density on unequal widths, uniform tuples"""
    out = []
    inits = [{"kind": "list", "edges": [0.0, 1.0, 3.0, 3.5]}, {"kind": "tuple", "lo": -1.0, "hi": 1.0, "n": 4},
             {"kind": "list", "edges": [-2.0, -1.5], "np": True}, {"kind": "tuple", "lo": 0, "hi": 3, "n": 3}]
    for init in inits[:2]:
        # NaN is rejected whatever floating type carries it (Python float, np.float64, np.float32, np.float16), with and without a weight
        for how in (None, "scalar", "scalar32", "scalar16"):
            for w in (None, 2.0):
                o = {"op": "fill", "v": "nan"}
                if how:
                    o["np"] = how
                if w is not None:
                    o["w"] = w
                out.append({"init": init, "ops": [{"op": "fill", "v": 0.5}, o], "write": None})
    for init in inits:
        e = H.edges_of(init)
        nb = len(e) - 1
        allv = list(e) + [e[0] - 0.5, e[-1] + 0.5, (e[0] + e[1]) / 2]
        ws = [float(i + 1) for i in range(len(allv))]
        out.append({"init": init, "ops": [{"op": "fill", "v": allv}], "write": None})
        out.append({"init": init, "ops": [{"op": "fill", "v": allv, "w": ws}], "write": None})
        out.append({"init": init, "ops": [{"op": "fill", "v": allv, "w": ws, "np": True}, {"op": "scale", "s": 2.0},
                                           {"op": "fill", "v": e[0]}, {"op": "stat_err"}], "write": None})
        out.append({"init": init, "ops": [{"op": "fill", "v": x} for x in allv], "write": None})
        out.append({"init": init, "ops": [{"op": "fill", "v": x, "w": w} for x, w in zip(allv, [2.0, 0.0, 0, 0.5, 3.0, 1.5, 0.25] * 2)], "write": None})
        out.append({"init": init, "ops": [{"op": "fill", "v": list(e[:-1])}, {"op": "scale", "s": [float(i + 2) for i in range(nb)]},
                                           {"op": "fill", "v": e[-2], "w": 4.0}, {"op": "scale", "s": 0.5}], "write": None})
        out.append({"init": init, "ops": [{"op": "fill", "v": list(e[:-1]) + [e[0]], "w": [float(i + 1) for i in range(nb + 1)]},
                                           {"op": "density"}], "write": None})
        out.append({"init": init, "ops": [{"op": "fill", "v": e[0]}, {"op": "add_hist"}, {"op": "fill", "v": [e[-2], e[-2]]},
                                           {"op": "stat_err"}, {"op": "scale", "s": 3}, {"op": "density"}], "write": None})
        out.append({"init": init, "ops": [{"op": "fill", "v": [e[0], "nan"]}], "write": None})
        out.append({"init": init, "ops": [{"op": "fill", "v": e[0], "w": [1.0]}], "write": None})
        out.append({"init": init, "ops": [{"op": "fill", "v": [e[0]], "w": 2.0}], "write": None})
        out.append({"init": init, "ops": [{"op": "scale", "s": -1.0}], "write": None})
    # argument types: integer ndarrays / lists of Python ints / numpy scalars for values, weights and factors (integer edges, so that
    # the integers sit exactly on edges), followed by float operations on the same arrays
    for init in ({"kind": "tuple", "lo": 0, "hi": 3, "n": 3}, {"kind": "list", "edges": [0.0, 1.0, 3.0, 4.0], "as_int": True},
                 {"kind": "list", "edges": [-2.0, 0.0, 1.0], "as_int": True, "np": True}):
        e = H.edges_of(init)
        nb = len(e) - 1
        vals = [float(x) for x in e] + [e[0] - 1.0, e[-1] + 1.0]
        ws = [float(i + 1) for i in range(len(vals))]
        for how in ("int", "scalar", None):
            tag = {} if how is None else {"np": how}
            fills = ([dict({"op": "fill", "v": [int(x) for x in vals] if how is None else vals}, **tag),
                      dict({"op": "fill", "v": [int(x) for x in vals] if how is None else vals,
                            "w": [int(x) for x in ws] if how is None else ws}, **tag)] if how != "scalar" else
                     [dict({"op": "fill", "v": int(x)}, **tag) for x in vals] + [dict({"op": "fill", "v": x, "w": 0.5}, **tag) for x in vals]
                     + [dict({"op": "fill", "v": int(x), "w": 3}, **tag) for x in vals])
            out.append({"init": init, "ops": fills + [{"op": "stat_err"}, dict({"op": "scale", "s": 2 if how != "int" else [2.0] * nb}, **tag),
                                                       {"op": "scale", "s": [i + 1 for i in range(nb)]}, {"op": "fill", "v": e[0], "w": 0.5},
                                                       {"op": "scale", "s": 0.5}, {"op": "density"}], "write": None})
    return out


def search(ctx):
    found, n = [], 0
    budget = 300 if ctx.quick else 3000
    pool = probes()
    for k in range(budget + len(pool)):
        c = pool[k] if k < len(pool) else gen_case(ctx.rng, maxops=6)
        n += 1
        msg = oracle(c)
        if msg:
            key = classify(msg)
            small = H.shrink_case(c, lambda x: (oracle(x) is not None) and classify(oracle(x)) == key)
            found.append(Failure(small, "property oracle fails on the implementation", key=key, on_impl=oracle(small)))
            break
    return found, n


LEVEL_TEXT = ("Theorems (Coq, all edges / value and weight sequences / interleavings): for non-decreasing edges the content of bin i "
              "after any interleaving of fills and scalings is the previous content plus the weighted number of added values with "
              "e_i <= v < e_i+1, each multiplied by the factors applied after it; raw counts ignore the factors; values outside "
              "[e_0,e_n) leave the state identical; NaN values give ValueError; centres/widths/bounds are (e_i+e_i+1)/2, e_i+1-e_i, e_i, "
              "e_i+1; exact uniform edges are lo+i(hi-lo)/n and strictly increasing; statistical_error is sqrt of the contents; after "
              "make_density sum content_i*width_i = 1. Source tie (C09_source_*): the model's constructor (both argument forms), add_value, "
              "scale_histogram, statistical_error, make_density and the geometry accessors are proved equal, for all arguments, to Gallina "
              "functions regenerated from the current Histogram.py on every run. The hand model is also run against the real code on every run.")
LEVEL_NOTE = ("Trusted: Coq kernel/vm_compute; translator gen_histogram.py and the numpy vocabulary Lib/HistRt.v (list semantics of the numpy "
              "primitives, np.digitize as documented); exact rationals instead of IEEE rounding; np.sqrt / np.linspace as oracles (the "
              "uniform-edge theorem is about the exact formula, the correspondence compares np.linspace with it). Regenerated and proved "
              "equal: comparison operators and constants of the range/validity checks, the digitize call and `bin_index - 1`, weight "
              "defaults and scalar/list dispatch, what scale_histogram multiplies, what make_density divides, the constructor's linspace "
              "arguments and array initialisation. Not regenerated: the `is None` guards and warnings (skipped), the constructor's "
              "tuple/list dispatch test (pinned textually), numpy itself.")
TECHNIQUE = ("Coq proof by induction over the added values and over the operation history from a digitize specification on sorted edges; "
             "field reasoning on Qc for the density; fail-closed source-to-Gallina translation of the method bodies with equality proofs "
             "(unfolding, case analysis, induction over the fold of the element loop); vm_compute correspondence")

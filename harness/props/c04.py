"""C04 - storer bookkeeping stays consistent over any history of filters / additions
(BaseStorer.py, Oscar.py, Jetscape.py, ParticleObjectStorer.py, the loaders' hand-over)."""
import copy, json, math, os, shutil, tempfile, warnings
from fractions import Fraction
import numpy as np
import common as C
from common import Failure, coq_list

ID = "C04"
GEN = ["gen_storer_wrappers", "gen_storer", "gen_particle_tables", "gen_pobj", "gen_jetscapeloader", "gen_oscarloader"]
EXTRA_PROPERTY_FILES = ["C04Bridge", "SrcPObj", "SrcJetscapeLoader", "SrcOscarLoader"]
SOURCE_TIE_NOTE = ("what a storer holds right after construction: Model/Storer.v hand-over closed form = observables of the loader models Oscar.load / jload / pload "
    "for every well-formed document, selector in range and filter chain (Properties/C04Bridge.v, 15 theorems; past-the-end selectors give IndexError on both sides), "
    "and those loader models equal the regenerated OscarLoader.py / JetscapeLoader.py / ParticleObjectLoader.py (SrcOscarLoader, SrcJetscapeLoader, SrcPObj); "
    "not bridged: a chain that raises on an event of a file loader, selector validation of the file loaders (tied by SrcOscarLoader_load_rejects), files without events")
MODEL_INDEPENDENT_OF_PROOFS = True      # Model/Storer.v / StorerCheck.v contain no proofs and import nothing generated:
                                        # the correspondence still runs when a translator aborts or a C04_source_* theorem breaks
ALLOWED_AXIOMS = []
TRUSTED = [
    "Coq 8.16.1 kernel + vm_compute (no native_compute)",
    "translator tools/py2coq/gen_storer.py (fail-closed, Python ast; control flow by tools/py2coq/pyfrag.py): regenerates on every "
    "run, statement by statement, BaseStorer._update_num_output_per_event_after_filter, particle_list, num_events, "
    "num_output_per_event, particle_objects_list, __add__, every filter wrapper (all must translate to one term), "
    "_update_after_merge of Oscar / Jetscape / ParticleObjectStorer, the recount of ParticleObjectStorer.__init__, and the tables "
    "of the loader hand-over (targets of BaseStorer.__init__'s tuple assignment, return tuples of the three loaders' load()); "
    "it aborts when a subclass overrides one of the BaseStorer methods above",
    "Python/numpy fragment coq/Model/StorerRt.v over which the translation is stated (dynamically typed values; getattr/setattr "
    "on the state record; x[i], x[i][j], x[i, j], x[:, j], x[n:, j] += v, .size/.ndim, np.ndarray/np.empty((n,2)) as zeros, "
    "reshape(-1,2), np.concatenate, astype(int), list + and append, range/enumerate, int arithmetic, float mean with Qred, "
    "exception classes of each operation): hand-written, small, every operation total; what it does not describe is Err OtherError",
    "hand model coq/Model/Storer.v: its recount, filter wrapper, particle_list, __add__, merge hooks and ParticleObjectStorer "
    "recount are PROVED EQUAL to the regenerated source (C04_source_*) and additionally run against the real classes; its loader "
    "hand-over in closed form (load_file / pobj_loader: selected events, constructor filters per event, rows (first label + j, "
    "size)) remains hand-written and tied to the real classes by this run's correspondence on generated Oscar / Jetscape files "
    "and particle-object lists (the read loops themselves are C01/C02)",
    "translator tools/py2coq/gen_storer_wrappers.py (tables extractor, fail-closed): accepts the filter methods of BaseStorer / "
    "Oscar / Jetscape / ParticleObjectStorer only in the form `particle_list_ = f(particle_list_, args); recount; return self` "
    "or `raise NotImplementedError`",
    "filters enter the theorems as arbitrary functions (particle-level: map f with f [] = []; event-level: filter keep "
    "with [] -> [[]]); that every function of Filter.py has one of the two shapes is C03's theorem, and is "
    "exercised here because the concrete f / keep of each case are read off the real Filter.py functions",
]
ASSUMPTIONS = [
    "operand-unchanged / aliasing claims of + are vacuous in a functional model: checked by deep snapshots of the "
    "real operands before and after every + (and at the end of each history) in the correspondence and the oracle; from the "
    "source only the syntactic table C04_source_add_assigned is extracted (every attribute assigned on the sum comes from an "
    "object __add__ builds itself: a + b, a call, a constant - never from a name/attribute an operand holds)",
    "admissible operation = a filter call that Filter.py accepts (valid argument, method implemented for the class) "
    "or + of a storer of the same class (and same Jetscape particle type)",
    "translation conventions: attributes of a constructed storer are never None (the `is None` guards of the translated "
    "methods are translated as written and are dead; the defaults they assign to an operand of + are not propagated back "
    "to the caller's object); `isinstance(other, BaseStorer)` is true of every storer; method resolution is Python's (each "
    "class defines _update_after_merge in its own body, nothing else in a class body rebinds the translated names); a "
    "particle is its identity and _particle_as_list(p) is named by p (the row contents are C06's subject); strings that are "
    "only compared are tokens; sigmaGen_[1] is pinned by its source text and not modelled; warnings change no state; "
    "uninitialised np.ndarray memory is zeros (every row is overwritten by the translated loop, which C04_source_recount uses)",
    "the loaders' hand-over is modelled in closed form (selected events, constructor filters per event, an event emptied by "
    "the filters is dropped unless it was empty in the file, rows (first label + j, size), E0 = ([[]], 0, array([])) when "
    "nothing is left); files number their events 0..n-1 (Oscar) / 1..n (JETSCAPE) as SMASH / JETSCAPE write them; the read "
    "loops and the line arithmetic are C01/C02",
    "extras: Oscar event_end_lines_ and Jetscape sigmaGen_[0] are modelled, translated from the merge hooks and compared "
    "(the oracle states what the hooks document: a's lines then b's, the mean), sigmaGen_[1] (a sqrt) and impact_parameters_ are not",
]

PDGS = [211, -211, 111, 2212, 2112, 22, 321, 3122, 11, 13]
CHARGE = {211: 1, -211: -1, 111: 0, 2212: 1, 2112: 0, 22: 0, 321: 1, 3122: 0, 11: -1, 13: -1}
BARYON = {2212: 1, 2112: 1, 3122: 1}
STRANGE = {321: 1, 3122: -1}

# name -> (kind, classes, argument generator)
CUT2 = {"pT_cut", "mT_cut", "multiplicity_cut"}


def _filters():
    f = {}
    for n in ("charged_particles", "uncharged_particles", "keep_hadrons", "keep_leptons", "keep_mesons",
              "keep_baryons", "keep_up", "keep_down", "keep_strange", "keep_charm", "keep_bottom", "keep_top",
              "remove_photons"):
        f[n] = ("PL", "OJP", lambda r: [])
    for n in ("participants", "spectators"):
        f[n] = ("PL", "OP", lambda r: [])
    f["keep_quarks"] = ("PL", "JP", lambda r: [])
    f["particle_species"] = ("PL", "OJP", lambda r: [r.choice([r.choice(PDGS), r.sample(PDGS, r.randint(1, 3)), 310,
                                                               {"tuple": r.sample(PDGS, r.randint(1, 3))},
                                                               {"array": r.sample(PDGS, r.randint(1, 3))}])])
    f["remove_particle_species"] = ("PL", "OJP", lambda r: [r.choice([r.choice(PDGS), r.sample(PDGS, r.randint(1, 3)),
                                                                      {"tuple": r.sample(PDGS, r.randint(1, 2))},
                                                                      {"array": r.sample(PDGS, r.randint(1, 2))}])])
    f["particle_status"] = ("PL", "JP", lambda r: [r.choice([27, 11, 5, 0, 0, [27, 5], {"tuple": [11, 27]}, {"array": [11]}, [0]])])   # 0: a falsy scalar code
    f["pT_cut"] = ("PL", "OJP", lambda r: [r.choice([[0.75, None], [None, 1.5], [0.75, 2.5], [50.0, None]])])
    f["mT_cut"] = ("PL", "OJP", lambda r: [r.choice([[0.5, None], [None, 1.5], [100.0, None]])])
    f["rapidity_cut"] = ("PL", "OJP", lambda r: [r.choice([0.5, 0, 0.0, [0.0, 2.0], [-1.0, 0.25]])])          # 0 / 0.0: the window [0, 0]
    f["pseudorapidity_cut"] = ("PL", "OJP", lambda r: [r.choice([0.5, 0, 0.0, [0.0, 2.0], [-1.0, 0.25]])])
    f["spacetime_rapidity_cut"] = ("PL", "OP", lambda r: [r.choice([0.01, [0.0, 1.0], [-1.0, 0.0]])])
    f["spacetime_cut"] = ("PL", "OP", lambda r: [r.choice(["x", "y", "z", "t"]), r.choice([[0.5, 2.5], [None, 1.5], [2.5, None]])])
    f["multiplicity_cut"] = ("EV", "OJP", lambda r: [r.choice([[2, None], [None, 2], [1, 3], [0, 1], [99, None], [3, None]])])
    f["lower_event_energy_cut"] = ("EV", "OJP", lambda r: [r.choice([1.5, 4, 7.5, 1000])])
    return f


FILTERS = _filters()
CLS = {"oscar": "O", "jetscape": "J", "pobj": "P"}


def pyargs(name, args):
    """JSON arguments -> what the method expects (cut windows are tuples)"""
    out = []
    for a in args:
        if isinstance(a, dict):          # {"tuple": [...]} / {"array": [...]}: the other documented shapes of an id argument
            out.append(tuple(a["tuple"]) if "tuple" in a else np.array(a["array"], dtype=int))
        elif isinstance(a, list) and (name in CUT2 or name.endswith("_cut")):
            out.append(tuple(a))
        else:
            out.append(a)
    return out


# --------------------------------------------------------------------------- inputs
def oscar_text(events):
    t = ["#!OSCAR2013Extended particle_lists t x y z mass p0 px py pz pdg ID charge ncoll form_time xsecfac "
         "proc_id_origin proc_type_origin time_last_coll pdg_mother1 pdg_mother2 baryon_number strangeness\n",
         "# Units: fm fm fm fm GeV GeV GeV GeV GeV none none e none fm none none none fm none none none none\n",
         "# SMASH-3.1\n"]
    for i, ev in enumerate(events):
        t.append(f"# event {i} out {len(ev)}\n")
        for p in ev:
            t.append(f"200 {p['x']} {p['x']} {p['z']} 0.138 {p['E']} {p['px']} 0 {p['pz']} {p['pdg']} {p['pid']} "
                     f"{CHARGE[p['pdg']]} {p['ncoll']} 0 1 0 0 0 0 0 {BARYON.get(p['pdg'], 0)} {STRANGE.get(p['pdg'], 0)}\n")
        t.append(f"# event {i} end 0 impact   {i}.000 scattering_projectile_target yes\n")
    return "".join(t)


def jetscape_text(events, ptype, sigma):
    word = "N_hadrons" if ptype == "hadron" else "N_partons"
    t = ["#\tJETSCAPE_FINAL_STATE\tv2\t|\tN\tpid\tstatus\tE\tPx\tPy\tPz\n"]
    for i, ev in enumerate(events):
        t.append(f"#\tEvent\t{i+1}\tweight\t1\tEPangle\t0\t{word}\t{len(ev)}\n")
        for p in ev:
            t.append(f"{p['pid']} {p['pdg']} {p['status']} {p['E']} {p['px']} 0 {p['pz']}\n")
    t.append(f"#\tsigmaGen\t{sigma}\tsigmaErr\t0.25\n")
    return "".join(t)


def make_particle(p):
    from sparkx.Particle import Particle
    q = Particle()
    q.t, q.x, q.y, q.z = 200.0, float(p["x"]), float(p["x"]), float(p["z"])
    q.mass, q.E, q.px, q.py, q.pz = 0.138, float(p["E"]), float(p["px"]), 0.0, float(p["pz"])
    q.pdg, q.ID, q.charge, q.ncoll = p["pdg"], p["pid"], CHARGE[p["pdg"]], p["ncoll"]
    q.status = p["status"]
    q.baryon_number, q.strangeness = BARYON.get(p["pdg"], 0), STRANGE.get(p["pdg"], 0)
    return q


def case_row(cls, p):
    """the row particle_list() documents for this particle, from the case data alone (the columns the harness wrote to the
    file / set on the object): Oscar2013Extended line, JETSCAPE line, the 24 attributes of a ParticleObjectStorer row"""
    nan = float("nan")
    if cls == "jetscape":
        return [p["pid"], p["pdg"], p["status"], float(p["E"]), float(p["px"]), 0.0, float(p["pz"])]
    head = [200.0, float(p["x"]), float(p["x"]), float(p["z"]), 0.138, float(p["E"]), float(p["px"]), 0.0, float(p["pz"]),
            p["pdg"], p["pid"], CHARGE[p["pdg"]], p["ncoll"]]
    ba, st = BARYON.get(p["pdg"], 0), STRANGE.get(p["pdg"], 0)
    if cls == "oscar":
        return head + [0.0, 1.0, 0, 0, 0.0, 0, 0, ba, st]
    return head + [nan] * 7 + [ba, st, nan, p["status"]]


def errname(e):
    n = type(e).__name__
    return n if n in ("TypeError", "ValueError", "IndexError", "KeyError", "AttributeError", "ZeroDivisionError") else "OtherError"


def same(a, b):
    if isinstance(a, (list, tuple)) and isinstance(b, (list, tuple)):
        return len(a) == len(b) and all(same(x, y) for x, y in zip(a, b))
    try:
        if isinstance(a, float) and isinstance(b, float) and math.isnan(a) and math.isnan(b):
            return True
        if np.isnan(a) and np.isnan(b):
            return True
    except TypeError:
        pass
    return a == b


class Engine:
    """runs a case on the real classes; records what the accessors show after every step (for the
    model comparison) and evaluates the property text directly on the objects (for the oracle)"""

    def __init__(self, case, work):
        self.case, self.work = case, work
        self.ident = {}        # id(particle object) -> pid
        self.ref = {}          # pid -> reference object with the same attributes (predicate evaluation)
        self.rows = {}         # pid -> the row of that particle, from the case data (case_row)
        self.objs = []         # final storer object per def (None after an exception)
        self.heldfinal = []
        self.viol = []         # property violations (strings)
        self.trace = []        # per def: {"load": obs, "steps": [obs], "ctor": chain tables, "ops": [tables]}
        self.keep_alive = []

    # ---- construction
    def construct(self, di, d, filtered=True):
        from sparkx.Oscar import Oscar
        from sparkx.Jetscape import Jetscape
        from sparkx.ParticleObjectStorer import ParticleObjectStorer
        kw = {}
        if d.get("sel") is not None and filtered:
            kw["events"] = tuple(d["sel"]) if isinstance(d["sel"], list) else d["sel"]
        if d.get("filters") is not None and filtered:
            kw["filters"] = {n: (True if not a else (pyargs(n, a)[0] if len(a) == 1 else pyargs(n, a))) for n, a in d["filters"]}
        if d["cls"] == "oscar":
            path = os.path.join(self.work, f"d{di}.oscar")
            if not os.path.exists(path):
                with open(path, "w") as f:
                    f.write(oscar_text(d["events"]))
            return Oscar(path, **kw)
        if d["cls"] == "jetscape":
            path = os.path.join(self.work, f"d{di}.dat")
            if not os.path.exists(path):
                with open(path, "w") as f:
                    f.write(jetscape_text(d["events"], d.get("ptype", "hadron"), d.get("sigma", 0.5)))
            if d.get("ptype", "hadron") == "parton":
                kw["particletype"] = "parton"
            return Jetscape(path, **kw)
        pl = [[make_particle(p) for p in ev] for ev in d["events"]]
        self.keep_alive.append(pl)
        return ParticleObjectStorer(pl, **kw)

    def reference(self, di, d):
        """objects with the attributes the class gives the particles of this input (never filtered)"""
        if d["cls"] == "pobj":
            return {p["pid"]: make_particle(p) for ev in d["events"] for p in ev}
        if not d["events"]:
            return {}
        s = self.construct(di, d, filtered=False)
        return {int(p.ID): p for ev in s.particle_objects_list() for p in ev}

    # ---- observations
    def rowpid(self, s, row):
        try:
            for p in self.live_objects(s):
                if same(list(row), list(s._particle_as_list(p))) and row[self.idpos(s)] == p.ID:
                    return self.ident.get(id(p), -1)
        except Exception:
            pass
        return -2

    def idpos(self, s):
        return 0 if type(s).__name__ == "Jetscape" else 10

    def live_objects(self, s):
        return [p for ev in s.particle_objects_list() for p in ev]

    def observe(self, s):
        n = s.num_events()
        cnt = s.num_output_per_event()
        if isinstance(cnt, np.ndarray) and cnt.ndim == 2 and cnt.shape[1] == 2:
            c = {"kind": "A2", "vals": [[int(a), int(b)] for a, b in cnt.tolist()]}
        elif isinstance(cnt, np.ndarray) and cnt.ndim == 1:
            c = {"kind": "A1", "vals": [int(a) for a in cnt.tolist()]}
        elif isinstance(cnt, list) and all(isinstance(a, (int, np.integer)) for a in cnt):
            c = {"kind": "PyL", "vals": [int(a) for a in cnt]}
        else:
            c = {"kind": "other", "vals": repr(cnt)[:80]}
        objs = [[self.ident.get(id(p), -1) for p in ev] for ev in s.particle_objects_list()]
        try:
            pl = s.particle_list()
            if pl == []:
                plo = {"kind": "empty"}
            elif all(isinstance(r, list) and r and not isinstance(r[0], list) for r in pl):
                plo = {"kind": "flat", "ids": [self.rowpid(s, r) for r in pl]}
            else:
                plo = {"kind": "nested", "ids": [[self.rowpid(s, r) for r in ev] for ev in pl]}
        except Exception as e:
            plo = {"kind": "err", "cls": errname(e)}
        xe, sg = [], 0
        if type(s).__name__ == "Oscar":
            for line in s.event_end_lines_:
                w = line.split()
                xe.append(int(w[2]))
        if type(s).__name__ == "Jetscape":
            sg = float(s.sigmaGen_[0])
        return {"n": None if n is None else int(n), "counts": c, "objs": objs, "plist": plo, "xend": xe, "sigma": sg}

    def labels(self, s):
        try:
            cnt = s.num_output_per_event()
            return [int(x) for x in cnt.reshape(-1, 2)[:, 0]] if isinstance(cnt, np.ndarray) and cnt.size else []
        except Exception:
            return []

    def snapshot(self, s):
        cnt = s.num_output_per_event()
        return (s.num_events(), None if cnt is None else (np.asarray(cnt).shape, np.asarray(cnt).tolist()),
                [[id(p) for p in ev] for ev in s.particle_objects_list()],
                [[[repr(x) for x in s._particle_as_list(p)] for p in ev] for ev in s.particle_objects_list()],
                list(getattr(s, "event_end_lines_", [])), tuple(getattr(s, "sigmaGen_", ())))

    # ---- the property text on the real object
    def held(self, s):
        n = s.num_events()
        return list(s.particle_objects_list()) if n and n > 0 else []

    def check_state(self, s, where, mirror):
        v = []
        n = s.num_events()
        pol = s.particle_objects_list()
        held = self.held(s)
        if not isinstance(n, (int, np.integer)):
            v.append(f"{where}: num_events() is {n!r}")
            return v
        if n != len(held) or (n == 0 and pol not in ([], [[]])):
            v.append(f"{where}: num_events() = {n} but particle_objects_list() holds {len(pol)} event(s) "
                     f"{[[self.ident.get(id(p), -1) for p in e] for e in pol]}")
        cnt = s.num_output_per_event()
        if n > 0:
            if not (isinstance(cnt, np.ndarray) and cnt.ndim == 2 and cnt.shape == (n, 2)):
                v.append(f"{where}: num_output_per_event() is not an ({n},2) array: "
                         f"{type(cnt).__name__} {getattr(cnt, 'shape', '')} {np.asarray(cnt).tolist()}")
            else:
                sizes = [len(e) for e in held]
                if [int(x) for x in cnt[:, 1]] != sizes:
                    v.append(f"{where}: per-event counts {cnt[:, 1].tolist()} differ from the event sizes {sizes}")
                labs = [int(x) for x in cnt[:, 0]]
                if labs != list(range(labs[0], labs[0] + n)):
                    v.append(f"{where}: event labels {labs} are not consecutive")
        elif np.size(cnt) != 0:
            v.append(f"{where}: no events but num_output_per_event() = {np.asarray(cnt).tolist()}")
        try:
            pl = s.particle_list()
            if n == 1:
                exp = [list(s._particle_as_list(p)) for p in held[0]] if held else []
            else:
                exp = [[list(s._particle_as_list(p)) for p in e] for e in held]
            if not same(pl, exp):
                v.append(f"{where}: particle_list() does not mirror particle_objects_list() "
                         f"(shape {[len(e) if isinstance(e, list) else '?' for e in pl][:6]})")
            # the same statement without the class's own row conversion: row k of event j holds the values of the k-th
            # particle held in event j, as given in the case data
            rows = [[self.rows.get(self.ident.get(id(p), -1)) for p in e] for e in held]
            if all(r is not None for e in rows for r in e):
                exp2 = (rows[0] if rows else []) if n == 1 else rows
                if not same(pl, exp2):
                    bad = [(j, k) for j, (ea, eb) in enumerate(zip(pl if n != 1 else [pl], rows)) for k, (ra, rb) in enumerate(zip(ea, eb))
                           if not same(ra, rb)][:1]
                    at = f"event {bad[0][0]} row {bad[0][1]}: {(pl if n != 1 else [pl])[bad[0][0]][bad[0][1]]} instead of {rows[bad[0][0]][bad[0][1]]}" if bad else "shape"
                    v.append(f"{where}: particle_list() rows are not the values of the particles held ({at})")
        except Exception as e:
            v.append(f"{where}: particle_list() raises {type(e).__name__}: {e}")
        if mirror is not None:
            a = [[id(p) for p in e] for e in held]
            b = [[id(p) for p in e] for e in mirror]
            if a != b:
                v.append(f"{where}: contents {[[self.ident.get(i, -1) for i in e] for e in a]} differ from the same "
                         f"operations on the plain list {[[self.ident.get(i, -1) for i in e] for e in b]}")
        return v

    # ---- filters on plain lists (the real Filter.py functions)
    def plain(self, name, args, lst):
        import sparkx.Filter as Fi
        return getattr(Fi, name)(lst, *pyargs(name, args))

    def keepset(self, name, args, pids):
        ks = []
        for pid in pids:
            o = self.ref[pid]
            r = self.plain(name, args, [[o]])
            if len(r) == 1 and len(r[0]) == 1 and r[0][0] is o:
                ks.append(pid)
        return ks

    def keeps_event(self, name, args, content):
        ev = [self.ref[p] for p in content]
        r = self.plain(name, args, [ev])
        return any(x is ev for x in r)

    def table(self, name, args, contents, pids):
        """the concrete f / keep of this call, read off Filter.py on reference objects"""
        kind = FILTERS[name][0]
        if kind == "PL":
            return {"kind": "PL", "keep": self.keepset(name, args, pids)}
        seen, tbl = [], []
        for c in contents:
            if c not in seen:
                seen.append(c)
                if self.keeps_event(name, args, c):
                    tbl.append(c)
        return {"kind": "EV", "keep": tbl}

    def ctor_tables(self, d):
        """per constructor filter: the table over everything the chain meets, event by event"""
        pids = [p["pid"] for ev in d["events"] for p in ev]
        tabs = []
        for n, a in d["filters"]:
            if FILTERS[n][0] == "PL":
                tabs.append({"kind": "PL", "keep": self.keepset(n, a, pids)})
            else:
                tabs.append({"kind": "EV", "keep": []})
        for ev in d["events"]:
            content = [p["pid"] for p in ev]
            for k, (n, a) in enumerate(d["filters"]):
                if tabs[k]["kind"] == "PL":
                    content = [p for p in content if p in tabs[k]["keep"]]
                else:
                    if self.keeps_event(n, a, content):
                        if content not in tabs[k]["keep"]:
                            tabs[k]["keep"].append(content)
                    else:
                        content = []
        return tabs

    def ctor_expected(self, d):
        """what the constructor must hold: the selected events, each passed through the filter chain on plain lists (the real
        Filter.py functions on never-filtered reference objects); an event that had particles and lost all of them is dropped"""
        evs = d["events"]
        sel = d.get("sel")
        idx = list(range(len(evs))) if sel is None else [sel] if isinstance(sel, int) else list(range(sel[0], sel[1] + 1))
        out = []
        for i in idx:
            content = [p["pid"] for p in evs[i]]
            was_empty = not content
            for n, a in d["filters"]:
                if FILTERS[n][0] == "PL":
                    keep = self.keepset(n, a, content)
                    content = [p for p in content if p in keep]
                elif not self.keeps_event(n, a, content):
                    content = []              # Filter returns [[]] for "no event left": the loaders go on with an empty event
            if content is None:
                continue
            if not content and not was_empty and d["cls"] != "pobj":
                continue          # the file loaders drop an event that lost all its particles; the particle-object loader keeps it
            out.append(content)
        return out

    # ---- main loop
    def run(self):
        warnings.simplefilter("ignore")
        for di, d in enumerate(self.case["defs"]):
            tr = {"load": None, "steps": [], "ctor": None, "ops": []}
            self.trace.append(tr)
            try:
                self.rows.update({p["pid"]: case_row(d["cls"], p) for ev in d["events"] for p in ev})
            except Exception:
                pass
            try:
                self.ref.update(self.reference(di, d))
                if d.get("filters") is not None:
                    tr["ctor"] = self.ctor_tables(d)
            except Exception as e:
                tr["ctor"] = tr["ctor"] or []
            try:
                s = self.construct(di, d)
            except Exception as e:
                tr["load"] = {"err": errname(e)}
                self.objs.append(None)
                if not d.get("reject"):
                    self.viol.append(f"storer {di}: construction raises {type(e).__name__}: {e}")
                continue
            for ev in s.particle_objects_list():
                for p in ev:
                    self.ident[id(p)] = int(p.ID)
            tr["load"] = self.observe(s)
            if d.get("reject"):
                self.objs.append(s)
                continue
            mirror = [list(e) for e in self.held(s)]
            self.viol += self.check_state(s, f"storer {di} after construction", mirror)
            if d.get("filters") is not None:
                try:
                    want = self.ctor_expected(d)
                except Exception:
                    want = None               # an inadmissible argument / a raising accessor: nothing is claimed
                got_c = [[self.ident.get(id(p), -1) for p in e] for e in self.held(s)]
                if want is not None and got_c != want:
                    self.viol.append(f"storer {di} after construction with filters={json.dumps(d['filters'])} (events={d.get('sel')}): holds "
                                     f"{got_c} (particle ids per event), the same filters applied to the plain lists of the selected events give {want}")
            frozen = []          # (object, snapshot) that must never change again
            prev_add = None      # (object before the previous +, operand of the previous +)
            stop = False
            for si, st in enumerate(d["hist"]):
                where = f"storer {di} step {si} {json.dumps(st)}"
                if st[0] == "inject":
                    tr["ops"].append(None)
                    v = st[1]["vals"]
                    s.num_output_per_event_ = (list(v) if st[1]["kind"] == "PyL" else
                                               np.array(v, dtype=int).reshape(-1, 2) if st[1]["kind"] == "A2" else np.array(v, dtype=int))
                    s.num_events_ = st[2]
                    mirror = None
                elif st[0] == "f":
                    name, args = st[1], st[2]
                    contents = [[self.ident.get(id(p), -1) for p in e] for e in s.particle_objects_list()]
                    pids = sorted({p for e in contents for p in e})
                    try:
                        tr["ops"].append(self.table(name, args, contents, pids))
                        new_mirror = None if mirror is None else (self.plain(name, args, [list(e) for e in mirror]) if (FILTERS[name][0] == "PL" or mirror) else [])
                    except Exception as e:
                        tr["ops"].append({"kind": "PL", "keep": []})
                        new_mirror = None
                    lab0 = self.labels(s)
                    try:
                        r = getattr(s, name)(*pyargs(name, args))
                        if r is not s:
                            self.viol.append(f"{where}: the filter method does not return self")
                        lab1 = self.labels(s)
                        if lab0 and lab1 and lab0[0] != lab1[0] and mirror is not None:
                            self.viol.append(f"{where}: the filter changed the first event label from {lab0[0]} to {lab1[0]} "
                                             "(the recount labels the events first label + position)")
                    except Exception as e:
                        tr["steps"].append({"err": errname(e)})
                        if not (len(st) > 3 and st[3] == "reject"):
                            self.viol.append(f"{where}: raises {type(e).__name__}: {e}")
                        stop = True
                    mirror = new_mirror
                    prev_add = None
                else:
                    other = s if st[0] == "addself" else (self.objs[st[1]] if st[1] < len(self.objs) else None)
                    tr["ops"].append(None)
                    if other is None:
                        tr["steps"].append({"err": "OtherError"})
                        stop = True
                    else:
                        sa, sb = self.snapshot(s), self.snapshot(other)
                        ha, hb = self.held(s), self.held(other)
                        la, lb = self.labels(s), self.labels(other)
                        try:
                            c = s + other
                        except Exception as e:
                            tr["steps"].append({"err": errname(e)})
                            if not (len(st) > 2 and st[-1] == "reject"):
                                self.viol.append(f"{where}: + raises {type(e).__name__}: {e}")
                            stop = True
                            c = None
                        if self.snapshot(s) != sa or self.snapshot(other) != sb:
                            self.viol.append(f"{where}: + changed an operand")
                        if c is not None:
                            if c is s or c is other:
                                self.viol.append(f"{where}: + returned an operand instead of a new object")
                            frozen.append((s, sa))
                            frozen.append((other, sb))
                            mirror = [list(e) for e in ha] + [list(e) for e in hb]
                            if st[-1] != "reject":
                                # the merge hooks (translated by gen_storer.py): Oscar keeps a's footer lines then b's,
                                # Jetscape averages sigmaGen_[0]
                                if type(s).__name__ == "Oscar" and list(c.event_end_lines_) != list(sa[4]) + list(sb[4]):
                                    self.viol.append(f"{where}: merge hook: event_end_lines_ of a+b are not a's followed by b's")
                                if type(s).__name__ == "Jetscape" and len(sa[5]) == 2 and len(sb[5]) == 2 \
                                        and not same(float(c.sigmaGen_[0]), (sa[5][0] + sb[5][0]) / 2.0):
                                    self.viol.append(f"{where}: merge hook: sigmaGen_[0] of a+b is {c.sigmaGen_[0]!r}, not the mean of "
                                                     f"{sa[5][0]!r} and {sb[5][0]!r}")
                                labs = np.asarray(c.num_output_per_event())
                                if labs.ndim == 2 and labs.shape[0] == len(la) + len(lb):
                                    want = la + (list(range(la[-1] + 1, la[-1] + 1 + len(lb))) if la else lb)
                                    if [int(x) for x in labs[:, 0]] != want:
                                        self.viol.append(f"{where}: labels of a+b are {labs[:, 0].tolist()}, a's are {la}, "
                                                         f"b's are {lb}: they do not continue after a's")
                                if prev_add is not None:
                                    try:
                                        alt = prev_add[0] + (prev_add[1] + other)
                                        x, y = self.snapshot(c), self.snapshot(alt)
                                        if x[:3] != y[:3]:
                                            self.viol.append(f"{where}: (a+b)+c and a+(b+c) differ: {x[:2]} vs {y[:2]}")
                                    except Exception as e:
                                        self.viol.append(f"{where}: a+(b+c) raises {type(e).__name__}: {e}")
                            prev_add = (s, other)
                            s = c
                if stop:
                    break
                tr["steps"].append(self.observe(s))
                if not (st[-1] == "reject") and st[0] != "inject":
                    self.viol += self.check_state(s, where, mirror)
            for o, snap in frozen:
                if self.snapshot(o) != snap:
                    self.viol.append(f"storer {di}: an operand of an earlier + changed later in the history")
            if d.get("noprop"):          # states injected from outside the interface: model validation only
                self.viol = [m for m in self.viol if not m.startswith(f"storer {di} ")]
            self.objs.append(None if stop else s)
        return self


def workdir():
    base = os.path.join(C.VERIF, ".work")
    os.makedirs(base, exist_ok=True)
    return tempfile.mkdtemp(prefix="c04_", dir=base)


def run_case(case):
    w = workdir()
    try:
        with np.errstate(all="ignore"):
            return Engine(case, w).run()
    finally:
        shutil.rmtree(w, ignore_errors=True)


def oracle(case):
    """the property text evaluated on the real objects (no model involved)"""
    e = run_case(case)
    return e.viol[0] if e.viol else None


# --------------------------------------------------------------------------- generation
def gen_particle(rng, pid, parton=False):
    px = rng.choice([0.5, 1.0, 2.0, 3.0])
    pz = rng.choice([0.0, 0.0, 0.5, -0.5, 1.0])
    return {"pid": pid, "pdg": rng.choice([1, 2, 21, 3] if parton else PDGS), "px": px, "pz": pz, "E": px + abs(pz) + rng.choice([0.5, 1.0]),
            "x": rng.choice([1.0, 2.0, 3.0]), "z": rng.choice([-1.0, 0.0, 2.0]), "ncoll": rng.choice([0, 0, 1, 3]),
            "status": rng.choice([27, 27, 11])}


def gen_def(rng, di, cls=None, small=False, parton=False):
    cls = cls or rng.choice(["oscar", "jetscape", "pobj"])
    nev = rng.choice([1, 2, 3, 3, 4] if not small else [1, 2, 3])
    events, pid = [], 100 * (di + 1)
    for _ in range(nev):
        m = rng.choice([0, 1, 2, 2, 3, 4] if not small else [0, 1, 2, 3])
        ev = []
        for _ in range(m):
            pid += 1
            ev.append(gen_particle(rng, pid, parton=parton and cls == "jetscape"))
        events.append(ev)
    d = {"cls": cls, "events": events, "sel": None, "filters": None, "hist": []}
    if cls == "jetscape":
        d["sigma"] = rng.choice([0.5, 0.25, 0.75, 1.5])
        d["ptype"] = "parton" if parton else "hadron"
    r = rng.random()
    if r < 0.3:
        d["sel"] = rng.randrange(nev)
    elif r < 0.6:
        a = rng.randrange(nev)
        d["sel"] = [a, rng.randrange(a, nev)]
    if rng.random() < 0.4:
        d["filters"] = []
        for _ in range(rng.choice([1, 1, 2, 3])):
            f = gen_filter(rng, cls)
            if f[0] not in [g[0] for g in d["filters"]]:      # a dict of filters: one entry per name
                d["filters"].append(f)
    return d


def gen_filter(rng, cls):
    while True:
        name = rng.choice(sorted(FILTERS))
        kind, classes, gen = FILTERS[name]
        if CLS[cls] in classes:
            return [name, gen(rng)]


def gen_case(rng, small=False):
    nd = rng.choice([1, 2, 2, 3])
    cls = rng.choice(["oscar", "jetscape", "pobj"])
    parton = cls == "jetscape" and rng.random() < 0.2       # a parton file (all storers of the case: + needs the same type)
    defs = []
    for di in range(nd):
        d = gen_def(rng, di, cls=cls, small=small, parton=parton)
        n = rng.randint(0, 8 if not small else 5)
        for _ in range(n):
            r = rng.random()
            if r < 0.25 and di > 0 and sum(1 for st in d["hist"] if st[0] != "f") < 4:
                d["hist"].append(["add", rng.randrange(di)])
            elif r < 0.3 and sum(1 for st in d["hist"] if st[0] != "f") < 3:      # each + may double the object
                d["hist"].append(["addself"])
            else:
                name, args = gen_filter(rng, cls)
                if rng.random() < 0.12:
                    name, args = rng.choice([("multiplicity_cut", [[99, None]]), ("particle_species", [310]),
                                             ("lower_event_energy_cut", [1000]), ("pT_cut", [[50.0, None]])])
                d["hist"].append(["f", name, args])
        defs.append(d)
    return {"defs": defs}


def gen_reject_case(rng):
    """inputs the code must reject (model and code have to agree on the exception class)"""
    k = rng.randrange(4)
    if k == 0:      # other class
        a, b = gen_def(rng, 0, "oscar"), gen_def(rng, 1, rng.choice(["jetscape", "pobj"]))
        a["sel"] = a["filters"] = b["sel"] = b["filters"] = None
        b["hist"] = [["add", 0, "reject"]]
        return {"defs": [a, b]}
    if k == 1:      # hadrons + partons
        a, b = gen_def(rng, 0, "jetscape"), gen_def(rng, 1, "jetscape")
        a["sel"] = a["filters"] = b["sel"] = b["filters"] = None
        b["ptype"] = "parton"
        for ev in b["events"]:
            for p in ev:
                p["pdg"] = rng.choice([1, 2, 21])
        b["hist"] = [["add", 0, "reject"]]
        return {"defs": [a, b]}
    d = gen_def(rng, 0)
    d["filters"] = None
    n = len(d["events"])
    d["sel"] = rng.choice([n, n + 2, [0, n], [n, n + 1], -1, [1, 0], [-2, -1]])
    d["reject"] = True
    return {"defs": [d]}


# --------------------------------------------------------------------------- Coq rendering
def z(x):
    return C.z(x)


def cev(e):
    return coq_list([z(p) for p in e])


def cevs(l):
    return coq_list([cev(e) for e in l])


def ckop(t):
    if t["kind"] == "PL":
        return f"(KPL {coq_list([z(p) for p in t['keep']])})"
    return f"(KEV {cevs(t['keep'])})"


def csel(s):
    if s is None:
        return "SAll"
    if isinstance(s, list):
        return f"(SRange {z(s[0])} {z(s[1])})"
    return f"(SOne {z(s)})"


def cobs(o):
    if "err" in o:
        return f"(OErr {o['err']})"
    c = o["counts"]
    if c["kind"] == "A2":
        carr = "(A2 " + coq_list([f"({z(a)}, {z(b)})" for a, b in c["vals"]]) + ")"
    elif c["kind"] == "A1":
        carr = "(A1 " + coq_list([z(a) for a in c["vals"]]) + ")"
    elif c["kind"] == "PyL":
        carr = "(PyL " + coq_list([z(a) for a in c["vals"]]) + ")"
    else:
        carr = "(PyL [(-777)])"
    p = o["plist"]
    if p["kind"] == "err":
        pl = f"(Err {p['cls']})"
    elif p["kind"] == "empty":
        pl = "(Ok XEmpty)"
    elif p["kind"] == "flat":
        pl = f"(Ok (XFlat {cev(p['ids'])}))"
    else:
        pl = f"(Ok (XNested {cevs(p['ids'])}))"
    n = -777 if o["n"] is None else o["n"]
    return f"(OOk {z(n)} {carr} {cevs(o['objs'])} {pl} {coq_list([z(a) for a in o['xend']])} {C.q(o['sigma'])})"


def cbase(d, tr):
    evs = cevs([[p["pid"] for p in ev] for ev in d["events"]])
    filt = "None" if d.get("filters") is None else "(Some " + coq_list([ckop(t) for t in (tr["ctor"] or [])]) + ")"
    if d["cls"] == "pobj":
        return f"(BPobj {evs} {csel(d['sel'])} {filt})"
    c = "COscar" if d["cls"] == "oscar" else "CJetscape"
    pt = 1 if d.get("ptype") == "parton" else 0
    return f"(BFile {c} {evs} {csel(d['sel'])} {filt} {pt} {C.q(d.get('sigma', 0))})"


def coq_case(case, eng):
    ds = []
    for d, tr in zip(case["defs"], eng.trace):
        hs = []
        for st, tab, ob in zip(d["hist"], tr["ops"], tr["steps"]):
            if st[0] == "inject":
                k, v = st[1]["kind"], st[1]["vals"]
                arr = ("(A2 " + coq_list([f"({z(v[i])}, {z(v[i+1])})" for i in range(0, len(v), 2)]) + ")") if k == "A2" else \
                      f"({k} {coq_list([z(a) for a in v])})"
                hop = f"(HInject {arr} {z(st[2])})"
            elif st[0] == "f":
                hop = f"(HF {ckop(tab)})"
            elif st[0] == "addself":
                hop = "HAddSelf"
            else:
                hop = f"(HAdd {st[1]})"
            hs.append(f"({hop}, {cobs(ob)})")
        ds.append(f"({cbase(d, tr)}, {cobs(tr['load'])}, {coq_list(hs)})")
    return "(check " + coq_list(ds) + ")"


PRELUDE = """From Coq Require Import List ZArith QArith.
From SX Require Import Lib.Py Model.Storer Model.StorerCheck.
Import ListNotations.
Local Open Scope Z_scope.
"""

CODES = {2: "num_events()", 3: "num_output_per_event() (values or array shape)", 4: "particle_objects_list()",
         5: "particle_list()", 6: "exception class / outcome", 7: "event_end_lines_ / sigmaGen_", 8: "malformed case"}


def corpus_cases():
    out = []
    d = os.path.join(C.VERIF, "corpus", ID)
    if os.path.isdir(d):
        for fn in sorted(os.listdir(d)):
            out.append(json.load(open(os.path.join(d, fn)))["case"])
    return out


def stress_cases():
    """the shapes named in the design: every selection x constructor filter on one file per class, emptied
    objects, additions of partially loaded / filtered / emptied objects"""
    import random
    rng = random.Random(4)
    out = []
    for cls in ("oscar", "jetscape", "pobj"):
        base = gen_def(rng, 0, cls)
        while len(base["events"]) < 3 or not all(base["events"][:3]) :
            base = gen_def(rng, 0, cls)
        base["sel"] = base["filters"] = None
        n = len(base["events"])
        sels = [None] + list(range(n)) + [[a, b] for a in range(n) for b in range(a, n)]
        flts = [None, [["charged_particles", []]], [["uncharged_particles", []]], [["multiplicity_cut", [[2, None]]]],
                [["charged_particles", []], ["uncharged_particles", []]], [["pT_cut", [[0.75, None]]], ["multiplicity_cut", [[1, None]]]]]
        for s in sels:
            for f in flts:
                d = copy.deepcopy(base)
                d["sel"], d["filters"] = s, f
                d["hist"] = [["f", "charged_particles", []], ["f", "multiplicity_cut", [[99, None]]], ["f", "uncharged_particles", []]]
                out.append({"defs": [d]})
        # additions: partial a, filtered b, emptied operands, self
        a = copy.deepcopy(base); a["sel"] = [1, 2]
        b = copy.deepcopy(base)
        for ev in b["events"]:
            for p in ev:
                p["pid"] += 100
        b["hist"] = [["f", "charged_particles", []]]
        e = copy.deepcopy(base)
        for ev in e["events"]:
            for p in ev:
                p["pid"] += 200
        e["filters"] = [["multiplicity_cut", [[99, None]]]]
        c = copy.deepcopy(base)
        for ev in c["events"]:
            for p in ev:
                p["pid"] += 300
        c["sel"] = 1
        c["hist"] = [["add", 0], ["add", 1], ["f", "multiplicity_cut", [[1, None]]], ["add", 2], ["addself"], ["add", 0]]
        out.append({"defs": [a, b, e, c]})
        e2 = copy.deepcopy(e); e2["hist"] = [["add", 0], ["add", 1]]
        out.append({"defs": [a, b, e2]})
        e3 = copy.deepcopy(e); e3["hist"] = [["addself"], ["f", "charged_particles", []], ["add", 0]]
        out.append({"defs": [a, e3]})
        a4 = copy.deepcopy(a); a4["hist"] = [["add", 1]]
        out.append({"defs": [b, e, a4]})
        # states outside the invariant, written into the real object: the model's error branches
        for arr, n in [({"kind": "A1", "vals": [1, 2]}, 1), ({"kind": "A1", "vals": [1, 2]}, 3), ({"kind": "A1", "vals": [5]}, 1),
                       ({"kind": "PyL", "vals": [2, 1, 1]}, 3), ({"kind": "PyL", "vals": [2]}, 1), ({"kind": "PyL", "vals": []}, 1),
                       ({"kind": "A2", "vals": []}, 1), ({"kind": "A2", "vals": []}, 2), ({"kind": "A2", "vals": [0, 1]}, 2),
                       ({"kind": "A2", "vals": [0, 9, 1, 9, 2, 9]}, 3), ({"kind": "A2", "vals": [0, 9]}, 1),
                       ({"kind": "A2", "vals": [3, 1, 4, 1, 5, 0]}, 0), ({"kind": "A1", "vals": []}, 2), ({"kind": "A1", "vals": [1, 2, 3]}, 1)]:
            for follow in ([["f", "charged_particles", []]], [["f", "multiplicity_cut", [[99, None]]]], [["addself"]], [["add", 0]], []):
                d0 = copy.deepcopy(base)
                d = copy.deepcopy(base)
                for ev in d["events"]:
                    for p in ev:
                        p["pid"] += 100
                d["noprop"] = True
                d["hist"] = [["inject", arr, n]] + [st + ["reject"] if st[0] != "f" else st + ["reject"] for st in follow]
                out.append({"defs": [d0, d]})
        # every filter wrapper of the class once, followed by a second filter and an addition
        for name in sorted(FILTERS):
            if CLS[cls] in FILTERS[name][1]:
                d = copy.deepcopy(base)
                d["hist"] = [["f", name, FILTERS[name][2](rng)], ["f", "charged_particles", []], ["addself"]]
                out.append({"defs": [d]})
    out.append({"defs": [{"cls": "pobj", "events": [], "sel": None, "filters": None,
                          "hist": [["f", "charged_particles", []], ["f", "multiplicity_cut", [[1, None]]], ["addself"]]}]})
    out.append({"defs": [{"cls": "oscar", "events": [], "sel": None, "filters": None, "hist": [], "reject": True}]})
    out.append({"defs": [{"cls": "jetscape", "events": [], "sel": None, "filters": None, "hist": [], "reject": True, "sigma": 0.5}]})
    return out


def probe_cases():
    """inputs aimed at the constants and branches tools/py2coq/gen_storer.py extracts from the storer methods: the label
    arithmetic of the recount (first label + position) on partially loaded objects, the num_events_ update and the
    [] -> [[]] rewrite after event-level cuts, particle_list() for 0 / 1 / several events, the label continuation,
    the order of concatenation, the no-events operands and the merge hooks of +, chains of + (associativity)"""
    import random
    rng = random.Random(11)
    out = []
    for cls in ("oscar", "jetscape", "pobj"):
        def mk(di, sizes, sigma=0.5):
            evs, pid = [], 100 * (di + 1)
            for m in sizes:
                ev = []
                for _ in range(m):
                    pid += 1
                    ev.append(gen_particle(rng, pid))
                evs.append(ev)
            d = {"cls": cls, "events": evs, "sel": None, "filters": None, "hist": []}
            if cls == "jetscape":
                d["sigma"], d["ptype"] = sigma, "hadron"
            return d
        big, none = ["multiplicity_cut", [[1, None]]], ["multiplicity_cut", [[99, None]]]
        ch = ["charged_particles", []]
        # recount on a partially loaded object: labels must stay first label + position
        a = mk(0, [2, 0, 3, 1, 2]); a["sel"] = [1, 4]
        a["hist"] = [["f"] + ch, ["f"] + big, ["f", "uncharged_particles", []], ["f"] + big, ["f"] + ch]
        out.append({"defs": [a]})
        # a single event (flat particle_list), filtered, doubled, cut
        a = mk(0, [1, 3, 2]); a["sel"] = 1
        a["hist"] = [["f"] + ch, ["addself"], ["f"] + big, ["addself"], ["f"] + none, ["f"] + ch, ["addself"]]
        out.append({"defs": [a]})
        # chains of +: continuation after partially loaded operands, both orders, associativity, merge hooks
        a = mk(0, [2, 1, 3, 2], 0.5); a["sel"] = [2, 3]
        b = mk(1, [1, 2, 2], 0.25); b["sel"] = 1
        c = mk(2, [3, 0, 1], 1.5)
        c["hist"] = [["add", 0], ["add", 1], ["f"] + big, ["add", 1], ["add", 0], ["f"] + ch]
        out.append({"defs": [a, b, c]})
        b2 = copy.deepcopy(b); b2["hist"] = [["add", 0], ["addself"], ["f"] + big]
        out.append({"defs": [a, b2]})
        # operands without events, on either side and on both
        e = mk(1, [1, 1], 0.75); e["hist"] = [["f"] + none]
        f = mk(2, [2, 1], 1.5); f["filters"] = [none]
        g = mk(3, [2, 3], 0.25); g["sel"] = 1
        g["hist"] = [["add", 1], ["add", 2], ["f"] + ch, ["add", 0], ["f"] + none, ["add", 1], ["add", 0], ["f"] + big]
        out.append({"defs": [a, e, f, g]})
        e2 = copy.deepcopy(e); e2["hist"] = [["f"] + none, ["add", 0], ["f"] + ch, ["addself"]]
        out.append({"defs": [a, e2]})
        e3 = copy.deepcopy(e); e3["hist"] = [["f"] + none, ["addself"], ["f"] + ch, ["add", 0]]
        f3 = copy.deepcopy(f); f3["hist"] = [["add", 1], ["add", 0], ["add", 1]]
        out.append({"defs": [a, e3, f3]})
        # a sum that loses its first events, then grows again
        h = mk(1, [0, 2, 0, 1], 0.25); h["sel"] = [1, 3]
        h["hist"] = [["add", 0], ["f"] + big, ["f"] + ch, ["add", 0], ["f"] + big, ["addself"]]
        out.append({"defs": [a, h]})
    return out


def nontrivial(case):
    return any(len(d["hist"]) >= 2 and sum(len(e) for e in d["events"]) >= 2 for d in case["defs"])


def correspondence(ctx, model_ok=True):
    cases = corpus_cases() + stress_cases() + probe_cases()
    n = len(cases) + (400 if ctx.quick else 6000)
    k = 0
    while len(cases) < n:
        k += 1
        cases.append(gen_reject_case(ctx.rng) if k % 12 == 0 else gen_case(ctx.rng))
    engines = [run_case(c) for c in cases]
    dist = {"class": {}, "selection": {"all": 0, "single": 0, "range": 0}, "constructor_filters": 0, "history_length": {},
            "additions": 0, "steps": 0, "states_without_events": 0, "exceptions_observed": {}, "filters_used": {}}
    keys = set()
    for c, e in zip(cases, engines):
        for d, tr in zip(c["defs"], e.trace):
            dist["class"][d["cls"]] = dist["class"].get(d["cls"], 0) + 1
            dist["selection"]["all" if d["sel"] is None else "range" if isinstance(d["sel"], list) else "single"] += 1
            dist["constructor_filters"] += d.get("filters") is not None
            dist["history_length"][len(d["hist"])] = dist["history_length"].get(len(d["hist"]), 0) + 1
            for st in d["hist"]:
                dist["steps"] += 1
                if st[0] == "f":
                    dist["filters_used"][st[1]] = dist["filters_used"].get(st[1], 0) + 1
                else:
                    dist["additions"] += 1
            for ob in [tr["load"]] + tr["steps"]:
                if ob and "err" in ob:
                    dist["exceptions_observed"][ob["err"]] = dist["exceptions_observed"].get(ob["err"], 0) + 1
                elif ob and ob["n"] == 0:
                    dist["states_without_events"] += 1
        if nontrivial(c):
            keys.add(json.dumps(c, sort_keys=True))
    out = {"evaluations": len(cases), "distinct_nontrivial": len(keys), "distribution": dist,
           "rule": "programs over 1-4 storers of one class (Oscar2013Extended / JETSCAPE files written by the harness, "
                   "particle-object lists): full, single-event and range loads with and without constructor filters, "
                   "histories of 0-8 steps over all 27 filter wrappers with random admissible arguments, + of earlier "
                   "storers (filtered, partially loaded, emptied) and of the object itself, histories that empty some or "
                   "all events; every selection x 6 constructor-filter chains on one input per class; inputs the code must "
                   "reject. After EVERY step num_events(), num_output_per_event() (values and array shape), "
                   "particle_objects_list() by identity, particle_list() row by row (or the exception class), "
                   "event_end_lines_/sigmaGen_ are compared exactly with the Coq model run by vm_compute; operands of + are "
                   "deep-snapshotted. non-trivial = some storer with >= 2 steps and >= 2 particles; distinct by canonical JSON",
           "samples": cases[-3:], "model_runner": "Eval vm_compute in generated cases files (sharded coqc)",
           "failures": [], "broken": []}
    out["all_cases"] = cases          # the driver runs the property oracle on these as well
    # the property text on the real objects, for every case
    shrunk = set()
    for c, e in zip(cases, engines):
        if e.viol:
            key = finding_key(e.viol[0])
            msg = e.viol[0]
            if key not in shrunk and len(shrunk) < 6:      # one shrunk replay per class of failure
                shrunk.add(key)
                small = shrink(c, key, seconds=20)
                m2 = oracle(small)
                if m2:
                    c, msg = small, m2
            out["failures"].append(Failure(c, "property oracle on the real objects: " + msg, key=key, on_impl=msg))
    if not model_ok:
        out["broken"].append({"what": "correspondence not run: the model's proofs/definitions did not build"})
        return out
    ok, log = C.make(["Model/StorerCheck.vo"])
    if not ok:
        out["broken"].append({"what": "model Model/Storer.v / StorerCheck.v does not build", "detail": log[-800:]})
        return out
    shard = 100
    files = []
    for i in range(0, len(cases), shard):
        body = coq_list([coq_case(c, e) for c, e in zip(cases[i:i + shard], engines[i:i + shard])])
        files.append((f"c04_{i//shard}", PRELUDE + f"Eval vm_compute in {body}.\n"))
    res = C.coq_eval_many(ctx, files)
    codes = []
    for (ok, o), (name, _) in zip(res, files):
        if not ok:
            out["broken"].append({"what": f"cases file {name} failed to evaluate", "detail": o[-800:]})
            return out
        codes += C.parse_codes(o)
    if len(codes) != len(cases):
        out["broken"].append({"what": "cases output could not be parsed", "detail": f"{len(codes)} codes for {len(cases)} cases"})
        return out
    out["exact_agreements"] = sum(1 for c in codes if c == 0)
    out["traces_validated_against_impl"] = out["exact_agreements"]
    already = {id(c) for c, e in zip(cases, engines) if e.viol}
    for c, e, code in zip(cases, engines, codes):
        if code >= 2 and id(c) not in already:
            out["failures"].append(Failure(c, f"model and implementation disagree on {CODES.get(code, code)} (code {code})"))
        elif code >= 2:
            ctx.notes.append(f"model/implementation disagreement (code {code}) on a case that also violates the property on the real code")
    return out


def finding_key(msg):
    """class of a property failure (only used to report one replay per class; no key is listed as known)"""
    if "labels of a+b" in msg:
        return "C04-add-labels-not-continuing"
    if "changed an operand" in msg or "an operand of an earlier" in msg:
        return "C04-add-mutates-operand"
    if "a+(b+c)" in msg:
        return "C04-add-not-associative"
    if "first event label" in msg:
        return "C04-filter-changes-first-label"
    if "merge hook" in msg:
        return "C04-merge-hook"
    if "+ raises" in msg:
        return "C04-add-raises"
    if "ndarray (2,)" in msg:
        return "C04-count-array-1d"
    if "list " in msg and "not an" in msg:
        return "C04-count-array-plain-list"
    if "particle_list() raises" in msg:
        return "C04-particle-list-raises"
    if "raises" in msg:
        return "C04-operation-raises"
    if "per-event counts" in msg or "is not an (" in msg or "num_events() =" in msg:
        return "C04-counts-differ-from-sizes"
    if "same\n" in msg or "plain list" in msg:
        return "C04-contents-differ-from-plain-lists"
    return None


# --------------------------------------------------------------------------- search
def search(ctx):
    found, n = [], 0
    budget = 300 if ctx.quick else 3000
    for c in probe_cases() + stress_cases():
        n += 1
        msg = oracle(c)
        if msg:
            c = shrink(c)
            found.append(Failure(c, "property oracle fails on the implementation", on_impl=oracle(c)))
            return found, n
    for _ in range(budget):
        c = gen_case(ctx.rng, small=True)
        n += 1
        msg = oracle(c)
        if msg:
            c = shrink(c)
            found.append(Failure(c, "property oracle fails on the implementation", on_impl=oracle(c)))
            break
    return found, n


def _fix_refs(defs, removed):
    out = []
    for i, d in enumerate(defs):
        if i == removed:
            continue
        d = copy.deepcopy(d)
        h = []
        for st in d["hist"]:
            if st[0] == "add":
                if st[1] == removed:
                    continue
                if st[1] > removed:
                    st = ["add", st[1] - 1] + st[2:]
            h.append(st)
        d["hist"] = h
        out.append(d)
    return out


def _smaller(c):
    defs = c["defs"]
    for i in range(len(defs)):
        if len(defs) > 1:
            yield {"defs": _fix_refs(defs, i)}
    for i, d in enumerate(defs):
        for j in range(len(d["hist"])):
            e = copy.deepcopy(defs)
            del e[i]["hist"][j]
            yield {"defs": e}
        if d.get("filters") is not None:
            e = copy.deepcopy(defs)
            e[i]["filters"] = None
            yield {"defs": e}
            if len(d["filters"]) > 1:
                for j in range(len(d["filters"])):
                    e = copy.deepcopy(defs)
                    del e[i]["filters"][j]
                    yield {"defs": e}
        if d.get("sel") is not None:
            e = copy.deepcopy(defs)
            e[i]["sel"] = None
            yield {"defs": e}
        for j, ev in enumerate(d["events"]):
            if d.get("sel") is None and len(d["events"]) > 1:
                e = copy.deepcopy(defs)
                del e[i]["events"][j]
                yield {"defs": e}
            for k in range(len(ev)):
                e = copy.deepcopy(defs)
                del e[i]["events"][j][k]
                yield {"defs": e}


def shrink(case, key=None, seconds=60):
    """greedy delta debugging with the oracle (keeping the class of the failure when one is given)"""
    import time
    cur, changed, budget, t0 = case, True, 400, time.time()
    while changed and budget > 0:
        changed = False
        for cand in _smaller(cur):
            budget -= 1
            if budget <= 0 or time.time() - t0 > seconds:
                budget = 0
                break
            try:
                m = oracle(cand)
                if m and (key is None or finding_key(m) == key):
                    cur, changed = cand, True
                    break
            except Exception:
                pass
    return cur


LEVEL_TEXT = ("Theorems (Coq, closed under the global context, for ALL finite histories by induction over the operation list, "
              "filters quantified as ARBITRARY per-event functions / event predicates): from any state the three loaders hand "
              "over (full, single-event, range loads, with or without constructor filters) every history of filters and "
              "additions preserves the invariant (num_events = number of events held, 2-D count array with counts = event sizes "
              "and consecutive labels from the first label; or the no-events state), never raises, particle_list() mirrors the "
              "held events, the contents equal the same operations on the plain nested list; a+b = a's events then b's, labels "
              "continuing after a's last, associative in events, counts, labels. SOURCE TIE (C04_source_*, 13 theorems): the "
              "model's recount, filter wrapper, particle_list, accessors, __add__, the three _update_after_merge hooks and the "
              "ParticleObjectStorer recount are proved equal - for every state, inside or outside the invariant, including the "
              "exception class - to Gallina functions regenerated statement by statement from the current source on every run "
              "(C04_source_recount / _filter_method / _particle_list / _accessors / _update_after_merge / _add / _pobj_init / "
              "_load_pobj), histories run on the translated methods are the model's histories (C04_source_run) and therefore "
              "satisfy the property theorems (C04_source_history); tables: C04_source_add_assigned, C04_source_handover. The hand "
              "model is also run against the real classes after every step of generated histories on every check.")
LEVEL_NOTE = ("Trusted: Coq kernel/vm_compute; the translator gen_storer.py + pyfrag.py and the Python/numpy fragment "
              "Model/StorerRt.v (hand-written semantics of the ~30 operations the methods use: indexing, slicing, .size/.ndim, "
              "reshape, concatenate, append, int arithmetic, exception classes); the model's loader hand-over (load_file, "
              "pobj_loader: closed form, validated by correspondence only, exact comparison of values AND numpy array shapes / "
              "exception classes); that Filter.py's functions are map-f / filter-keep is C03's theorem. NOT regenerated: "
              "BaseStorer.__init__ beyond the order of its tuple assignment, Oscar/Jetscape.__init__, the loaders (C01/C02), "
              "_particle_as_list and the writers (C06), sigmaGen_[1] (pinned by text). Aliasing ('+ leaves a and b unchanged') is "
              "checked by deep snapshots on the real objects, not proved. C04_source_particle_list is up to Python's view of the "
              "result (a flat and a nested empty list are both []). The no-events placeholder [[]] is not an event: contents are "
              "compared as the events held (num_events()==0 <-> []); an event-level cut applied to an object without events "
              "leaves it without events. impact_parameters_ and the writers are outside C04. A source edit outside the accepted "
              "grammar (e.g. a while loop) aborts the translator and is reported even when behaviour is unchanged "
              "(no-failing-input-found); renaming locals and reordering independent statements are tolerated.")
TECHNIQUE = ("Coq proof: representation invariant + refinement to the plain-list semantics by induction over operation lists, "
             "filters as universally quantified functions; source tie: fail-closed statement-level translation of the method "
             "bodies (Python ast -> Gallina over a dynamically typed Python/numpy fragment, loops as monadic folds with "
             "loop-carried variables) and proofs `model = translated source` by case analysis on the array shape plus loop "
             "lemmas stated through the behaviour of the generated loop body on one index (so they survive renamings / "
             "re-nestings); vm_compute correspondence of the executable hand model with the real storer classes after every "
             "step of random and targeted histories; property oracle with deep snapshots on the real objects")

"""C20 - jet output: exactly this call's jets, hole subtraction, cone association, reader (JetAnalysis.py)."""
import contextlib, csv, io, json, math, os, tempfile
from fractions import Fraction
import numpy as np
import common as C
from common import Failure, q, z, coq_list, coq_opt, coq_bool

ID = "C20"
GEN = ["gen_jets", "gen_jets_rest"]
EXTRA_PROPERTY_FILES = ["C20Rest"]     # getters + the jet_algorithm dispatch (genkt/ee_genkt, unsupported values) regenerated and proved
SOURCE_TIE_NOTE = ("gen_jets_rest (Properties/C20Rest.v, 12 theorems, runtime Model/JetsRestRt.v): get_jets / "
    "get_associated_particles regenerated and proved equal to Model/Jets.v (TypeError before a read, IndexError on an empty group), "
    "read-then-getters and write/read/getters round trip; perform_jet_finding re-translated with the algorithm as a Python value and "
    "FastJetError as its own class: closed form of the dispatch (3/53 -> JetDefinition(n,R,-1.0); 0,1,2,11 -> JetDefinition(n,R); other "
    "int -> FastJetError after the file was truncated; non-int -> TypeError), equal to the model translation on the model algorithms; "
    "fj.plugin_algorithm (99: the interpreter segfaults) excluded by hypothesis; o_clusterx is a section variable (fastjet oracle)")
MODEL_INDEPENDENT_OF_PROOFS = True   # Model/Jets*.v contain no proofs: the correspondence runs even when a proof breaks
ALLOWED_AXIOMS = []
TRUSTED = [
    "Coq 8.16.1 kernel + vm_compute (no native_compute)",
    "translator tools/py2coq/gen_jets.py (Python ast, fail-closed) and its fixed runtime coq/Model/JetsRt.v: the reading of "
    "the Python / csv / file / fastjet primitives that the translated methods call (exceptions as values, the object as a "
    "record of its five attributes, one file as a value: 'w' truncates/creates, 'a' appends/creates, 'r' needs the file; "
    "int()/float() of a csv cell; JetDefinition/SelectorEtaRange/ClusterSequence as records, inclusive_jets(ptmin) = the "
    "oracle's jets with pT >= ptmin, sorted_by_pt = identity on the oracle's sorted list, selector = lo <= eta <= hi; "
    "warnings.warn/print have no effect; isinstance/len of the typed range pairs are true/2)",
    "hand model coq/Model/Jets.v: PROVED EQUAL (C20_source_*) to the method bodies regenerated from the current "
    "JetAnalysis.py - __init__, __initialize_and_check_parameters, create_fastjet_PseudoJets, fill_associated_particles, "
    "jet_hole_subtraction, write_jet_output, perform_jet_finding (model algorithms antikt/kt/cambridge), read_jet_data and "
    "the keyword defaults; additionally run against the real code by this run's correspondence. get_jets / get_associated_particles and the "
    "generalised-kt / unsupported-algorithm dispatch are tied by Properties/C20Rest.v. NOT tied by a theorem: the object's attributes "
    "after a call that raised",
    "fastjet (oracles, section variables): cluster = ClusterSequence(event, JetDefinition(alg, R)).inclusive_jets(0) sorted "
    "by pT; PseudoJet.perp()/eta()/phi(); delta_phi_to; np.sqrt - the model's dR is proved to be instantiated with the "
    "source's formula sqrt((eta_p - eta_jet)**2 + delta_phi_to**2); the harness calls fastjet itself for these",
    "csv writer/reader round trip of ints and floats (checked by the correspondence on read_jet_data)",
    "float rounding is not modelled (exact Q arithmetic; dyadic inputs make every sum exact); the source's `perp() < upper "
    "bound` equals the model's comparison on squares under the stated hypothesis that perp() is the non-negative root of "
    "px^2+py^2 on the compared jets (C20_source_write / C20_source_perform; non-vacuity: C20_source_example)",
]
ASSUMPTIONS = [
    "momenta, energies, pdg finite/set; a particle's status may be unset (the real code raises ValueError, modelled)",
    "the prior file content, if any, consists of newline-terminated lines",
    "jet algorithm among antikt / kt / cambridge (the genkt variants take an extra parameter and are not exercised)",
    "kt algorithm with R^2 not a power of two: fastjet applies the lower pT cut to kt2*R^2*(1/R^2), so a jet lying exactly "
    "on the lower bound is rounding-dependent there; such coincidences are not generated (exact arithmetic in the model)",
    "C20_source_fill: the object holds the event list and R (set by the parameter check) and the event index is in range; "
    "C20_source_write / C20_source_perform: perp() is the non-negative root of px^2+py^2 on the hole-subtracted jets "
    "that are compared with the upper bound, which is non-negative (proved from the parameter check)",
]

ALGS = {"antikt": 0, "kt": 1, "cambridge": 2}
_silenced = [False]


def _fj():
    import fastjet as fj
    if not _silenced[0]:
        # the fastjet banner is printed by the C++ library on the first clustering: send it to /dev/null once
        import sys
        sys.stdout.flush()
        saved = os.dup(1)
        dn = os.open(os.devnull, os.O_WRONLY)
        os.dup2(dn, 1)
        try:
            fj.ClusterSequence([fj.PseudoJet(1, 0, 0, 1)], fj.JetDefinition(fj.antikt_algorithm, 0.4)).inclusive_jets(0)
        finally:
            sys.stdout.flush()
            os.dup2(saved, 1)
            os.close(dn)
            os.close(saved)
        _silenced[0] = True
    return fj


def fj_alg(name):
    fj = _fj()
    return {"antikt": fj.antikt_algorithm, "kt": fj.kt_algorithm, "cambridge": fj.cambridge_algorithm}[name]


# --------------------------------------------------------------------------- real code
def mk_events(events):
    from sparkx.Particle import Particle
    out = []
    for ev in events:
        l = []
        for px, py, pz, E, status, charge, pdg in ev:
            p = Particle()
            p.px, p.py, p.pz, p.E = float(px), float(py), float(pz), float(E)
            if status is not None:
                p.status = status
            if charge is not None:
                p.data_[12] = charge
            p.data_[9] = pdg
            l.append(p)
        out.append(l)
    return out


def read_lines(path):
    if not os.path.exists(path):
        return None
    with open(path, "rb") as f:
        data = f.read().decode()
    return data.splitlines()


def run_impl(case):
    """real code: per call the exception class (or None) and the file afterwards (list of lines, None = no file);
    finally read_jet_data on the file"""
    from sparkx.JetAnalysis import JetAnalysis
    _fj()
    d = tempfile.mkdtemp(prefix="c20_")
    path = os.path.join(d, "jets.csv")
    try:
        if case["prior"] is not None:
            with open(path, "w", newline="") as f:
                text = "".join(l + "\n" for l in case["prior"])
                f.write(text[:-1] if case.get("prior_nonl") else text)      # ... or an older file whose last line is not terminated
        calls = []
        shared = JetAnalysis() if case.get("reuse") else None       # one analysis object used for every call
        outer = [] if case.get("samelist") else None                # ... and one outer list object, refilled in place per call
        if shared is not None and case.get("abort_first") and case["calls"]:
            # an earlier call on the same object was aborted by the documented ValueError (a hadron whose status was never set, in
            # the LAST event, after the earlier events had their jets found); it wrote into another file
            c0 = case["calls"][0]
            bad = [list(ev) for ev in c0["events"]] + [[[1.0, 0.5, 0.25, 2.0, None, 1, 211]]]
            try:
                with contextlib.redirect_stdout(io.StringIO()):
                    shared.perform_jet_finding(mk_events(bad), abs(c0["R"]) or 0.4, tuple(c0["eta"]), tuple(c0["pt"]),
                                               os.path.join(d, "aborted.csv"))
            except Exception:
                pass
        for call in case["calls"]:
            ja = shared or JetAnalysis()
            err = None
            if outer is not None:
                outer[:] = mk_events(call["events"])
            def evs(c):
                if outer is not None:
                    l = outer
                else:
                    l = mk_events(c["events"])
                for i, j in c.get("same_event", []):          # one event (the same list object, the same Particle objects) listed twice
                    if i < len(l) and j < len(l) and c["events"][i] == c["events"][j]:
                        l[j] = l[i]
                return l
            num = {"int": lambda v: int(v) if (v is not None and float(v) == int(v)) else v,
                   "np": lambda v: None if v is None else np.float64(v)}.get(call.get("num_as"), lambda v: v)
            R, eta, pt = num(call["R"]), tuple(num(v) for v in call["eta"]), tuple(num(v) for v in call["pt"])
            try:
                with contextlib.redirect_stdout(io.StringIO()):
                    if call.get("defaults"):
                        # keyword parameters left to their documented defaults (charged only, anti-kt): the case
                        # carries charged=True / alg="antikt", which is what the oracle and the model are given
                        ja.perform_jet_finding(evs(call), R, eta, pt, path)
                    else:
                        ja.perform_jet_finding(evs(call), R, eta, pt,
                                               path, assoc_only_charged=call["charged"], jet_algorithm=fj_alg(call["alg"]))
            except Exception as e:
                err = type(e).__name__
            calls.append({"err": err, "file": read_lines(path)})
        ja = shared or JetAnalysis()
        try:
            if case.get("readtwice"):
                # the reading object has read something before (another, longer file, then this file once): read_jet_data
                # returns what the file holds now, not what the object held
                other = os.path.join(d, "older.csv")
                with open(other, "w", newline="") as f:
                    f.write("".join(l + "\n" for l in OLDROWS))
                ja.read_jet_data(other)
                if os.path.exists(path):
                    ja.read_jet_data(path)
            ja.read_jet_data(path)
            rd = {"err": None, "data": ja.jet_data_, "jets": ja.get_jets(), "assoc": ja.get_associated_particles()}
        except Exception as e:
            rd = {"err": type(e).__name__}
        return {"calls": calls, "read": rd}
    finally:
        import shutil
        shutil.rmtree(d, ignore_errors=True)


# --------------------------------------------------------------------------- fastjet as the oracle
def acc(v):
    """(perp, eta, phi) of a 4-vector through the fastjet accessors the implementation uses"""
    fj = _fj()
    j = fj.PseudoJet(float(v[0]), float(v[1]), float(v[2]), float(v[3]))
    return (j.perp(), j.eta(), j.phi())


def cluster(alg, R, ev):
    """all inclusive jets (ptmin 0, no selector) sorted by pT; per jet its 4-vector, eta and dR to every particle"""
    fj = _fj()
    if not ev:
        return []
    pj = [fj.PseudoJet(float(p[0]), float(p[1]), float(p[2]), float(p[3])) for p in ev]
    cs = fj.ClusterSequence(pj, fj.JetDefinition(fj_alg(alg), R))
    jets = fj.sorted_by_pt(cs.inclusive_jets(0.0))
    out = []
    for j in jets:
        drs = []
        for p in pj:
            deta = p.eta() - j.eta()
            dphi = p.delta_phi_to(j)
            drs.append(float(np.sqrt(deta**2.0 + dphi**2.0)))
        out.append({"v": (j.px(), j.py(), j.pz(), j.e()), "eta": j.eta(), "dr": drs})
    return out


def F(x):
    return Fraction(x)


def perp2(v):
    return F(v[0]) ** 2 + F(v[1]) ** 2


def norm_window(lo, hi, lo_default):
    """None is unbounded, swapped limits are re-ordered; +-inf as None after normalisation"""
    a = lo_default if lo is None else F(lo)
    b = None if hi is None else F(hi)          # None = +inf
    # a may be None (= -inf) for the eta window
    def lt(x, y):  # x lower-type (None=-inf), y upper-type (None=+inf)
        if x is None or y is None:
            return True
        return x < y
    if lt(a, b):
        return a, b
    return b, a  # both finite here


def expected_call(call):
    """the property text, directly: the rows the call has to leave in the file (floats through the accessors)"""
    eta_lo, eta_hi = norm_window(call["eta"][0], call["eta"][1], None)
    pt_lo, pt_hi = norm_window(call["pt"][0], call["pt"][1], F(0))
    R = call["R"]
    rows, jets_out, table = [], [], []
    for i, ev in enumerate(call["events"]):
        for j in cluster(call["alg"], R, ev):
            if not perp2(j["v"]) >= pt_lo ** 2:
                continue
            e = F(j["eta"])
            if (eta_lo is not None and e < eta_lo) or (eta_hi is not None and e > eta_hi):
                continue
            holes = [p for p, dr in zip(ev, j["dr"]) if p[4] < 0 and dr < R]
            mom = [F(j["v"][k]) - sum((F(h[k]) for h in holes), F(0)) for k in range(4)]
            table.append(mom)
            if pt_hi is not None and perp2(mom) >= pt_hi ** 2:
                continue
            assoc = [p for p, dr in zip(ev, j["dr"]) if p[4] >= 0 and dr < R and not (call["charged"] and p[5] == 0)]
            a = acc(mom)
            grp = [[0, a[0], a[1], a[2], 10, 10, float(mom[3]), i]]
            for k, p in enumerate(assoc, start=1):
                a = acc(p)
                grp.append([k, a[0], a[1], a[2], p[4], p[6], float(p[3]), i])
            rows += grp
            jets_out.append(grp)
    return rows, jets_out, table


def parse_line(line):
    """a CSV line as the 8 columns of a jet row, or None (foreign line)"""
    try:
        c = next(csv.reader([line]))
        if len(c) != 8:
            return None
        return [int(c[0]), float(c[1]), float(c[2]), float(c[3]), int(c[4]), int(c[5]), float(c[6]), int(c[7])]
    except Exception:
        return None


def close(a, b):
    return a == b or abs(F(a) - F(b)) <= Fraction(1, 10**9) * (abs(F(a)) + abs(F(b)))


def rows_equal(got, exp):
    if got is None or exp is None or len(got) != len(exp):
        return False
    for k in (0, 4, 5, 7):
        if got[k] != exp[k]:
            return False
    return all(close(got[k], exp[k]) for k in (1, 2, 3, 6))


def justified_rejection(call):
    """inputs the implementation documents as rejected, or an unset status in an event that has a jet to write"""
    if call["R"] <= 0:
        return True
    if any(b is not None and b < 0 for b in call["pt"]):
        return True
    return any(p[4] is None for ev in call["events"] for p in ev)


def oracle(case):
    """PROPERTY ORACLE on the real code: after every call the file holds exactly the rows the property text
    prescribes for that call (recomputed here from fastjet), and read_jet_data returns them jet by jet"""
    got = run_impl(case)
    last_rows = None
    before = case["prior"]
    for n, (call, g) in enumerate(zip(case["calls"], got["calls"])):
        # arguments the implementation documents as rejected (C20_rejects): ValueError, the file is left as it was
        if call["R"] <= 0 or any(b is not None and b < 0 for b in call["pt"]):
            if g["err"] != "ValueError":
                return (f"call {n}: jet_R={call['R']!r}, jet_pT_range={call['pt']!r} is documented as rejected (jet_R must be "
                        f"larger than 0, pT bounds non-negative) but the call {'raised ' + g['err'] if g['err'] else 'was accepted'}")
            if g["file"] != before:
                return f"call {n}: the rejected call changed the output file ({before!r} -> {g['file']!r})"
        before = g["file"]
        if g["err"] is not None:
            if justified_rejection(call):
                last_rows = None
                continue
            return f"call {n}: perform_jet_finding raised {g['err']} on an input the property covers"
        if any(p[4] is None for ev in call["events"] for p in ev):
            last_rows = None
            continue
        exp, jets, _ = expected_call(call)
        if g["file"] is None:
            return f"call {n}: no output file exists after the call (expected a file with {len(exp)} rows)"
        parsed = [parse_line(l) for l in g["file"]]
        if len(parsed) != len(exp) or not all(rows_equal(a, b) for a, b in zip(parsed, exp)):
            nf = sum(1 for p in parsed if p is None)
            first = next((k for k, (a, b) in enumerate(zip(parsed, exp)) if not rows_equal(a, b)), min(len(parsed), len(exp)))
            return (f"call {n}: the file holds {len(parsed)} lines ({nf} of them not jet rows), the property prescribes "
                    f"{len(exp)} rows for this call; first difference at line {first}: file "
                    f"{g['file'][first] if first < len(g['file']) else '<end>'!r}, expected "
                    f"{exp[first] if first < len(exp) else '<end>'!r}")
        last_rows = jets
    if last_rows is not None:
        rd = got["read"]
        if rd["err"] is not None:
            return f"read_jet_data raised {rd['err']} on the file this call wrote"
        data = rd["data"]
        ok = len(data) == len(last_rows) and all(
            len(a) == len(b) and all(rows_equal(x, y) for x, y in zip(a, b)) for a, b in zip(data, last_rows))
        if not ok:
            return f"read_jet_data returns {len(data)} groups {[len(a) for a in data]}, written were {[len(b) for b in last_rows]} jet by jet"
        if rd["jets"] != [g[0] for g in data] or rd["assoc"] != [g[1:] for g in data]:
            return "get_jets/get_associated_particles do not split the groups into jet row and associated rows"
    return None


# --------------------------------------------------------------------------- generator
PDG = [(211, 1), (-211, -1), (111, 0), (321, 1), (-321, -1), (2212, 1), (2112, 0), (22, 0), (130, 0), (-2212, -1)]
POS_STATUS = [0, 1, 11, 27, 27, 11]
NEG_STATUS = [-1, -11, -27]
PYTH = [(3, 4), (4, 3), (-3, 4), (3, -4), (-4, -3), (6, 8), (-8, 6), (5, 12), (1.5, 2), (-2, 1.5), (0.75, 1)]


def _energy(px, py, pz, rng):
    p2 = F(px) ** 2 + F(py) ** 2 + F(pz) ** 2
    e = math.floor(math.sqrt(float(p2)) * 4) / 4.0
    while F(e) ** 2 < p2:
        e += 0.25
    return e + rng.choice([0, 0, 0.25, 0.5])


def gen_particle(rng, axes, p_neg):
    r = rng.random()
    if axes and r < 0.7:
        ax = rng.choice(axes)
        k = rng.choice([0.25, 0.5, 0.5, 1, 1, 2])
        px = ax[0] * k + rng.choice([-0.5, -0.25, 0, 0, 0.25, 0.5])
        py = ax[1] * k + rng.choice([-0.5, -0.25, 0, 0, 0.25, 0.5])
        pz = ax[2] * k + rng.choice([-0.25, 0, 0, 0.25])
    elif r < 0.85:
        px, py = rng.choice(PYTH)
        pz = rng.choice([0, 0, 0.5, -1, 2])
    else:
        px, py, pz = rng.randint(-16, 16) / 4, rng.randint(-16, 16) / 4, rng.randint(-12, 12) / 4
    if px == 0 and py == 0:
        px = 0.25
    pdg, ch = rng.choice(PDG)
    st = rng.choice(NEG_STATUS) if rng.random() < p_neg else rng.choice(POS_STATUS)
    return [float(px), float(py), float(pz), _energy(px, py, pz, rng), st, ch, pdg]


def gen_event(rng, jetless=False):
    if jetless:
        return []
    n = rng.randint(3, 12)
    axes = [(rng.randint(-20, 20) / 4, rng.randint(-20, 20) / 4, rng.randint(-8, 8) / 4) for _ in range(rng.choice([1, 2, 2, 3]))]
    axes = [a for a in axes if abs(a[0]) + abs(a[1]) >= 1]
    p_neg = rng.choice([0, 0.2, 0.35, 0.5])
    return [gen_particle(rng, axes, p_neg) for _ in range(n)]


def gen_call(rng, shape=None):
    """shape: which events are jet-less (have no particle / no selected jet): 'first','middle','last','all','none'"""
    shape = shape or rng.choice(["none", "none", "first", "middle", "last", "all", "first"])
    nev = rng.choice([1, 2, 3, 3, 4])
    if shape == "middle":
        nev = max(nev, 3)
    if shape in ("first", "last"):
        nev = max(nev, 2)
    empty = {"none": set(), "first": {0}, "last": {nev - 1}, "middle": {rng.randint(1, nev - 2)} if nev >= 3 else set(),
             "all": set(range(nev))}[shape]
    events = [gen_event(rng, jetless=(i in empty and rng.random() < 0.5)) for i in range(nev)]
    R = rng.choice([0.25, 0.4, 0.4, 0.5, 0.75, 1.0, 1.5])
    call = {"events": events, "R": R, "alg": rng.choice(["antikt", "antikt", "antikt", "kt", "cambridge"]),
            "charged": rng.random() < 0.5,
            "eta": rng.choice([[None, None], [-2.0, 2.0], [-1.0, 1.0], [2.0, -2.0], [None, 0.5], [-0.5, None], [0.5, -0.25], [0.0, 0.0], [None, -0.5]]),
            "pt": rng.choice([[None, None], [1.0, None], [2.5, None], [None, 5.0], [5.0, 1.0], [2.5, 10.0], [5.0, 13.0], [0.0, 5.0], [10.0, 2.5], [5.0, 5.0]])}
    # events meant to be jet-less but holding particles: raise the lower bound above every jet of these events
    # (possible only when they are soft) - otherwise keep them as they are; the distribution is recorded
    call["events"] = [ev if not (i in empty and ev) else soften(ev, call) for i, ev in enumerate(events)]
    if rng.random() < 0.12:
        call["defaults"], call["charged"], call["alg"] = True, True, "antikt"
    tweak_bounds(rng, call)
    sanitize(call)
    return call


def sanitize(call):
    """fastjet evaluates the ptmin cut of the kt algorithm on d_iB = kt2 * R^2 * (1/R^2), which rounds unless R^2 is a
    power of two: a jet lying exactly on the lower bound is then kept or dropped by rounding (not modelled) - such
    coincidences are taken out of the generated inputs by falling back to R = 0.5"""
    if call["alg"] != "kt" or call["R"] in (0.25, 0.5, 1.0) or call["R"] <= 0:
        return
    bounds = [F(b) ** 2 for b in call["pt"] if b is not None and b >= 0]
    if any(perp2(j["v"]) in bounds for ev in call["events"] if ev for j in cluster("kt", call["R"], ev)):
        call["R"] = 0.5
        call.pop("boundary", None)


def soften(ev, call):
    """scale an event down (powers of two keep everything dyadic) until no jet reaches the lower pT bound"""
    lo = call["pt"][0] if call["pt"][0] is not None else 0.0
    hi = call["pt"][1]
    lo = min(lo, hi) if hi is not None else lo
    if lo <= 0:
        return []
    ev = [list(p) for p in ev]
    for _ in range(8):
        if all(perp2(j["v"]) < F(lo) ** 2 for j in cluster(call["alg"], call["R"], ev)):
            return ev
        ev = [[p[0] / 2, p[1] / 2, p[2] / 2, p[3] / 2] + p[4:] for p in ev]
    return []


def tweak_bounds(rng, call):
    """boundary cases: R equal to an occurring dR, an eta limit equal to a jet's eta, a pT bound equal to a jet pT"""
    r = rng.random()
    evs = [ev for ev in call["events"] if ev]
    if not evs:
        return
    if r < 0.25:
        for _ in range(4):
            ev = rng.choice(evs)
            js = cluster(call["alg"], call["R"], ev)
            cands = [d for j in js for d in j["dr"] if 0.05 < d < 2.0]
            if not cands:
                continue
            R2 = rng.choice(cands)
            js2 = cluster(call["alg"], R2, ev)
            if any(d == R2 for j in js2 for d in j["dr"]):
                call["R"] = R2
                call["boundary"] = "dR==R"
                return
    elif r < 0.4:
        ev = rng.choice(evs)
        js = cluster(call["alg"], call["R"], ev)
        j = rng.choice(js)
        if abs(j["eta"]) < 50:
            k = rng.choice([0, 1])
            other = rng.choice([None, j["eta"] + (1.0 if k == 0 else -1.0)])
            call["eta"] = [j["eta"], other] if k == 0 else [other, j["eta"]]
            call["boundary"] = "eta==limit"
    elif r < 0.6:
        ev = rng.choice(evs)
        js = cluster(call["alg"], call["R"], ev)
        sq = []
        for j in js:
            for v in (j["v"], hole_subtracted(j, ev, call["R"])):
                s = math.sqrt(float(perp2(v)))
                if F(s) ** 2 == perp2(v) and s > 0:
                    sq.append(s)
        if sq:
            s = rng.choice(sq)
            call["pt"] = rng.choice([[s, None], [None, s], [0.25, s], [s, 64.0]])
            call["boundary"] = "pT==bound"


def hole_subtracted(j, ev, R):
    holes = [p for p, dr in zip(ev, j["dr"]) if p[4] is not None and p[4] < 0 and dr < R]
    return [F(j["v"][k]) - sum((F(h[k]) for h in holes), F(0)) for k in range(4)]


FOREIGN = ["# jets of some other analysis", "index,pT,eta,phi,status,pid,E,event", "hello world", "1;2;3"]
OLDROWS = ["0,12.5,0.25,1.5,10,10,14.0,0", "1,3.0,0.5,1.25,27,211,3.5,0", "2,1.0,0.125,1.75,27,-211,1.25,0",
           "0,7.0,-0.5,4.0,10,10,8.0,3", "1,7.0,-0.5,4.0,11,2212,8.0,3"]


def gen_case(rng, small=False):
    r = rng.random()
    if r < 0.3:
        prior = None
    elif r < 0.4:
        prior = []
    elif r < 0.75:
        k = rng.choice([2, 3, 5])
        prior = OLDROWS[:k]
    elif r < 0.9:
        prior = [rng.choice(FOREIGN)] + OLDROWS[:rng.choice([0, 3])]
    else:
        prior = OLDROWS[:3] + [rng.choice(FOREIGN)]
    ncalls = 1 if rng.random() < 0.5 else 2
    calls = [gen_call(rng) for _ in range(ncalls)]
    reuse = ncalls == 2 and rng.random() < 0.6
    if reuse and rng.random() < 0.5 and not calls[1].get("defaults"):
        calls[1]["alg"] = calls[0]["alg"]                # same algorithm, (usually) another radius
    x = rng.random()
    if x < 0.05:
        c = rng.choice(calls)
        evs = [ev for ev in c["events"] if ev]
        if evs:
            rng.choice(rng.choice(evs))[4] = None       # unset status
    elif x < 0.08:
        rng.choice(calls)["R"] = rng.choice([0.0, -0.5])
    elif x < 0.11:
        rng.choice(calls)["pt"] = rng.choice([[-1.0, None], [None, -2.0], [3.0, -1.0]])
    elif x < 0.14:
        c = rng.choice(calls)
        evs = [ev for ev in c["events"] if ev]
        if evs:
            rng.choice(rng.choice(evs))[5] = None       # unset charge
    if small:
        for c in calls:
            c["events"] = [ev[:6] for ev in c["events"][:3]]
    case = {"prior": prior, "calls": calls}
    for c in calls:
        y = rng.random()
        if y < 0.15:
            c["num_as"] = "np"                   # R and the limits as numpy.float64
        elif y < 0.3:
            c["num_as"] = "int"                  # integral R / limits as Python ints
        if len(c["events"]) >= 2 and c["events"][0] and rng.random() < 0.12 and not small:
            j = rng.randrange(1, len(c["events"]))
            c["events"][j] = [list(p) for p in c["events"][0]]
            c["same_event"] = [[0, j]]
    if prior and rng.random() < 0.2:
        case["prior_nonl"] = True
    if rng.random() < 0.2:
        case["readtwice"] = True
    if reuse:
        case["reuse"] = True
        if rng.random() < 0.35:
            case["abort_first"] = True      # the object's previous call ended in the documented exception
        if rng.random() < 0.5:
            case["samelist"] = True          # the caller keeps one list object and refills it in place between the calls
    return case


# --------------------------------------------------------------------------- model side (Coq)
PRELUDE = """From Coq Require Import List ZArith QArith Qabs Bool.
From SX Require Import Lib.QCheck Model.Jets Model.JetsTable.
Import ListNotations.
Local Open Scope Q_scope.
Definition tol : Q := 1 # 1000000000.
Definition cmp_row (m i : row) : nat :=
  if (Z.eqb (r_idx m) (r_idx i) && Z.eqb (r_status m) (r_status i) && Z.eqb (r_pid m) (r_pid i)
      && Z.eqb (r_event m) (r_event i))%bool
  then worst [cmpq tol (r_pt m) (r_pt i); cmpq tol (r_eta m) (r_eta i); cmpq tol (r_phi m) (r_phi i);
              cmpq tol (r_E m) (r_E i)]
  else 2%nat.
Definition cmp_line (m i : line) : nat :=
  match m, i with
  | JetLine a, JetLine b => cmp_row a b
  | Foreign s, Foreign t => if Z.eqb s t then 0%nat else 2%nat
  | _, _ => 2%nat
  end.
Fixpoint cmp_lines (m i : list line) : nat :=
  match m, i with
  | [], [] => 0%nat
  | a :: m', b :: i' => Nat.max (cmp_line a b) (cmp_lines m' i')
  | _, _ => 3%nat
  end.
Definition cmp_file (m i : file) : nat :=
  match m, i with None, None => 0%nat | Some a, Some b => cmp_lines a b | _, _ => 4%nat end.
Definition jerr_id (e : jerr) : nat := match e with EValue => 1 | EIndex => 2 | ENoFile => 3 end%nat.
Definition cmp_err (m : option jerr) (i : option nat) : nat :=
  match m, i with
  | None, None => 0%nat
  | Some e, Some n => if Nat.eqb (jerr_id e) n then 0%nat else 5%nat
  | _, _ => 5%nat
  end.
Fixpoint run_calls ct at_ dt (f : file) (calls : list (params * list event)) (impl : list (option nat * file))
  : nat * file :=
  match calls, impl with
  | [], [] => (0%nat, f)
  | (a, evs) :: cs, (ie, ifile) :: is_ =>
    match t_perform ct at_ dt a f evs with
    | (f', e) => match run_calls ct at_ dt f' cs is_ with
                 | (c, ff) => (Nat.max (Nat.max (cmp_err e ie) (cmp_file f' ifile)) c, ff)
                 end
    end
  | _, _ => (6%nat, f)
  end.
Fixpoint cmp_groups (m i : list (list row)) : nat :=
  match m, i with
  | [], [] => 0%nat
  | a :: m', b :: i' => Nat.max (cmp_lines (map JetLine a) (map JetLine b)) (cmp_groups m' i')
  | _, _ => 7%nat
  end.
Definition cmp_read (m : result (list (list row))) (ie : option nat) (idata : list (list row)) : nat :=
  match m, ie with
  | Ok d, None => cmp_groups d idata
  | Err e, Some n => if Nat.eqb (jerr_id e) n then 0%nat else 8%nat
  | _, _ => 8%nat
  end.
Definition check ct at_ dt (prior : file) calls impl (ie : option nat) (idata : list (list row)) : nat :=
  match run_calls ct at_ dt prior calls impl with
  | (c, ff) => Nat.max c (cmp_read (read_jet_data ff) ie idata)
  end.
"""

ERR_ID = {"ValueError": 1, "IndexError": 2, "FileNotFoundError": 3}


def zz(x):
    return f"({int(x)})%Z"


def cv(v):
    return f"(V4 {q(v[0])} {q(v[1])} {q(v[2])} {q(v[3])})"


def cparticle(p):
    return f"(P {cv(p)} {coq_opt(p[4], zz)} {coq_opt(p[5], zz)} {zz(p[6])})"


def cparams(call):
    alg = {"antikt": "AntiKt", "kt": "Kt", "cambridge": "Cambridge"}[call["alg"]]
    return (f"(Params {alg} {q(call['R'])} ({coq_opt(call['eta'][0], q)}, {coq_opt(call['eta'][1], q)}) "
            f"({coq_opt(call['pt'][0], q)}, {coq_opt(call['pt'][1], q)}) {coq_bool(call['charged'])})")


def crow(r):
    return f"(Row {zz(r[0])} {q(r[1])} {q(r[2])} {q(r[3])} {zz(r[4])} {zz(r[5])} {q(r[6])} {zz(r[7])})"


class Tags:
    def __init__(self):
        self.d = {}

    def line(self, text):
        r = parse_line(text)
        if r is not None and all(math.isfinite(x) for x in r):
            return f"JetLine {crow(r)}"
        return f"Foreign {zz(self.d.setdefault(text, len(self.d) + 1))}"

    def file(self, lines):
        return "None" if lines is None else "(Some " + coq_list([self.line(l) for l in lines]) + ")"


def tables(case):
    """the oracle answers for this case, asked from fastjet here"""
    ct, at, dt = [], [], []
    seen_acc = set()

    def add_acc(v, vals=None):
        v = v[:4]
        key = tuple(F(x) for x in v)
        if key in seen_acc:
            return
        seen_acc.add(key)
        a = vals or acc(v)
        at.append(f"({cv(v)}, ({q(a[0])}, {q(a[1])}, {q(a[2])}))")

    for call in case["calls"]:
        if call["R"] <= 0:
            continue
        for ev in call["events"]:
            if not ev:
                continue
            js = cluster(call["alg"], call["R"], ev)
            ct.append(f"(({ALGS[call['alg']]}%nat, {q(call['R'])}, {coq_list([cv(p) for p in ev])}), {coq_list([cv(j['v']) for j in js])})")
            for p in ev:
                add_acc(p)
            for j in js:
                a = acc(j["v"])
                add_acc(j["v"], (a[0], j["eta"], a[2]))
                add_acc(hole_subtracted(j, ev, call["R"]))
                for p, dr in zip(ev, j["dr"]):
                    dt.append(f"(({cv(j['v'])}, {cv(p)}), {q(dr)})")
    return coq_list(ct), coq_list(at), coq_list(dt)


def coq_case(case, got):
    tg = Tags()
    ct, at, dt = tables(case)
    calls = coq_list([f"({cparams(c)}, {coq_list([coq_list([cparticle(p) for p in ev]) for ev in c['events']])})" for c in case["calls"]])
    impl = coq_list([f"({coq_opt(ERR_ID.get(g['err'], 9) if g['err'] else None, lambda n: f'{n}%nat')}, {tg.file(g['file'])})" for g in got["calls"]])
    rd = got["read"]
    ie = coq_opt(ERR_ID.get(rd["err"], 9) if rd["err"] else None, lambda n: f"{n}%nat")
    idata = coq_list([coq_list([crow(r) for r in grp]) for grp in rd.get("data", [])]) if not rd["err"] else "[]"
    return f"(check {ct} {at} {dt} {tg.file(case['prior'])} {calls} {impl} {ie} {idata})"


def describe(case, got, dist):
    """input distribution / branches reached, for the evidence"""
    def bump(k, n=1):
        dist[k] = dist.get(k, 0) + n
    bump("prior:" + ("none" if case["prior"] is None else "empty" if not case["prior"] else
                     "foreign" if any(parse_line(l) is None for l in case["prior"]) else "old jet rows"))
    bump(f"calls:{len(case['calls'])}")
    for call, g in zip(case["calls"], got["calls"]):
        if g["err"]:
            bump("call raised " + g["err"])
            continue
        if any(p[4] is None for ev in call["events"] for p in ev):
            bump("unset status in a jet-less event (accepted)")
            continue
        has = []
        for i, ev in enumerate(call["events"]):
            _, jets, _ = expected_call({**call, "events": [ev]})
            has.append(bool(jets))
        n = len(has)
        if not any(has):
            bump("jetless:all")
        else:
            if not has[0]:
                bump("jetless:first")
            if n > 1 and not has[-1]:
                bump("jetless:last")
            if any(not h for h in has[1:-1]):
                bump("jetless:middle")
            if all(has):
                bump("jetless:none")
        if "boundary" in call:
            bump("boundary " + call["boundary"])
        bump("charged_only" if call["charged"] else "all_assoc")
        if call.get("defaults"):
            bump("keyword defaults")
        bump("alg:" + call["alg"])
        eta, pt = call["eta"], call["pt"]
        if eta[0] is not None and eta[1] is not None and eta[0] > eta[1]:
            bump("eta limits swapped")
        if pt[0] is not None and pt[1] is not None and pt[0] > pt[1]:
            bump("pT limits swapped")
        if None in eta:
            bump("eta limit None")
        if None in pt:
            bump("pT limit None")
        for ev in call["events"]:
            for j in cluster(call["alg"], call["R"], ev):
                hs = [p for p, dr in zip(ev, j["dr"]) if p[4] < 0 and dr < call["R"]]
                if hs:
                    bump("jets with holes in cone")
                if any(p[5] == 0 for p in hs):
                    bump("jets with neutral holes in cone")
                if any(dr == call["R"] for dr in j["dr"]):
                    bump("particle exactly on the cone edge")
    rows = sum(len(g["file"] or []) for g in got["calls"])
    bump("rows written", rows)
    return rows


def correspondence(ctx, model_ok=True):
    n = 300 if ctx.quick else 4000
    cases, gots, failures = [], [], []
    corpus = os.path.join(C.VERIF, "corpus", ID)
    if os.path.isdir(corpus):
        for fn in sorted(os.listdir(corpus)):
            cases.append(json.load(open(os.path.join(corpus, fn)))["case"])
    for fn in sorted(os.listdir(os.path.join(C.VERIF, "fixes"))):
        if fn.startswith(ID + "_") and fn.endswith(".replay.json"):
            cases.append(json.load(open(os.path.join(C.VERIF, "fixes", fn)))["case"])
    while len(cases) < n:
        cases.append(gen_case(ctx.rng))
    for c in cases:
        gots.append(run_impl(c))
    dist, keys = {}, set()
    for c, g in zip(cases, gots):
        rows = describe(c, g, dist)
        if rows > 0 and (c["prior"] or any(len(cl["events"]) >= 2 for cl in c["calls"])):
            keys.add(json.dumps(c, sort_keys=True))
    out = {"evaluations": len(cases), "distinct_nontrivial": len(keys), "distribution": dist,
           "rule": "seeded random cases: optional prior file content (none / empty / rows of an older analysis / foreign "
                   "text), 1-2 successive perform_jet_finding calls into the same file, 1-4 events per call with 3-12 "
                   "particles (dyadic momenta around 1-3 axes, positive and negative status, neutral and charged) and "
                   "jet-less events first / middle / last / all, R in {0.25..1.5} or equal to an occurring dR, eta windows "
                   "and pT bounds incl. None, swapped limits and limits equal to a jet's eta / pT, both "
                   "assoc_only_charged, antikt/kt/cambridge, a few rejected inputs (R <= 0, negative bound, unset "
                   "status); non-trivial = at least one row written and (prior content or >= 2 events); distinct by "
                   "canonical JSON; model = Model/Jets.v with the fastjet answers as tables, evaluated by vm_compute and "
                   "compared with the file after every call and with read_jet_data (integer columns exactly, float "
                   "columns exactly or within 1e-9)",
           "samples": cases[:2], "model_runner": "Eval vm_compute in generated cases files (sharded coqc)",
           "failures": [], "broken": []}
    out["all_cases"] = cases          # the driver runs the property oracle on these as well
    # generator self-test: a category that is never reached says nothing about its branch
    required = ["prior:none", "prior:empty", "prior:foreign", "prior:old jet rows", "calls:2", "jetless:first",
                "jetless:middle", "jetless:last", "jetless:all", "jetless:none", "boundary dR==R", "boundary eta==limit",
                "boundary pT==bound", "particle exactly on the cone edge", "eta limits swapped", "pT limits swapped",
                "eta limit None", "pT limit None", "charged_only", "all_assoc", "alg:antikt", "alg:kt", "alg:cambridge",
                "call raised ValueError", "jets with holes in cone", "jets with neutral holes in cone", "keyword defaults"]
    missing = [k for k in required if not dist.get(k)]
    if missing:
        out["broken"].append({"what": "generator self-test: input categories never reached", "detail": missing})
    # structural checks that need no model: the two getters split what read_jet_data returned
    for c, g in zip(cases, gots):
        rd = g["read"]
        if not rd["err"] and (rd["jets"] != [grp[0] for grp in rd["data"]] or rd["assoc"] != [grp[1:] for grp in rd["data"]]):
            out["failures"].append(Failure(c, "get_jets/get_associated_particles do not split read_jet_data's groups"))
    if not model_ok:
        out["broken"].append({"what": "correspondence not run: the model's proofs/definitions did not build"})
        return out
    ok, log = C.make(["Model/JetsTable.vo", "Lib/QCheck.vo"])
    if not ok:
        out["broken"].append({"what": "model Model/Jets.v does not build", "detail": log[-800:]})
        return out
    shard = 50
    files = []
    for i in range(0, len(cases), shard):
        body = coq_list([coq_case(c, g) for c, g in zip(cases[i:i + shard], gots[i:i + shard])])
        files.append((f"c20_{i//shard}", PRELUDE + f"Eval vm_compute in {body}.\n"))
    res = C.coq_eval_many(ctx, files)
    codes = []
    for (ok, o), (name, _) in zip(res, files):
        if not ok:
            out["broken"].append({"what": f"cases file {name} failed to evaluate", "detail": o[-800:]})
            return out
        codes += C.parse_codes(o)
    if len(codes) != len(cases):
        out["broken"].append({"what": "cases output could not be parsed", "detail": f"{len(codes)} codes for {len(cases)} cases"})
        return out
    out["exact_agreements"] = sum(1 for c in codes if c == 0)
    out["tolerance_agreements"] = sum(1 for c in codes if c == 1)
    out["traces_validated_against_impl"] = sum(1 for c in codes if c <= 1)
    for c, g, code in zip(cases, gots, codes):
        if code >= 2:
            summ = [{"err": x["err"], "file": x["file"]} for x in g["calls"]]
            out["failures"].append(Failure(c, f"model and implementation disagree (code {code}): impl={json.dumps(summ)[:1500]}"))
    return out


# --------------------------------------------------------------------------- search on the real code
def probes():
    """deterministic inputs aimed at what tools/py2coq/gen_jets.py extracts from the source (operators, constants,
    defaults, argument order, row layout, file modes): used first by `search` when the translator aborts or a
    C20_source_* theorem no longer checks"""
    import random
    rng = random.Random(2020)
    out = []
    # (a) a fixed event with a status-0 neutral hadron, a neutral and a charged hole inside the cone, a hole far away,
    #     a second soft jet; windows / bounds on, between and beyond the limits, swapped, equal, None, zero
    ev0 = [[3.0, 4.0, 0.0, 5.0, 1, 1, 211], [3.0, 4.0, 0.5, 5.25, 0, 0, 111], [2.5, 4.0, 0.0, 5.0, -11, 1, 321],
           [3.0, 3.5, 0.25, 4.75, -1, 0, 2112], [-4.0, 3.0, 0.0, 5.0, -27, -1, -211], [-1.5, -2.0, 1.0, 2.75, 27, -1, -321]]
    ev1 = [[0.75, 1.0, 0.0, 1.25, 11, 0, 22], [-6.0, 8.0, 0.5, 10.25, 1, 1, 2212], [-6.0, 7.5, 0.5, 9.75, -1, 0, 130]]
    for eta in ([None, None], [0.0, 0.0], [2.0, -2.0], [None, 0.25], [0.25, None], [-0.25, 0.125]):
        for pt in ([None, None], [0.0, None], [None, 0.0], [2.5, 2.5], [10.0, 2.5], [2.5, 12.5], [None, 7.0], [1.25, None]):
            for charged in (True, False):
                alg = ["antikt", "kt", "cambridge"][len(out) % 3]
                out.append({"prior": [OLDROWS, None, [FOREIGN[0]]][len(out) % 3][:2] if len(out) % 3 != 1 else None,
                            "calls": [{"events": [[], ev0, ev1], "R": [0.5, 1.0][len(out) % 2], "alg": alg,
                                       "charged": charged, "eta": list(eta), "pt": list(pt)}]})
    # (b) the keyword parameters left to their defaults; two calls into one file with one object
    for k in range(12):
        c = gen_case(rng)
        for call in c["calls"]:
            call.pop("boundary", None)
            call["defaults"], call["charged"], call["alg"] = True, True, "antikt"
        out.append(c)
    out.append({"prior": None, "reuse": True, "calls": [
        {"events": [ev0, ev1], "R": 0.5, "alg": "antikt", "charged": True, "eta": [None, None], "pt": [None, None], "defaults": True},
        {"events": [ev1, [], ev0], "R": 1.0, "alg": "antikt", "charged": True, "eta": [-1.0, 1.0], "pt": [1.0, None], "defaults": True}]})
    # (c) every boundary category of the generator: dR == R, eta == limit, pT == bound (clustered / hole-subtracted)
    want = {"dR==R": 8, "eta==limit": 8, "pT==bound": 10}
    for _ in range(800):
        if not any(v > 0 for v in want.values()):
            break
        c = gen_case(rng)
        b = [call.get("boundary") for call in c["calls"] if call.get("boundary")]
        if b and want.get(b[0], 0) > 0:
            want[b[0]] -= 1
            out.append(c)
    # (d) rejected arguments and an unset status
    base = {"events": [ev0], "R": 0.5, "alg": "antikt", "charged": False, "eta": [None, None], "pt": [None, None]}
    for ch in ({"R": 0.0}, {"R": -1.0}, {"pt": [-1.0, None]}, {"pt": [None, -0.5]}, {"pt": [0.0, 0.0]}, {"R": 0.0009765625}):
        out.append({"prior": OLDROWS[:2], "calls": [{**base, **ch}]})
    unset = [list(p) for p in ev0]
    unset[1][4] = None
    out.append({"prior": None, "calls": [{**base, "events": [ev1, unset]}]})
    return out


def search(ctx):
    """property oracle on the real code: the targeted probes first (see `probes`), then small random cases; the
    first failing case is shrunk"""
    found, n = [], 0
    budget = 200 if ctx.quick else 2000

    def stream():
        for c in probes():
            yield c
        for i in range(budget):
            yield gen_case(ctx.rng, small=True)
    for c in stream():
        n += 1
        try:
            msg = oracle(c)
        except Exception as e:
            msg = f"oracle crashed: {type(e).__name__}: {e}"
        if msg:
            c = shrink(c)
            found.append(Failure(c, "property oracle fails on the implementation", on_impl=oracle(c)))
            break
    return found, n


def shrink(case):
    cur, changed = case, True
    while changed:
        changed = False
        for cand in _smaller(cur):
            try:
                if oracle(cand):
                    cur, changed = cand, True
                    break
            except Exception:
                pass
    return cur


def _smaller(c):
    calls = c["calls"]
    if len(calls) > 1:
        for i in range(len(calls)):
            yield {**c, "calls": calls[:i] + calls[i + 1:]}
    for flag in ("readtwice", "prior_nonl", "samelist", "reuse"):       # the history flags, one at a time
        if c.get(flag):
            yield {k: v for k, v in c.items() if k != flag}
    if c["prior"]:
        for i in range(len(c["prior"])):
            yield {**c, "prior": c["prior"][:i] + c["prior"][i + 1:]}
    def with_call(i, call):
        return {**c, "calls": calls[:i] + [call] + calls[i + 1:]}
    for i, call in enumerate(calls):
        evs = call["events"]
        for k in range(len(evs)):
            if len(evs) > 1:
                yield with_call(i, {**call, "events": evs[:k] + evs[k + 1:]})
        for k, ev in enumerate(evs):
            for j in range(len(ev)):
                yield with_call(i, {**call, "events": evs[:k] + [ev[:j] + ev[j + 1:]] + evs[k + 1:]})
        base = {k: v for k, v in call.items() if k != "boundary"}
        for flag in ("num_as", "same_event"):
            if call.get(flag):
                yield with_call(i, {k: v for k, v in base.items() if k != flag})
        if call.get("defaults"):
            yield with_call(i, {k: v for k, v in base.items() if k != "defaults"})
        if call["eta"] != [None, None]:
            yield with_call(i, {**base, "eta": [None, None]})
        if call["pt"] != [None, None]:
            yield with_call(i, {**base, "pt": [None, None]})
        if call["alg"] != "antikt" and not call.get("defaults"):
            yield with_call(i, {**base, "alg": "antikt"})
        if call["R"] != 0.5:
            yield with_call(i, {**base, "R": 0.5})
        if call["charged"] and not call.get("defaults"):
            yield with_call(i, {**base, "charged": False})


LEVEL_TEXT = ("Theorems (Coq, closed under the global context, for ALL prior file contents, event lists, radii, windows, "
              "bounds and both switches, any clustering/accessor/dR functions): after perform_jet_finding the file exists "
              "and holds exactly the rows of the jets with pT >= lower bound and eta inside the re-ordered window, "
              "momentum = clustered minus the negative-status particles with dR < R, omitted iff that pT >= upper bound, "
              "associated = non-negative-status (charged only if requested) particles with dR < R in event order, each "
              "with its event index - independent of the prior content and of which events have jets (induction over "
              "the event list with the file state as invariant); read_jet_data on those rows returns them jet by jet; "
              "rejected inputs (R <= 0, negative bound, unset status) are characterised. TIE TO THE SOURCE: the bodies of "
              "__init__, __initialize_and_check_parameters, create_fastjet_PseudoJets, fill_associated_particles, "
              "jet_hole_subtraction, write_jet_output, perform_jet_finding and read_jet_data are re-translated from the "
              "current JetAnalysis.py on every run (statements, operators, constants, argument order, defaults, file "
              "modes, row layouts, parsed column types) and the hand model is proved EQUAL to them for all arguments "
              "(C20_source_defaults/params/pseudojets/fill/hole_subtraction/write/perform/read, + C20_source_example), so "
              "the property theorems are about what the source says now. The hand model is also run against the real "
              "code on every run, with fastjet queried by the harness for the oracle data.")
LEVEL_NOTE = ("PARTIAL BY NATURE: the clustering, the perp/eta/phi accessors, delta_phi_to and sqrt are fastjet's/numpy's - "
              "oracles (section variables) that the harness fills with fastjet's own answers (same algorithm and R, ptmin 0, "
              "no selector); nothing is proved about them. Trusted besides: Coq kernel/vm_compute; the translator "
              "gen_jets.py with its runtime Model/JetsRt.v (the reading of the Python/csv/file/fastjet primitives; the file "
              "system as a value); exact arithmetic instead of IEEE rounding; `perp() < bound` against the model's "
              "comparison on squares under the hypothesis that perp() is the exact non-negative root on the compared jets. "
              "Hand-written and only corresponded (no source theorem): get_jets / get_associated_particles, the genkt "
              "branch, the state of the object after an exception.")
TECHNIQUE = ("Coq proof by induction over the event list (inner induction over the jets of an event) with the file "
             "content as invariant, and over the written jets for the reader; fail-closed Python-ast translation of the "
             "JetAnalysis method bodies into Gallina (exception / file-state monads, loops as folds with the carried "
             "variables) and proofs of equality with the hand model (loop invariants by induction, case analysis on the "
             "guards, nra for the comparison on squares); vm_compute correspondence of the hand model against the real "
             "code with fastjet-provided oracle tables; targeted probes for the extracted constants and branches")

"""C03 - every filter of sparkx.Filter keeps exactly what its documented predicate selects."""
import json, math, os, copy, warnings
import numpy as np
import common as C
from common import Failure, coq_list

ID = "C03"
GEN = ["gen_filters"]
EXTRA_PROPERTY_FILES = ["C03Inf"]     # window filters with explicit infinite float limits (float('inf'), numpy.float64 inf), in either order
ALLOWED_AXIOMS = []
TRUSTED = [
    "Coq 8.16.1 kernel + vm_compute (no native_compute)",
    "translator tools/py2coq/gen_filters.py + pyfrag.py: its reading of the Python fragment Filter.py is written in "
    "(statement order, loop-carried variables through fold_leftM, short-circuit and/or, chained comparison, "
    "isinstance dispatch, int()/np.isnan/np.asarray/min/max/np.abs) - validated by this run's correspondence",
    "run-time model coq/Model/PyRt.v of the Python/numpy primitives the filters use (IEEE comparisons on the extended "
    "line, int(nan) raises, np.float64 is a float, np.int64 is not an int, `in` on arrays); inputs outside the modelled "
    "domain evaluate to Err Unmodelled and are counted, never agreed with",
    "a particle is its observation record (what each accessor returned on the real object); the accessors themselves "
    "are C08's subject, PDG classification is the third-party `particle` package",
    "float rounding is not modelled: only the event-energy sum does arithmetic (exact in the model; generated "
    "energies are dyadic so that the float sum is exact too)",
]
ASSUMPTIONS = [
    "theorems assume that the accessors a filter reads returned a value (no_raise); a raising accessor "
    "(spacetime_rapidity with |z| >= t: the documented ValueError) propagates - C03_raising_accessor_propagates",
    "in-place mutation/aliasing of the caller's list is not visible in the functional model; the correspondence "
    "compares returned lists by object identity and checks that no surviving particle was altered",
]

ACCS = [("A_" + n, n, False) for n in
        "t x y z mass E px py pz pdg ID charge ncoll form_time xsecfac proc_id_origin proc_type_origin t_last_coll "
        "pdg_mother1 pdg_mother2 status baryon_number strangeness weight".split()] + \
       [("M_" + n, n, True) for n in
        "rapidity p_abs pT_abs phi theta pseudorapidity spacetime_rapidity proper_time mT is_quark is_lepton is_meson "
        "is_baryon is_hadron is_heavy_flavor has_down has_up has_strange has_charm has_bottom has_top".split()]
EXN = ["TypeError", "ValueError", "IndexError", "KeyError", "AttributeError", "ZeroDivisionError", "OverflowError",
       "UnboundLocalError", "NotImplementedError"]

WINDOW_LIM = {"pT_cut": ("pT_abs", True, True), "mT_cut": ("mT", True, True)}
WINDOW_NUM = {"rapidity_cut": "rapidity", "pseudorapidity_cut": "pseudorapidity",
              "spacetime_rapidity_cut": "spacetime_rapidity"}
NOARG = {"charged_particles": "charge", "uncharged_particles": "charge", "participants": "ncoll",
         "spectators": "ncoll", "keep_hadrons": "is_hadron", "keep_leptons": "is_lepton", "keep_quarks": "is_quark",
         "keep_mesons": "is_meson", "keep_baryons": "is_baryon", "keep_up": "has_up", "keep_down": "has_down",
         "keep_strange": "has_strange", "keep_charm": "has_charm", "keep_bottom": "has_bottom",
         "keep_top": "has_top", "remove_photons": "pdg"}
IDS = ["particle_species", "remove_particle_species", "particle_status"]
ALL_FILTERS = sorted(list(WINDOW_LIM) + list(WINDOW_NUM) + list(NOARG) + IDS +
                     ["spacetime_cut", "lower_event_energy_cut", "multiplicity_cut"])
PDGS = [211, -211, 111, 2212, 2112, 22, 321, -321, 11, -13, 3122, 1, 2, 3, 4, 5, 6, 21, -2, 411, 521, 99999, 12345678,
        # self-conjugate mesons: the negative code is not a valid PDG code (both signs, in any order of creation, in one process)
        -111, 221, -221, 223, -223, 333, -333, 443, -443, -22, 130, -130, 310, -2212, -3122, -411]


# ----------------------------------------------------------------------------------------- values
def fhex(x):
    x = float(x)
    if x != x:
        return "nan"
    if x in (float("inf"), float("-inf")):
        return "inf" if x > 0 else "-inf"
    return x.hex()


def funhex(s):
    if s in ("nan", "inf", "-inf"):
        return float(s)
    return float.fromhex(s)


def fval(x):
    """Coq Fval of a Python number"""
    x = float(x)
    if x != x:
        return "NaN"
    if x == float("inf"):
        return "PInf"
    if x == float("-inf"):
        return "NInf"
    return f"(Fin {C.q(x)})"


def py_arg(a):
    t = a["t"]
    if t == "none":
        return None
    if t == "bool":
        return bool(a["v"])
    if t == "int":
        return int(a["v"])
    if t == "float":
        return funhex(a["v"])
    if t == "str":
        return a["v"]
    if t == "npint":
        return np.int64(a["v"])
    if t == "npfloat":
        return np.float64(funhex(a["v"]))
    if t == "list":
        return [py_arg(x) for x in a["v"]]
    if t == "tuple":
        return tuple(py_arg(x) for x in a["v"])
    if t == "array":
        return np.array([py_arg(x) for x in a["v"]], dtype=(np.int64 if a["dtype"] == "int" else np.float64))
    if t == "dict":
        return {k: py_arg(v) for k, v in a["v"]}
    raise ValueError(t)


def coq_arg(a):
    t = a["t"]
    if t == "none":
        return "VNone"
    if t == "bool":
        return f"(VBool {C.coq_bool(a['v'])})"
    if t == "int":
        return f"(VInt {C.z(a['v'])})"
    if t == "float":
        return f"(VFloat {fval(funhex(a['v']))})"
    if t == "str":
        return f"(VStr {C.coq_str(a['v'])}%string)"
    if t == "npint":
        return f"(VNpInt {C.z(a['v'])})"
    if t == "npfloat":
        return f"(VNpFloat {fval(funhex(a['v']))})"
    if t in ("list", "tuple"):
        return f"({'VList' if t == 'list' else 'VTuple'} {coq_list([coq_arg(x) for x in a['v']])})"
    if t == "array":
        el = [{"t": "npint", "v": x["v"]} if a["dtype"] == "int" else {"t": "npfloat", "v": x["v"]} for x in a["v"]]
        return f"(VArr {coq_list([coq_arg(x) for x in el])})"
    if t == "dict":
        return "(VDict " + coq_list([f"({C.coq_str(k)}%string, {coq_arg(v)})" for k, v in a["v"]]) + ")"
    raise ValueError(t)


def A_none():
    return {"t": "none"}


def A_num(x):
    if isinstance(x, bool):
        return {"t": "bool", "v": x}
    if isinstance(x, (int, np.integer)):
        return {"t": "int", "v": int(x)}
    return {"t": "float", "v": fhex(x)}


def A_tuple(*xs):
    return {"t": "tuple", "v": list(xs)}


# ----------------------------------------------------------------------------------------- particles
def build_particle(spec):
    from sparkx.Particle import Particle
    with warnings.catch_warnings():
        warnings.simplefilter("ignore")
        if spec["mode"] == "setters":
            p = Particle()
            for k, v in spec["attrs"]:
                setattr(p, k, funhex(v) if isinstance(v, str) else v)
            return p
        return Particle(spec["format"], np.asarray(spec["values"]))


def build_events(case):
    return [[build_particle(s) for s in ev] for ev in case["events"]]


def observe(p):
    """what every accessor returns on the real object: {'A_charge': ('ret', 1.0) | ('raises', 'ValueError')}"""
    out = {}
    with warnings.catch_warnings():
        warnings.simplefilter("ignore")
        for coqn, name, is_meth in ACCS:
            try:
                v = getattr(p, name)
                if is_meth:
                    v = v()
                out[coqn] = ("ret", float(v))
            except Exception as e:
                out[coqn] = ("raises", exn_name(e))
    return out


def exn_name(e):
    for n in EXN:
        if type(e).__name__ == n:
            return n
    for n, cls in (("UnboundLocalError", UnboundLocalError), ("TypeError", TypeError), ("ValueError", ValueError),
                   ("IndexError", IndexError), ("KeyError", KeyError), ("AttributeError", AttributeError),
                   ("OverflowError", OverflowError), ("ZeroDivisionError", ZeroDivisionError),
                   ("NotImplementedError", NotImplementedError)):
        if isinstance(e, cls):
            return n
    return "Other:" + type(e).__name__


def coq_particle(pid, ob):
    rows = []
    for coqn, _, _ in ACCS:
        kind, v = ob[coqn]
        if kind == "raises":
            rows.append(f"{coqn} => Raises {v if v in EXN else 'Unmodelled'}")
        elif v == v:
            rows.append(f"{coqn} => Ret {fval(v)}")
    default = "" if len(rows) == len(ACCS) else " | _ => Ret NaN"
    return f"(mkP {pid} (fun a => match a with {' | '.join(rows)}{default} end))"


# ----------------------------------------------------------------------------------------- real code
def run_filter(case, events):
    import sparkx.Filter as F
    fn = getattr(F, case["filter"])
    args = [py_arg(a) for a in case["args"]]
    with warnings.catch_warnings():
        warnings.simplefilter("ignore")
        return fn(events, *args)


def run_impl(case):
    """-> {'ok': [[pid,...],...]} | {'exc': cls}; plus 'altered' when a particle object was modified"""
    events = build_events(case)
    ids, snaps = {}, {}
    n = 0
    for ev in events:
        for p in ev:
            ids[id(p)] = n
            snaps[n] = p.data_.copy()
            n += 1
    keep = [p for ev in events for p in ev]      # keep the objects alive (ids stay unique)
    # the process has a history: the same filter was applied just before to the charge-conjugate sample (every PDG code negated,
    # fresh particle objects) - whatever the library remembers between calls must not change the answer for THIS sample
    try:
        mirror = build_events(case)
        with warnings.catch_warnings():
            warnings.simplefilter("ignore")
            for ev in mirror:
                for p in ev:
                    v = p.pdg
                    if v == v:
                        p.pdg = -int(v)
        run_filter(case, mirror)
    except Exception:
        pass
    try:
        out = run_filter(case, [list(ev) for ev in events])
    except Exception as e:
        return {"exc": exn_name(e)}
    res = {"ok": [[ids.get(id(p), -1) for p in ev] for ev in out]}
    for p in keep:
        i = ids[id(p)]
        if not np.array_equal(p.data_, snaps[i], equal_nan=True):
            res["altered"] = i
    return res


# ----------------------------------------------------------------------------------------- property oracle
def _isnum(x):
    return isinstance(x, (int, float)) and not isinstance(x, bool) and not (isinstance(x, float) and x != x)


def _ext(lo, hi):
    a = float("-inf") if lo is None else lo
    b = float("inf") if hi is None else hi
    return min(a, b), max(a, b)


def _ids(x):
    """the documented id argument: int, or list/tuple/int-array of ints -> set of ints; else None"""
    if isinstance(x, bool):
        return None
    if isinstance(x, int):
        return {x}
    if isinstance(x, (list, tuple)):
        if all(isinstance(v, int) and not isinstance(v, bool) and abs(v) < 2**63 for v in x):
            return set(x)
        return None
    if isinstance(x, np.ndarray) and x.ndim == 1 and np.issubdtype(x.dtype, np.integer):
        return set(int(v) for v in x)
    return None


RAW_ATTRS = ["t", "x", "y", "z", "mass", "E", "px", "py", "pz", "pdg", "ID", "charge", "ncoll", "form_time", "xsecfac",
             "proc_id_origin", "proc_type_origin", "t_last_coll", "pdg_mother1", "pdg_mother2", "status", "baryon_number",
             "strangeness", "weight"]
RAW_SLOT = dict(zip(RAW_ATTRS, [0, 1, 2, 3, 4, 5, 6, 7, 8, 9, 11, 12, 13, 14, 15, 16, 17, 18, 19, 20, 21, 22, 23, 24]))
# the documented column order of the line formats (the file headers), not Particle.py's mapping table
COLUMNS = {"Oscar2013": RAW_ATTRS[:12],
           "Oscar2013Extended": RAW_ATTRS[:20] + ["baryon_number", "strangeness"],
           "JETSCAPE": ["ID", "pdg", "status", "E", "px", "py", "pz"]}
REAL_COLS = {"t", "x", "y", "z", "mass", "E", "px", "py", "pz", "form_time", "xsecfac", "t_last_coll", "weight"}


def raw_of(spec):
    """the attribute values a particle of this case has, from the case data alone ({attr: float}, nan = not given)"""
    R = {a: float("nan") for a in RAW_ATTRS}
    if spec["mode"] == "setters":
        for k, v in spec["attrs"]:
            R[k] = funhex(v) if isinstance(v, str) else float(v)
        return R
    cols = COLUMNS[spec["format"]]
    for a, v in zip(cols, spec["values"]):
        R[a] = float(v) if a in REAL_COLS else float(int(v))
    if spec["format"] == "JETSCAPE":          # no charge column: the charge of the species (PDG numbering scheme)
        from particle import PDGID
        code = PDGID(int(R["pdg"]))
        if code.is_valid and code.charge is not None:
            R["charge"] = float(code.charge)
    return R


def raw_of_object(p):
    """fallback when the case data are not at hand (objects handed in by another module): the raw storage slots"""
    return {a: float(p.data_[RAW_SLOT[a]]) for a in RAW_ATTRS}


def _fin(*xs):
    return all(math.isfinite(x) for x in xs)


def reference(acc, R):
    """the quantity a filter's predicate is stated in, from the raw values by its definition:
    ('val', v) | ('nan',) a needed input is not given / unphysical: undefined | ('raise',) the documented ValueError (|z| >= t) |
    ('unphys',) |pz| > E: NaN or the documented ValueError | ('defer',) outside the domain in which the definition pins
    the value (non-finite inputs, the regulated singular directions): whatever the accessor returns"""
    with np.errstate(all="ignore"):
        if acc in ("t", "x", "y", "z", "E", "charge", "ncoll", "status", "pdg"):
            return ("nan",) if math.isnan(R[acc]) else ("val", R[acc])
        if acc == "pT_abs":
            px, py = R["px"], R["py"]
            if math.isnan(px) or math.isnan(py):
                return ("nan",)
            return ("val", math.sqrt(px * px + py * py)) if _fin(px, py) else ("defer",)
        if acc in ("mT", "rapidity"):
            E, pz = R["E"], R["pz"]
            if math.isnan(E) or math.isnan(pz):
                return ("nan",)
            if not _fin(E, pz) or E < 0:
                return ("defer",)
            if acc == "mT":
                if abs(pz) > E:
                    return ("unphys",)
                return ("val", math.sqrt(E * E - pz * pz))
            if abs(E - abs(pz)) <= 1.0000001e-9:
                return ("defer",)
            if abs(pz) > E:
                return ("unphys",)
            return ("val", 0.5 * math.log((E + pz) / (E - pz)))
        if acc == "pseudorapidity":
            px, py, pz = R["px"], R["py"], R["pz"]
            if math.isnan(px) or math.isnan(py) or math.isnan(pz):
                return ("nan",)
            if not _fin(px, py, pz):
                return ("defer",)
            p = math.sqrt(px * px + py * py + pz * pz)
            if p - abs(pz) <= 1.0000001e-9 or px * px + py * py <= 1e-12:
                return ("defer",)
            return ("val", 0.5 * math.log((p + pz) / (p - pz)))
        if acc == "spacetime_rapidity":
            t, z = R["t"], R["z"]
            if math.isnan(t) or math.isnan(z):
                return ("nan",)
            if not (t > abs(z)):
                return ("raise",)
            if not _fin(t, z):
                return ("defer",)
            return ("val", 0.5 * math.log((t + z) / (t - z)))
    raise KeyError(acc)


class _Silent(Exception):
    """the property does not say what happens on this input"""


def expected(case, events, specs=None):
    """documented outcome as lists of particle objects, or None when the property is silent
    (inadmissible arguments, an accessor that raises by documentation).  The quantities come from the case data
    (`specs`, default case['events']) through `reference`; the objects' own accessors are consulted only to take over
    the last bits of a value that agrees with its definition (so that cut values lying exactly on a particle's quantity
    stay exactly on it) and in the zones where the definitions do not pin a value"""
    name = case["filter"]
    args = [py_arg(a) for a in case["args"]]
    specs = case.get("events") if specs is None else specs
    raws = {}
    if specs is not None and [len(e) for e in specs] == [len(e) for e in events] and any(len(e) for e in events):
        for ev, sv in zip(events, specs):
            for p, s in zip(ev, sv):
                raws[id(p)] = raw_of(s)

    def accessor(p, acc):
        with warnings.catch_warnings():
            warnings.simplefilter("ignore")
            v = getattr(p, acc)
            return v() if callable(v) else v

    def quantity(p, acc):
        R = raws.get(id(p))
        if R is None:
            R = raws[id(p)] = raw_of_object(p)
        ref = reference(acc, R)
        if ref[0] == "nan":
            return float("nan")
        if ref[0] == "raise":
            raise _Silent()
        if ref[0] == "unphys":
            try:
                accessor(p, acc)
            except ValueError:
                raise _Silent()
            except Exception:
                pass
            return float("nan")
        if ref[0] == "defer":
            try:
                return accessor(p, acc)
            except ValueError:
                raise _Silent()
        v = ref[1]
        if acc in ("pT_abs", "mT", "rapidity", "pseudorapidity", "spacetime_rapidity"):
            try:
                w = float(accessor(p, acc))
            except Exception:
                return v
            if acc in ("pT_abs", "mT"):       # lengths: through the squares (C08's form of the comparison)
                sq = (R["px"] ** 2 + R["py"] ** 2) if acc == "pT_abs" else (R["E"] ** 2 - R["pz"] ** 2)
                big = sq if acc == "pT_abs" else R["E"] ** 2
                ok = math.isfinite(w) and w >= 0 and abs(w * w - sq) <= 3e-9 * sq + 1e-15 * big
            else:
                ok = math.isfinite(w) and abs(w - v) <= 1e-9 * max(1.0, abs(v))
            if ok:
                return w          # the accessor's own rounding of the defined value
        return v

    def particle_level(pred):
        return [[p for p in ev if pred(p)] for ev in events]

    def event_level(epred):
        out = [ev for ev in events if epred(ev)]
        return out if out else [[]]

    def window(acc, lo, hi):
        a, b = _ext(lo, hi)

        def pred(p):
            v = quantity(p, acc)
            return (not math.isnan(v)) and a <= v <= b
        return particle_level(pred)
    try:
        if name in WINDOW_LIM or name == "spacetime_cut" or name == "multiplicity_cut":
            if name == "spacetime_cut":
                if len(args) != 2 or args[0] not in ("t", "x", "y", "z"):
                    return None
                acc, tup, nonneg = args[0], args[1], False
            else:
                if len(args) != 1:
                    return None
                tup = args[0]
                acc, nonneg = (WINDOW_LIM[name][0], True) if name in WINDOW_LIM else (None, True)
            if not (isinstance(tup, tuple) and len(tup) == 2 and all(v is None or _isnum(v) for v in tup)
                    and not (tup[0] is None and tup[1] is None)):
                return None
            if nonneg and any(v is not None and v < 0 for v in tup):
                return None
            if name == "multiplicity_cut":
                a, b = _ext(*tup)
                return event_level(lambda ev: a <= len(ev) < b)
            return window(acc, tup[0], tup[1])
        if name in WINDOW_NUM:
            c = args[0]
            if isinstance(c, tuple):
                if not (len(c) == 2 and all(_isnum(v) for v in c)):
                    return None
                return window(WINDOW_NUM[name], c[0], c[1])
            if not _isnum(c):
                return None
            return window(WINDOW_NUM[name], -abs(c), abs(c))
        if name in ("charged_particles", "participants"):
            acc = NOARG[name]
            return particle_level(lambda p: not math.isnan(quantity(p, acc)) and quantity(p, acc) != 0)
        if name in ("uncharged_particles", "spectators"):
            acc = NOARG[name]
            return particle_level(lambda p: not math.isnan(quantity(p, acc)) and quantity(p, acc) == 0)
        if name.startswith("keep_"):
            # class / quark content straight from the PDG numbering scheme (the `particle` package), not through the Particle
            # accessors: a particle is kept iff its PDG code is set, valid, and has the property
            from particle import PDGID
            acc = NOARG[name]

            def in_class(p):
                raw = quantity(p, "pdg")
                if math.isnan(raw):
                    return False
                code = PDGID(int(raw))
                return bool(code.is_valid) and bool(getattr(code, acc) == True)
            return particle_level(in_class)
        if name == "remove_photons":
            return particle_level(lambda p: not math.isnan(quantity(p, "pdg")) and int(quantity(p, "pdg")) != 22)
        if name in ("particle_species", "remove_particle_species"):
            s = _ids(args[0])
            if s is None:
                return None
            if name == "particle_species":
                return particle_level(lambda p: not math.isnan(quantity(p, "pdg")) and int(quantity(p, "pdg")) in s)
            return particle_level(lambda p: not math.isnan(quantity(p, "pdg")) and int(quantity(p, "pdg")) not in s)
        if name == "particle_status":
            s = _ids(args[0])
            if s is None:
                return None
            return particle_level(lambda p: not math.isnan(quantity(p, "status")) and quantity(p, "status") in s)
        if name == "lower_event_energy_cut":
            thr = args[0]
            if not (_isnum(thr) and thr > 0):
                return None

            def etot(ev):
                tot = 0
                for p in ev:
                    e = quantity(p, "E")
                    if not math.isnan(e):
                        tot = tot + e
                return tot
            return event_level(lambda ev: etot(ev) >= thr)
    except _Silent:
        return None        # the documented ValueError of an accessor (unphysical kinematics): the property does not say
    raise ValueError("no oracle for " + name)


def oracle(case):
    """C03 on the real code for this input: the returned lists are exactly the documented selection, by identity"""
    try:
        events = build_events(case)
    except Exception as e:
        return (f"the input particles cannot even be built: Particle(...) raises {type(e).__name__}: {e} "
                f"(particle lists with valid and invalid PDG codes are inside the property's quantifier)")[:400]
    exp = expected(case, events)
    if exp is None:
        return None
    snaps = {id(p): p.data_.copy() for ev in events for p in ev}
    pid = {}
    for ev in events:
        for p in ev:
            pid[id(p)] = len(pid)
    want = [[pid[id(p)] for p in ev] for ev in exp]
    desc = f"{case['filter']}({', '.join(repr(py_arg(a)) for a in case['args'])}) on {len(events)} event(s) " \
           f"of sizes {[len(e) for e in events]}"
    # the process has a history (as in run_impl): the same filter was just applied to the charge-conjugate sample built from
    # fresh objects, and the call itself is made twice on the same particle objects (fresh outer lists) - whatever the
    # library keeps between calls or between objects must not change the answer
    try:
        mirror = build_events(case)
        with warnings.catch_warnings():
            warnings.simplefilter("ignore")
            for ev in mirror:
                for p in ev:
                    v = p.pdg
                    if v == v:
                        p.pdg = -int(v)
        run_filter(case, mirror)
    except Exception:
        pass
    for again in ("", " [second call on the same particle objects]"):
        try:
            out = run_filter(case, [list(ev) for ev in events])
        except Exception as e:
            return f"{desc}: raises {type(e).__name__}: {e}; documented selection is {want}{again}"
        got = [[pid.get(id(p), -1) for p in ev] for ev in out]
        if got != want:
            return f"{desc}: returns particles {got} (by position in the input), documented selection is {want}{again}"
    for ev in events:
        for p in ev:
            if not np.array_equal(p.data_, snaps[id(p)], equal_nan=True):
                return f"{desc}: particle {pid[id(p)]} was altered by the filter"
    return None


# ----------------------------------------------------------------------------------------- generators
def dy(rng, lo=-4, hi=4, den=8):
    return rng.randint(lo * den, hi * den) / den


def gen_particle(rng):
    mode = rng.random()
    if mode < 0.7:
        attrs = []
        names = ["t", "x", "y", "z", "mass", "E", "px", "py", "pz", "pdg", "ID", "charge", "ncoll", "status"]
        p_set = rng.choice([0.35, 0.6, 0.85, 1.0])
        for n in names:
            if rng.random() > p_set:
                continue
            if n == "t":
                v = dy(rng, 0, 6)
            elif n == "E":
                v = dy(rng, 0, 6)
            elif n == "pdg":
                v = rng.choice(PDGS)
            elif n == "ID":
                v = rng.randint(0, 50)
            elif n == "charge":
                v = rng.choice([-2, -1, 0, 0, 1, 1, 2])
            elif n == "ncoll":
                v = rng.choice([0, 0, 1, 2, 5])
            elif n == "status":
                v = rng.choice([0, 1, 2, 11, 12, -1, 27])
            elif n == "mass":
                v = dy(rng, 0, 2)
            else:
                v = dy(rng)
            attrs.append([n, fhex(v) if isinstance(v, float) else v])
        if rng.random() < 0.06 and attrs:
            k = rng.randrange(len(attrs))
            if attrs[k][0] not in ("pdg", "ID", "charge", "ncoll", "status"):
                attrs[k][1] = rng.choice(["inf", "-inf", "nan"])
        return {"mode": "setters", "attrs": attrs}
    t = dy(rng, 1, 6)
    z = dy(rng, -1, 1) if rng.random() < 0.85 else dy(rng, -8, 8)
    base = [t, dy(rng), dy(rng), z, dy(rng, 0, 2), dy(rng, 0, 6), dy(rng), dy(rng), dy(rng)]
    pdg = rng.choice(PDGS)
    if mode < 0.82:
        vals = [repr(v) for v in base] + [str(pdg), str(rng.randint(0, 50)), str(rng.choice([-1, 0, 1, 2]))]
        return {"mode": "array", "format": "Oscar2013", "values": vals}
    if mode < 0.92:
        vals = [repr(v) for v in base] + [str(pdg), str(rng.randint(0, 50)), str(rng.choice([-1, 0, 1])),
                                          str(rng.choice([0, 0, 1, 3])), repr(dy(rng, 0, 2)), "1.0", "0", "0",
                                          repr(dy(rng, 0, 2)), "0", "0", str(rng.choice([0, 1])), str(rng.choice([0, -1]))]
        return {"mode": "array", "format": "Oscar2013Extended", "values": vals}
    vals = [str(rng.randint(0, 50)), str(pdg), str(rng.choice([0, 1, 11, 27])), repr(dy(rng, 0, 6)), repr(dy(rng)),
            repr(dy(rng)), repr(dy(rng))]
    return {"mode": "array", "format": "JETSCAPE", "values": vals}


def gen_events(rng, small=False):
    nev = rng.choice([0, 1, 1, 2, 2, 3, 3, 4]) if not small else rng.choice([0, 1, 2, 2, 3])
    evs = []
    for _ in range(nev):
        m = rng.choice([0, 1, 2, 3, 3, 4, 5]) if not small else rng.choice([0, 1, 2, 3])
        evs.append([gen_particle(rng) for _ in range(m)])
    return evs


def _quantities(events_spec, acc):
    vals = []
    for ev in events_spec:
        for s in ev:
            try:
                p = build_particle(s)
            except Exception:
                continue                     # (a constructor that raises is reported by the oracle, not by the generator)
            try:
                with warnings.catch_warnings():
                    warnings.simplefilter("ignore")
                    v = getattr(p, acc)
                    v = v() if callable(v) else v
                if v == v and abs(v) != float("inf"):
                    vals.append(float(v))
            except Exception:
                pass
    return vals


def gen_limit(rng, pool, nonneg):
    r = rng.random()
    q = rng.random()
    if q < 0.03:                                   # an infinite limit (a number; the same window as None on that side)
        return A_num(float("inf") if nonneg or rng.random() < 0.5 else float("-inf"))
    if pool and r < 0.5:
        v = rng.choice(pool)                       # exactly on a boundary
        if nonneg:
            v = abs(v)
        if q < 0.10 and isinstance(v, float):      # the same number as a numpy scalar (np.float64 is a float)
            return {"t": "npfloat", "v": fhex(v)}
        return A_num(v)
    if r < 0.75:
        return A_num(rng.randint(0 if nonneg else -4, 5))
    return A_num(dy(rng, 0 if nonneg else -4, 5))


def gen_ids(rng, pool, kind):
    k = rng.choice([1, 1, 2, 3, 0]) if kind != "scalar" else 1
    ids = [rng.choice(pool) for _ in range(k)]
    if kind == "scalar":
        return A_num(ids[0])
    if kind == "array":
        return {"t": "array", "dtype": "int", "v": [A_num(i) for i in ids]}
    return {"t": kind, "v": [A_num(i) for i in ids]}


def gen_case(rng, small=False, filt=None, admissible_only=False):
    name = filt or rng.choice(ALL_FILTERS)
    events = gen_events(rng, small)
    bad = (not admissible_only) and rng.random() < 0.12
    return {"filter": name, "args": gen_args(rng, name, events, bad), "events": events}


def gen_args(rng, name, events, bad=False):
    """arguments for filter `name` on these events (limits taken from the particles' quantities half of the time)"""
    args = []
    if name in WINDOW_LIM or name in ("spacetime_cut", "multiplicity_cut"):
        if name == "spacetime_cut":
            d = rng.choice(["t", "x", "y", "z"])
            acc, nonneg = d, False
            args.append({"t": "str", "v": d if not (bad and rng.random() < 0.3) else rng.choice(["w", "T", ""])})
        elif name == "multiplicity_cut":
            acc, nonneg = None, True
        else:
            acc, nonneg = WINDOW_LIM[name][0], True
        pool = _quantities(events, acc) if acc else [float(len(e)) for e in events] + [float(len(e) + 1) for e in events]
        if acc is None:
            pool = [int(v) for v in pool]
        lo = A_none() if rng.random() < 0.25 else gen_limit(rng, pool, nonneg)
        hi = A_none() if rng.random() < 0.25 else gen_limit(rng, pool, nonneg)
        if lo["t"] == "none" and hi["t"] == "none" and not bad:
            hi = gen_limit(rng, pool, nonneg)
        tup = A_tuple(lo, hi)
        if bad:
            tup = rng.choice([A_tuple(A_none(), A_none()), {"t": "list", "v": [lo, hi]}, A_tuple(lo), A_tuple(lo, hi, hi),
                              A_tuple(A_num(-1), hi), A_tuple({"t": "str", "v": "a"}, hi), A_num(3), A_none(), tup])
        args.append(tup)
    elif name in WINDOW_NUM:
        pool = _quantities(events, WINDOW_NUM[name])
        if rng.random() < 0.5:
            arg = A_tuple(gen_limit(rng, pool, False), gen_limit(rng, pool, False))
        else:
            arg = gen_limit(rng, pool, False)
        if bad:
            arg = rng.choice([A_tuple(A_none(), gen_limit(rng, pool, False)), {"t": "str", "v": "1"}, A_none(),
                              {"t": "list", "v": [A_num(1), A_num(2)]}, A_tuple(A_num(1)), arg])
        args.append(arg)
    elif name in IDS:
        pool = PDGS if name != "particle_status" else [0, 1, 2, 11, 12, -1, 27, 5]
        kind = rng.choice(["scalar", "list", "tuple", "array"])
        arg = gen_ids(rng, pool, kind)
        if bad:
            arg = rng.choice([{"t": "float", "v": fhex(211.0)}, {"t": "npint", "v": 211}, {"t": "str", "v": "211"},
                              {"t": "float", "v": "nan"}, A_none(), {"t": "bool", "v": True},
                              {"t": "list", "v": [A_num(211), {"t": "float", "v": "nan"}]},
                              {"t": "list", "v": [{"t": "float", "v": fhex(1.0)}, A_num(0)]},
                              {"t": "array", "dtype": "float", "v": [{"t": "float", "v": fhex(1.0)}]},
                              {"t": "list", "v": [{"t": "str", "v": "1"}]}, arg])
        args.append(arg)
    elif name == "lower_event_energy_cut":
        tots = []
        for ev in events:
            es = _quantities([ev], "E")
            tots.append(sum(es))
        r = rng.random()
        if tots and r < 0.5:
            thr = rng.choice(tots)
            arg = A_num(thr if thr > 0 else 1.5)
        elif r < 0.75:
            arg = A_num(rng.randint(1, 8))
        else:
            arg = A_num(dy(rng, 0, 8) or 0.5)
        if bad:
            arg = rng.choice([A_num(0), A_num(-1.5), {"t": "float", "v": "nan"}, A_none(), {"t": "str", "v": "1"},
                              {"t": "float", "v": "inf"}, arg])
        args.append(arg)
    return args


# ----------------------------------------------------------------------------------------- model side
PRELUDE = """From Coq Require Import List ZArith QArith String.
From SX Require Import Model.PyRt Gen.GenFilters.
Import ListNotations.
Local Open Scope Z_scope.
Definition exn_eqb (a b : exn) : bool :=
  match a, b with
  | TypeError, TypeError | ValueError, ValueError | IndexError, IndexError | KeyError, KeyError
  | AttributeError, AttributeError | ZeroDivisionError, ZeroDivisionError | OverflowError, OverflowError
  | UnboundLocalError, UnboundLocalError | NotImplementedError, NotImplementedError => true
  | _, _ => false
  end.
Fixpoint zl_eqb (a b : list Z) : bool :=
  match a, b with [], [] => true | x :: s, y :: t => (x =? y) && zl_eqb s t | _, _ => false end.
Fixpoint zll_eqb (a b : list (list Z)) : bool :=
  match a, b with [], [] => true | x :: s, y :: t => zl_eqb x y && zll_eqb s t | _, _ => false end.
(* 0 agree; 2 different selection; 3 different outcome kind; 4 different exception; 5 input outside the modelled domain *)
Definition chk (m : result (list (list pobs))) (i : result (list (list Z))) : nat :=
  match m, i with
  | Err Unmodelled, _ => 5%nat
  | Ok a, Ok b => if zll_eqb (map (map pid) a) b then 0%nat else 2%nat
  | Err a, Err b => if exn_eqb a b then 0%nat else 4%nat
  | _, _ => 3%nat
  end.
"""


def coq_case(idx, case, got):
    """-> (definitions, check term)"""
    events = build_events(case)
    defs, evs = [], []
    pid = 0
    for ev in events:
        names = []
        for p in ev:
            nm = f"c{idx}_p{pid}"
            defs.append(f"Definition {nm} := {coq_particle(pid, observe(p))}.")
            names.append(nm)
            pid += 1
        evs.append(coq_list(names))
    args = " ".join(coq_arg(a) for a in case["args"])
    if "ok" in got:
        exp = "(Ok " + coq_list([coq_list([C.z(i) for i in ev]) for ev in got["ok"]]) + ")"
    else:
        e = got["exc"]
        exp = f"(Err {e})" if e in EXN else "(Err Unmodelled)"
    return defs, f"(chk (gen_{case['filter']} {coq_list(evs)} {args}) {exp})"


def boundary_or_unset(c):
    """1 when a numeric cut value equals a particle's quantity exactly, or the quantity the filter needs is NaN somewhere"""
    name = c["filter"]
    acc = WINDOW_LIM.get(name, (None,))[0] or WINDOW_NUM.get(name) or NOARG.get(name) or \
        {"particle_species": "pdg", "remove_particle_species": "pdg", "particle_status": "status",
         "lower_event_energy_cut": "E"}.get(name)
    if name == "spacetime_cut":
        acc = c["args"][0]["v"] if c["args"][0]["v"] in ("t", "x", "y", "z") else None
    if acc is None:
        return 0
    lims = set()
    for a in c["args"]:
        for x in (a["v"] if a["t"] in ("tuple", "list") else [a]):
            if isinstance(x, dict) and x["t"] in ("int", "float"):
                lims.add(float(py_arg(x)))
    for ev in c["events"]:
        for sp in ev:
            p = build_particle(sp)
            try:
                with warnings.catch_warnings():
                    warnings.simplefilter("ignore")
                    v = getattr(p, acc)
                    v = float(v() if callable(v) else v)
            except Exception:
                continue
            if v != v or v in lims or -v in lims:
                return 1
    return 0


def corpus_cases():
    out = []
    d = os.path.join(C.VERIF, "corpus", ID)
    if os.path.isdir(d):
        for fn in sorted(os.listdir(d)):
            out.append(json.load(open(os.path.join(d, fn)))["case"])
    return out


def correspondence(ctx, model_ok=True):
    n = 1500 if ctx.quick else 14000
    cases = corpus_cases()
    # every filter with every documented argument shape at least a few times, then uniformly random
    for f in ALL_FILTERS:
        for _ in range(6):
            cases.append(gen_case(ctx.rng, filt=f, admissible_only=True))
    while len(cases) < n:
        cases.append(gen_case(ctx.rng))
    # cases whose particles cannot even be constructed on this tree are left to the property oracle (it reports them)
    unbuildable = []
    kept = []
    for c in cases:
        try:
            build_events(c)
            kept.append(c)
        except Exception:
            unbuildable.append(c)
    cases = kept
    gots = [run_impl(c) for c in cases]
    dist = {"per_filter": {}, "n_events": {}, "impl_raised": 0, "arg_shapes": {}, "boundary_or_unset": 0,
            "array_built_particles": 0}
    keys = set()
    for c, g in zip(cases, gots):
        dist["per_filter"][c["filter"]] = dist["per_filter"].get(c["filter"], 0) + 1
        dist["n_events"][len(c["events"])] = dist["n_events"].get(len(c["events"]), 0) + 1
        dist["impl_raised"] += "exc" in g
        for a in c["args"]:
            dist["arg_shapes"][a["t"]] = dist["arg_shapes"].get(a["t"], 0) + 1
        dist["array_built_particles"] += sum(1 for ev in c["events"] for s in ev if s["mode"] == "array")
        dist["boundary_or_unset"] += boundary_or_unset(c)
        if "ok" in g and any(len(e) for e in c["events"]):
            keys.add(json.dumps(c, sort_keys=True))
    out = {"evaluations": len(cases), "distinct_nontrivial": len(keys), "distribution": dist,
           "rule": "seeded random cases: one of the 27 filters x 0-4 events of 0-5 real Particle objects (built through "
                   "setters with random unset attributes / occasional inf, nan, or from Oscar2013, Oscar2013Extended, "
                   "JETSCAPE arrays) x arguments (None/int/float limits incl. values taken from the particles = exactly on "
                   "a boundary, swapped limits, scalar/list/tuple/array ids, ~12% inadmissible arguments); non-trivial = "
                   "implementation returned normally and at least one event is non-empty; distinct by canonical JSON. "
                   "The generated Gallina filter is evaluated on the observation records (vm_compute) and compared with "
                   "the real filter's returned lists event by event by particle identity, or by exception class",
           "samples": cases[:2], "model_runner": "Eval vm_compute in generated cases files (sharded coqc)",
           "failures": [], "broken": []}
    out["all_cases"] = cases          # the driver runs the property oracle on these as well
    for c in unbuildable[:3]:
        out["failures"].append(Failure(c, "the particles of this case cannot be constructed"))
    for c, g in zip(cases, gots):
        if "altered" in g:
            out["failures"].append(Failure(c, f"particle {g['altered']} was altered by the filter"))
    if not model_ok and not os.path.exists(os.path.join(C.COQ, "Gen", "GenFilters.v")):
        out["broken"].append({"what": "correspondence not run: Gen/GenFilters.v was not generated"})
        return out
    ok, log = C.make(["Gen/GenFilters.vo"])
    if not ok:
        out["broken"].append({"what": "generated model Gen/GenFilters.v does not build", "detail": log[-800:]})
        return out
    shard = 110
    files = []
    for i in range(0, len(cases), shard):
        defs, terms = [], []
        for j, (c, g) in enumerate(zip(cases[i:i + shard], gots[i:i + shard])):
            d, t = coq_case(i + j, c, g)
            defs += d
            terms.append(t)
        files.append((f"c03_{i // shard}", PRELUDE + "\n".join(defs) + "\nEval vm_compute in " + coq_list(terms) + ".\n"))
    res = C.coq_eval_many(ctx, files)
    codes = []
    for (ok, o), (name, _) in zip(res, files):
        if not ok:
            out["broken"].append({"what": f"cases file {name} failed to evaluate", "detail": o[-800:]})
            return out
        codes += C.parse_codes(o)
    if len(codes) != len(cases):
        out["broken"].append({"what": "cases output could not be parsed", "detail": f"{len(codes)} codes for {len(cases)} cases"})
        return out
    out["exact_agreements"] = sum(1 for c in codes if c == 0)
    out["traces_validated_against_impl"] = out["exact_agreements"]
    dist["outside_modelled_domain"] = sum(1 for c in codes if c == 5)
    names = {2: "different selection", 3: "one side raises, the other returns", 4: "different exception class"}
    for c, g, code in zip(cases, gots, codes):
        if code in names:
            out["failures"].append(Failure(c, f"{c['filter']}/{arg_kind(c)}: model and implementation disagree "
                                              f"({names[code]}): impl={g}"))
    if dist["outside_modelled_domain"] > 0.05 * len(cases):
        out["broken"].append({"what": "too many cases outside the modelled domain",
                              "detail": str(dist["outside_modelled_domain"])})
    return out


MODEL_INDEPENDENT_OF_PROOFS = True


# ----------------------------------------------------------------------------------------- search
def search(ctx):
    found, n = [], 0
    budget = 2500 if ctx.quick else 20000
    seen = set()
    for c in corpus_cases():
        n += 1
        if oracle(c):
            found.append(Failure(c, f"{c['filter']}/{arg_kind(c)}: corpus case fails the property oracle", on_impl=oracle(c)))
            seen.add((c["filter"], arg_kind(c)))
    for i in range(budget):
        # every filter in turn (a broken obligation does not say which filter changed), small and full-size samples alternating
        c = gen_case(ctx.rng, small=((i // len(ALL_FILTERS)) % 2 == 0), filt=ALL_FILTERS[i % len(ALL_FILTERS)],
                     admissible_only=(i % 5 != 0))
        if (c["filter"], arg_kind(c)) in seen:
            continue
        n += 1
        msg = oracle(c)
        if msg:
            c = shrink(c)
            found.append(Failure(c, f"{c['filter']}/{arg_kind(c)}: property oracle fails on the implementation",
                                 on_impl=oracle(c)))
            seen.add((c["filter"], arg_kind(c)))
    # one failure per distinct symptom first (the driver reports the first few)
    rank, cnt = [], {}
    for f in found:
        sym = (f.case["filter"], (f.on_impl or "").split(":")[1][:25] if ":" in (f.on_impl or "") else "")
        cnt[sym] = cnt.get(sym, 0) + 1
        rank.append(cnt[sym])
    found = [f for _, _, f in sorted(zip(rank, range(len(found)), found), key=lambda t: (t[0], t[1]))]
    return found, n


def arg_kind(c):
    return "+".join(a["t"] for a in c["args"]) or "noarg"


def shrink(case):
    cur = case
    changed = True
    while changed:
        changed = False
        for cand in _smaller(cur):
            try:
                if oracle(cand):
                    cur, changed = cand, True
                    break
            except Exception:
                pass
    return cur


def _smaller(c):
    evs = c["events"]
    for i in range(len(evs)):
        yield dict(c, events=evs[:i] + evs[i + 1:])
    for i, ev in enumerate(evs):
        for j in range(len(ev)):
            yield dict(c, events=evs[:i] + [ev[:j] + ev[j + 1:]] + evs[i + 1:])
    for i, ev in enumerate(evs):
        for j, s in enumerate(ev):
            if s["mode"] == "setters":
                for k in range(len(s["attrs"])):
                    s2 = {"mode": "setters", "attrs": s["attrs"][:k] + s["attrs"][k + 1:]}
                    yield dict(c, events=evs[:i] + [ev[:j] + [s2] + ev[j + 1:]] + evs[i + 1:])
    for k, a in enumerate(c["args"]):
        if a["t"] in ("list", "tuple", "array") and len(a["v"]) > 1 and c["filter"] in IDS:
            for m in range(len(a["v"])):
                a2 = dict(a, v=a["v"][:m] + a["v"][m + 1:])
                yield dict(c, args=c["args"][:k] + [a2] + c["args"][k + 1:])


LEVEL_TEXT = ("Theorems (Coq, all event lists, all admissible arguments): each of the 27 filter functions of Filter.py "
              "and the limit-validation helper, translated from the source on every run, returns exactly "
              "map (filter pred) (particle level) resp. filter epred with the [[]] convention (event level) for its "
              "documented predicate on the extended line (None = unbounded, either limit order, NaN never passes, a "
              "single number = symmetric window, [min,max) multiplicity, total energy >= threshold); corollaries: "
              "order/identity/no duplication, one output event per input event, scalar/list/tuple/array agreement, "
              "rejected arguments. The generated functions are run against the real filters on every run.")
LEVEL_NOTE = ("Trusted: Coq kernel/vm_compute; the translator (pyfrag/gen_filters) and the run-time model PyRt.v, both tied "
              "by correspondence; particles are observation records (accessor results), accessors are C08's subject; "
              "theorems assume the accessors read do not raise (space-time rapidity with |z|>=t raises by documentation "
              "and the filter propagates it); float rounding only matters for the energy sum and is not modelled; "
              "aliasing/in-place mutation checked by the harness, not by the theorems.")
TECHNIQUE = ("Coq proof per filter about Gallina regenerated from Filter.py by a fail-closed Python-ast translator: "
             "argument handling by computation on constructor-shaped arguments, loops by invariant lemmas "
             "(fold_leftM = map/filter), per-particle conditions by case split on the value constructors and lra on Q; "
             "vm_compute correspondence of the generated functions against the real filters")

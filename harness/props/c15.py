"""C15 - Jackknife: schedule independence and the delete-d formula (Jackknife.py)."""
import json, math, os, random, time
from fractions import Fraction
import numpy as np
import common as C
from common import Failure, q, coq_list

ID = "C15"
GEN = ["gen_jackknife", "gen_jackknife_methods"]
EXTRA_PROPERTY_FILES = ["SrcJackknife"]     # Jackknife.py method bodies regenerated and proved equal to Model/Pool.v
SOURCE_TIE_NOTE = 'see LEVEL_NOTE (gen_jackknife_methods, Properties/SrcJackknife.v, 19 theorems)'
ALLOWED_AXIOMS = C.STD_REAL_AXIOMS
MODEL_INDEPENDENT_OF_PROOFS = True      # Model/Pool.v contains no proofs
TRUSTED = [
    "Coq 8.16.1 kernel + vm_compute (no native_compute)",
    "translator tools/py2coq/gen_jackknife.py (ratexpr extractor): number of deleted points, task seed, variance summand and "
    "scaling factor with its `delete_n_points == 1` chain; the bodies of _helper_unpack, _compute_one_jackknife_sample, "
    "_randomly_delete_data, _apply_function_to_reduced_data and the starmap call are compared textually",
    "hand model coq/Model/Pool.v (workers with private generator states, any schedule, results by index, driver), tied by "
    "this run's correspondence",
    "oracle rng_sample: random.seed(s); random.sample(range(n), d) is a deterministic function of (s, n, d) - recomputed "
    "in-process by the harness and handed to the model as a table",
    "multiprocessing.Pool / fork / pickling / the OS scheduler are NOT modelled: covered only by the perturbed runs of the "
    "real pool in the correspondence (num_cores 1..16, data-dependent sleeps, scrambled generator states, repeated calls)",
    "exact arithmetic instead of IEEE rounding (np.mean, the variance loop, sqrt)",
]
ASSUMPTIONS = [
    "the statistic is a pure function of the reduced data (no use of the global random generator, no mutation)",
    "worker processes do not share the generator state (processes, not threads): a task is atomic on its worker",
    "C15_*_R theorems depend on the stdlib real-number axioms only",
    "'the data array is not modified' is vacuous in a functional model: checked on the real arrays by snapshots in the correspondence",
]

NAP = 0.0006


def _nap(x):
    """data-dependent delay: perturbs the completion order of the tasks"""
    time.sleep(NAP * (int(abs(float(np.sum(x))) * 4) % 6))


def st_size(x):
    return float(len(x))


def st_sum(x):
    return float(np.sum(x))


def st_mean(x):
    return float(np.mean(x))


def st_meansq(x):
    return float(np.mean(x * x))


def st_wmean(x):
    return float(np.sum(x[:, 0] * x[:, 1]) / np.sum(x[:, 1]))


def st_scaledmean(x, weight=1.0):
    return float(np.mean(x) * weight)


def st_sum_nap(x):
    _nap(x)
    return float(np.sum(x))


def st_mean_nap(x):
    _nap(x)
    return float(np.mean(x))


def st_meansq_nap(x):
    _nap(x)
    return float(np.mean(x * x))


def st_wmean_nap(x):
    _nap(x)
    return float(np.sum(x[:, 0] * x[:, 1]) / np.sum(x[:, 1]))


def st_scaledmean_nap(x, weight=1.0):
    _nap(x)
    return float(np.mean(x) * weight)


HOMOGENEOUS = {"sum", "mean", "wmean", "scaledmean"}


def stat_fn(case):
    return globals()["st_" + case["stat"] + ("_nap" if case.get("sleep") else "")]


def _jk_classes():
    from sparkx.Jackknife import Jackknife

    global ScrambledJackknife
    if "ScrambledJackknife" not in globals():
        class ScrambledJackknife(Jackknife):
            """workers start from an unpredictable generator state instead of rd.seed(self.seed)"""
            def _init_random_subprocess(self, seed):
                random.seed(os.getpid() * 7919 + time.time_ns())
                for _ in range(os.getpid() % 5):
                    random.random()
        ScrambledJackknife.__qualname__ = "ScrambledJackknife"
        globals()["ScrambledJackknife"] = ScrambledJackknife
    return Jackknife, globals()["ScrambledJackknife"]


def mk_data(case):
    return np.array(case["data"], dtype=float)


def call_args(case):
    if case["stat"] == "scaledmean":
        return (), {"weight": float(case["extra"])}
    return (), {}


def scramble(salt):
    random.seed(salt)
    for _ in range(salt % 7):
        random.random()


def seq_samples(case, data=None):
    """sequential in-process run of the per-task recipe: reseed with seed+index, sample, delete, apply"""
    data = mk_data(case) if data is None else data
    fn = globals()["st_" + case["stat"]]
    args, kwargs = call_args(case)
    n = len(data)
    d = int(case["f"] * n)
    out, idx = [], []
    for i in range(case["N"]):
        random.seed(case["seed"] + i)
        ix = random.sample(range(n), d)
        idx.append(ix)
        out.append(fn(np.delete(data.copy(), ix, axis=0), *args, **kwargs))
    return out, idx


def run_impl(case, salt=12345):
    """the real code through the real pool; -> dict (see keys)"""
    Jackknife, Scrambled = _jk_classes()
    data = mk_data(case)
    snap = data.copy()
    fn = stat_fn(case)
    args, kwargs = call_args(case)
    cores = case["cores"]
    try:
        cls = Scrambled if case.get("scrambled_workers") else Jackknife
        obj = cls(case["f"], case["N"], case["seed"])
        scramble(salt)
        ests = []
        for j, c in enumerate(cores):                 # repeated calls on one object
            scramble(salt + 17 * j + 1)
            ests.append(obj.compute_jackknife_estimates(data, fn, c, *args, **kwargs))
        scramble(salt + 5)
        samples = obj._compute_jackknife_samples(data, fn, cores[-1], *args, **kwargs)
        obj2 = Jackknife(case["f"], case["N"], case["seed"])       # a fresh object, default initializer
        scramble(salt + 6)
        ests.append(obj2.compute_jackknife_estimates(data, fn, cores[0], *args, **kwargs))
    except Exception as e:
        return {"err": type(e).__name__, "msg": str(e)[:200]}
    seq, idx = seq_samples(case, data)
    return {"est": float(ests[0]), "ests": [float(e).hex() for e in ests], "samples": [float(s) for s in samples],
            "identical": len(set(float(e).hex() for e in ests)) == 1,
            "seq_equal": [float(s).hex() for s in samples] == [float(s).hex() for s in seq],
            "data_unchanged": bool(np.array_equal(data, snap)) and data.tobytes() == snap.tobytes(),
            "idx": idx}


def admissible(case):
    f, n = case["f"], len(case["data"])
    return isinstance(f, float) and 0.0 <= f < 1.0 and case["N"] >= 1 and int(f * n) >= 1


def oracle(case):
    """the property text on the real code: determinism across worker counts / schedules / generator states / repeated
    calls, data untouched, the delete-d formula (exact rationals) on the samples the code itself produced, |c| scaling,
    shift invariance for the mean"""
    if not admissible(case):
        return None
    Jackknife, Scrambled = _jk_classes()
    data = mk_data(case)
    snap = data.copy()
    fn_plain = globals()["st_" + case["stat"]]
    fn_nap = globals()["st_" + case["stat"] + "_nap"]
    args, kwargs = call_args(case)
    n, N = len(data), case["N"]
    d = int(case["f"] * n)
    cores = sorted(set([1, 2, 3, 16] + list(case.get("cores", []))))
    obj = Jackknife(case["f"], N, case["seed"])
    sobj = Scrambled(case["f"], N, case["seed"])
    seen = {}
    for j, c in enumerate(cores):
        for o, fn, tag in ((obj, fn_plain, "plain"), (sobj, fn_nap, "scrambled workers + delays")):
            scramble(1000 + 31 * j)
            try:
                e = o.compute_jackknife_estimates(data, fn, c, *args, **kwargs)
            except Exception as ex:
                return f"compute_jackknife_estimates raises {type(ex).__name__}: {ex} (n={n}, d={d}, N={N}, num_cores={c})"
            seen[(c, tag)] = float(e).hex()
    if len(set(seen.values())) != 1:
        return ("the estimate depends on the number of workers / schedule / generator state: "
                + ", ".join(f"num_cores={c} [{t}] -> {float.fromhex(h)!r}" for (c, t), h in sorted(seen.items())[:6]))
    if not (np.array_equal(data, snap) and data.tobytes() == snap.tobytes()):
        return "the data array was modified"
    est = float.fromhex(next(iter(seen.values())))
    raw = [float(t) for t in obj._compute_jackknife_samples(data, fn_plain, 1, *args, **kwargs)]
    # d is the number of points the subsamples actually lack (read off with a statistic that returns the subsample size)
    sizes = {int(t) for t in obj._compute_jackknife_samples(data, st_size, 1)}
    if len(sizes) != 1:
        return f"the subsamples do not all have the same size: {sorted(sizes)} (n={n})"
    d_obs = n - sizes.pop()
    if d_obs != d:
        return f"delete fraction {case['f']!r} of n={n} points: int(f*n) = {d} points are to be deleted, the subsamples lack {d_obs}"
    if not math.isfinite(est) or not all(math.isfinite(t) for t in raw):
        return f"non-finite result on finite data: estimate {est!r}, jackknife samples {raw[:6]} (n={n}, d={d}, N={N})"
    # the subsample statistics the formula is evaluated on must BE statistics of delete-d subsamples of the data (they are read from
    # the object, so this is checked against the data): bit-identical to the harness's own sequential draw-delete-apply run, or else -
    # the way the d points are drawn is not part of the text - each one equal to the statistic of SOME subsample lacking d points
    # (complete enumeration, when there are at most 20000 of them; no claim otherwise)
    if len(raw) != N:
        return f"{len(raw)} subsample statistics for number_samples = {N}"
    seq, _ = seq_samples(case, data)
    if [float(t).hex() for t in raw] != [float(t).hex() for t in seq] and math.comb(n, d) <= 20000:
        import itertools
        allv = sorted(float(fn_plain(np.delete(data.copy(), list(ix), axis=0), *args, **kwargs)) for ix in itertools.combinations(range(n), d))
        import bisect
        for i, t in enumerate(raw):
            j = bisect.bisect_left(allv, t)
            near = [allv[m] for m in (j - 1, j) if 0 <= m < len(allv)]
            if not any(abs(t - v) <= 1e-9 * max(abs(t), abs(v)) + 1e-300 for v in near):
                return (f"subsample statistic {i} is {t!r}: no subsample of the data lacking d={d} of the n={n} points has this "
                        f"value of the statistic {case['stat']} (nearest: {near})")
    theta = [Fraction(t) for t in raw]
    mean = sum(theta) / N
    ssq = sum((t - mean) ** 2 for t in theta)
    want = Fraction(n - d, d * N) * ssq
    got = Fraction(est) ** 2
    scale = sum(t * t for t in theta) / N
    if abs(got - want) > Fraction(1, 10**9) * (got + want) + Fraction(1, 10**24) * scale:
        return (f"estimate {est!r} is not sqrt((n-d)/(d*N) * sum (theta_i - mean)^2) = {math.sqrt(float(want))!r} "
                f"(n={n}, d={d}, N={N}; ratio of the squares {float(got / want) if want else float('inf')!r})")
    if case["stat"] in HOMOGENEOUS:
        for cfac in (2.0, -0.5, 2.0 ** -30, -(2.0 ** 24)):        # powers of two: the scaled run is exact, any unit of measurement
            e2 = obj.compute_jackknife_estimates(data * cfac, fn_plain, 2, *args, **kwargs)
            if float(e2).hex() != float(abs(cfac) * est).hex():
                return f"data multiplied by {cfac}: estimate {float(e2)!r}, expected |c| * estimate = {abs(cfac) * est!r}"
    if case["stat"] in HOMOGENEOUS:
        # one object, one array: called, then the SAME array is scaled in place (exactly, by 2) and handed over again
        buf = data.copy()
        e_a = float(obj.compute_jackknife_estimates(buf, fn_plain, 2, *args, **kwargs))
        buf *= 2.0
        e_b = float(obj.compute_jackknife_estimates(buf, fn_plain, 2, *args, **kwargs))
        if e_a.hex() != float(est).hex() or e_b.hex() != float(2.0 * est).hex():
            return (f"the same array object handed over before and after it was doubled in place: estimates {e_a!r} and {e_b!r}, "
                    f"expected {float(est)!r} and {2.0 * float(est)!r}")
    if case["stat"] == "mean":
        for a in (3.0, 1048576.0):              # a large offset too (rounding of data + a grows with a: tolerance relative to it)
            e3 = float(obj.compute_jackknife_estimates(data + a, fn_plain, 2, *args, **kwargs))
            if abs(e3 - est) > 1e-9 * max(est, abs(a), 1.0):
                return f"data shifted by {a}: estimate of the mean changes from {est!r} to {e3!r}"
    # earlier calls: the object has meanwhile seen data of ANOTHER length; the value for this data must be the same again
    if n >= 4:
        other = np.concatenate([data, data])[: 2 * n - 1] if n % 2 else data[: n - 1 - (n // 3)]
        if int(case["f"] * len(other)) >= 1:
            try:
                obj.compute_jackknife_estimates(other, fn_plain, 1, *args, **kwargs)
                again = obj.compute_jackknife_estimates(data, fn_plain, 2, *args, **kwargs)
            except Exception as ex:
                return f"a second data set on the same object raises {type(ex).__name__}: {ex}"
            if float(again).hex() != float(est).hex():
                return (f"the estimate depends on earlier calls: {est!r} at first, {float(again)!r} after the same object had analysed "
                        f"a data set of {len(other)} points in between (n={n}, d={d}, N={N})")
    # num_cores left to the default (None: the machine size)
    try:
        en = obj.compute_jackknife_estimates(data, fn_plain, None, *args, **kwargs)
    except Exception as ex:
        return f"num_cores=None raises {type(ex).__name__}: {ex}"
    if float(en).hex() != float(est).hex():
        return f"num_cores=None gives {float(en)!r}, num_cores=1..16 give {est!r} (n={n}, d={d}, N={N})"
    # the same values as a strided view into a larger array (which must stay untouched as well), as a read-only array, as a
    # Fortran-ordered array
    big = np.repeat(data, 2, axis=0)
    big[1::2] = -12345.0
    bsnap = big.copy()
    ro = data.copy()
    ro.setflags(write=False)
    for what, arr in (("a strided view data2[::2]", big[::2]), ("a read-only array", ro), ("a Fortran-ordered array", np.asfortranarray(data))):
        try:
            ev = obj.compute_jackknife_estimates(arr, fn_plain, 1, *args, **kwargs)
        except Exception as ex:
            return f"the same values as {what} raise {type(ex).__name__}: {ex}"
        if float(ev).hex() != float(est).hex():
            return f"the same values as {what} give {float(ev)!r} instead of {est!r} (n={n}, d={d}, N={N})"
    if big.tobytes() != bsnap.tobytes():
        return "the array the data are a view of was modified"
    # the statistic given as numpy's own function instead of a Python function
    if case["stat"] == "mean":
        try:
            em = obj.compute_jackknife_estimates(data, np.mean, 1)
        except Exception as ex:
            return f"function=np.mean raises {type(ex).__name__}: {ex}"
        if float(em).hex() != float(est).hex():
            return f"function=np.mean gives {float(em)!r}, the Python function returning float(np.mean(x)) gives {est!r}"
    # the same values in another admissible array representation (integer / bool dtype)
    if np.all(data == np.round(data)) and case["stat"] in ("mean", "sum", "meansq"):
        for dt in (np.int64, np.int32) + ((np.bool_,) if np.all((data == 0) | (data == 1)) else ()):
            try:
                ei = Jackknife(case["f"], N, case["seed"]).compute_jackknife_estimates(data.astype(dt), fn_plain, 2, *args, **kwargs)
            except Exception as ex:
                return f"data of dtype {np.dtype(dt).name} raises {type(ex).__name__}: {ex}"
            if abs(float(ei) - est) > 1e-12 * max(abs(est), 1e-300):
                return (f"the same values as a {np.dtype(dt).name} array give {float(ei)!r}, as float64 {est!r} "
                        f"(n={n}, d={d}, N={N}, statistic {case['stat']})")
    return None


# ----------------------------------------------------------------------------- generators
DYADIC_F = [0.5, 0.25, 0.125, 0.75, 0.375, 0.0625, 0.625, 0.875, 0.1875, 0.03125]
DECIMAL_FN = [(0.58, 50), (0.29, 100), (0.57, 100), (0.58, 100)]


def gen_case(rng, small=False, force_d1=False, thorough=False):
    n = rng.randint(2, 12) if small else rng.randint(2, 40)
    stat = rng.choice(["sum", "mean", "mean", "meansq", "wmean", "scaledmean"])
    if stat == "wmean":
        data = [[rng.randint(-8, 8) * rng.choice([1, 1, 0.5]), rng.randint(1, 4)] for _ in range(n)]
    elif rng.random() < 0.3:
        data = [[rng.randint(-6, 6), rng.randint(-6, 6) * 0.25] for _ in range(n)]      # 2-D, plain statistics
    else:
        data = [rng.randint(-9, 9) * rng.choice([1, 1, 0.25]) for _ in range(n)]
    fs = [f for f in DYADIC_F if int(f * n) >= 1]
    if not force_d1 and rng.random() < 0.08:
        # a decimal fraction whose product with n lies just below an integer (0.29 * 100 = 28.999999999999996): int() and round()
        # differ; only pairs on which the float product and the exact product of the double have the same integer part
        f0, n = rng.choice(DECIMAL_FN)
        data = (data * (n // len(data) + 1))[:n]
        fs = [f0]
    elif force_d1 or rng.random() < 0.3:
        fs1 = [f for f in DYADIC_F if int(f * n) == 1]
        fs = fs1 or fs
    f = rng.choice(fs) if fs else 0.5
    N = rng.choice([1, 2, 3, 5, 8, 13, 24]) if not small else rng.choice([1, 2, 3, 4, 6])
    if force_d1 and N == n:
        N += 1
    seed = rng.choice([42, 0, 1, rng.randint(-40, 40), rng.randint(0, 10**6)])
    k = 3 if not thorough else rng.choice([3, 3, 4, 16])
    cores = list(range(1, 17)) if k == 16 else [rng.randint(1, 16) for _ in range(k)]
    case = {"data": data, "f": f, "N": N, "seed": seed, "stat": stat, "sleep": rng.random() < 0.6,
            "scrambled_workers": rng.random() < 0.5, "cores": cores,
            "extra": rng.choice([2.0, 0.5, -1.5, 3.0]) if stat == "scaledmean" else None}
    return case


def gen_malformed(rng):
    c = gen_case(rng, small=True)
    k = rng.choice(["f_neg", "f_one", "f_big", "N_zero", "N_neg", "f_small", "f_zero"])
    if k == "f_neg":
        c["f"] = -0.25
    elif k == "f_one":
        c["f"] = 1.0
    elif k == "f_big":
        c["f"] = 1.5
    elif k == "N_zero":
        c["N"] = 0
    elif k == "N_neg":
        c["N"] = -2
    elif k == "f_small":
        c["f"] = 2.0 ** -9
    else:
        c["f"] = 0.0
    c["cores"] = c["cores"][:1]
    return c


def gen_schedule(rng, N, workers):
    """any assignment of the tasks to workers, in any order"""
    order = list(range(max(N, 0)))
    rng.shuffle(order)
    return [[rng.randrange(workers), i] for i in order]


# ----------------------------------------------------------------------------- Coq side
PRELUDE = """From Coq Require Import List ZArith QArith Qabs Bool.
From SX Require Import Lib.Py Lib.KRing Lib.QCheck Gen.GenJackknife Model.Pool.
Import ListNotations.
Local Open Scope Q_scope.
Definition row := list Q.
Definition qsum (l : list Q) : Q := fold_left rplus l 0.
Definition entries (d : list row) : list Q := concat d.
Definition cnt (d : list row) : Q := inject_Z (Z.of_nat (length (entries d))).
Definition st_sum (d : list row) : Q := qsum (entries d).
Definition st_mean (d : list row) : Q := rdiv (qsum (entries d)) (cnt d).
Definition st_meansq (d : list row) : Q := rdiv (qsum (map (fun x => rmult x x) (entries d))) (cnt d).
Definition st_wmean (d : list row) : Q :=
  rdiv (qsum (map (fun r => rmult (nth 0 r 0) (nth 1 r 0)) d)) (qsum (map (fun r => nth 1 r 0) d)).
Definition st_scaledmean (w : Q) (d : list row) : Q := rmult (st_mean d) w.
Inductive expected := ExpErr (e : errcls) | ExpOk (samples : list fv) (est : fv).
Definition err_eqb (a b : errcls) : bool :=
  match a, b with
  | TypeError, TypeError | ValueError, ValueError | IndexError, IndexError | KeyError, KeyError
  | AttributeError, AttributeError | ZeroDivisionError, ZeroDivisionError | OtherError, OtherError => true
  | _, _ => false end.
Definition tol : Q := 1 # 1000000000.
Definition tiny : Q := 1 # 1000000000000000000000000.
Fixpoint cmp_samples (m : list Q) (i : list fv) : nat :=
  match m, i with
  | [], [] => 0
  | a :: m', b :: i' => Nat.max (cmp_opt tol (Some a) b) (cmp_samples m' i')
  | _, _ => 3
  end%nat.
(* 0 exact, 1 within tolerance, 2 the estimate differs, 3 the samples differ, 4 error behaviour differs *)
Definition check (table : list (Z * list nat)) (stat : list row -> Q) (f : Q) (N seed : Z) (data : list row)
                 (sched : list (nat * nat)) (e : expected) : nat :=
  match qjackknife_sq table row f N seed data stat sched (fun _ => None), e with
  | Err a, ExpErr b => if err_eqb a b then 0 else 4
  | Ok (th, v), ExpOk s (Fin est) =>
      let cs := cmp_samples th s in
      if (2 <=? cs)%nat then 3 else
      let scale := rdiv (qsum (map (fun t => rmult t t) th)) (inject_Z (Z.of_nat (length th))) in
      let e2 := rmult est est in
      let ce := if Qeq_bool e2 v then 0
                else if Qle_bool (Qabs (e2 - v)) (tol * (e2 + v) + tiny * scale) then 1 else 2 in
      Nat.max cs ce
  | Ok _, ExpOk _ _ => 2           (* the implementation returned nan/inf, the exact model never does *)
  | _, _ => 4
  end%nat.
"""

ERR = {"TypeError", "ValueError", "IndexError", "KeyError", "AttributeError", "ZeroDivisionError"}


def fv(x):
    if math.isnan(x):
        return "NaN"
    if math.isinf(x):
        return "PInf" if x > 0 else "NInf"
    return f"(Fin {q(x)})"


def rows(case):
    return [r if isinstance(r, list) else [r] for r in case["data"]]


def coq_case(case, got, sched):
    table = coq_list([f"({C.z(case['seed'] + i)}%Z, {coq_list([str(j) + '%nat' for j in ix])})"
                      for i, ix in enumerate(got.get("idx", []))])
    stat = f"(st_scaledmean {q(case['extra'])})" if case["stat"] == "scaledmean" else "st_" + case["stat"]
    data = coq_list([coq_list([q(x) for x in r]) for r in rows(case)])
    sch = coq_list([f"({w}%nat, {i}%nat)" for w, i in sched])
    if "err" in got:
        exp = f"(ExpErr {got['err'] if got['err'] in ERR else 'OtherError'})"
    else:
        exp = f"(ExpOk {coq_list([fv(x) for x in got['samples']])} {fv(got['est'])})"
    return f"(check {table} {stat} {q(case['f'])} {C.z(case['N'])}%Z {C.z(case['seed'])}%Z {data} {sch} {exp})"


def correspondence(ctx, model_ok=True):
    cases = []
    corpus = os.path.join(C.VERIF, "corpus", ID)
    if os.path.isdir(corpus):
        for fn in sorted(os.listdir(corpus)):
            cases.append(json.load(open(os.path.join(corpus, fn)))["case"])
    n = 90 if ctx.quick else 400
    for i in range(n):
        if i % 10 == 9:
            cases.append(gen_malformed(ctx.rng))
        else:
            cases.append(gen_case(ctx.rng, force_d1=(i % 5 == 0), thorough=not ctx.quick))
    gots, scheds = [], []
    out = {"failures": [], "broken": []}
    out["all_cases"] = cases          # the driver runs the property oracle on these as well
    dist = {"num_cores": {}, "d": {"1": 0, ">1": 0}, "two_dimensional": 0, "delays": 0, "scrambled_workers": 0,
            "errors": {}, "stat": {}, "pool_runs": 0}
    keys = set()
    for k, c in enumerate(cases):
        g = run_impl(c, salt=ctx.rng.randrange(10**6))
        gots.append(g)
        scheds.append(gen_schedule(ctx.rng, c["N"], ctx.rng.randint(1, 16)))
        if "err" in g:
            dist["errors"][g["err"]] = dist["errors"].get(g["err"], 0) + 1
            continue
        dist["pool_runs"] += len(c["cores"]) + 2
        for w in c["cores"]:
            dist["num_cores"][w] = dist["num_cores"].get(w, 0) + 1
        dd = int(c["f"] * len(c["data"]))
        dist["d"]["1" if dd == 1 else ">1"] += 1
        dist["two_dimensional"] += isinstance(c["data"][0], list)
        dist["delays"] += bool(c.get("sleep"))
        dist["scrambled_workers"] += bool(c.get("scrambled_workers"))
        dist["stat"][c["stat"]] = dist["stat"].get(c["stat"], 0) + 1
        if c["N"] >= 2 and len(set(g["samples"])) >= 2:
            keys.add(json.dumps([c["data"], c["f"], c["N"], c["seed"], c["stat"], c["extra"]]))
        if not g["identical"]:
            out["failures"].append(Failure(c, f"runs differ (num_cores {c['cores']}, repeated calls, fresh object): {g['ests']}"))
        elif not g["seq_equal"]:
            out["failures"].append(Failure(c, "pool samples are not bit-identical to the sequential reseed-per-task run"))
        elif not g["data_unchanged"]:
            out["failures"].append(Failure(c, "data array modified"))
    dist["num_cores"] = {str(k): v for k, v in sorted(dist["num_cores"].items())}
    out.update({"evaluations": len(cases), "distinct_nontrivial": len(keys), "distribution": dist,
                "rule": "corpus + seeded random cases: 2-40 data points (1-D and 2-D rows, small integers / dyadics), dyadic "
                        "delete fractions (d = 1 forced in 1/5 of the cases, with N != n), N in 1..24, seeds incl. negative, "
                        "statistics sum/mean/mean-square/weighted mean/mean*kwarg, 60% with data-dependent sleeps, 50% with "
                        "workers whose initializer scrambles the generator, parent generator scrambled before every call; per "
                        "case: repeated calls on one object with 3 (thorough: 3, 4 or all 16) values of num_cores from 1..16, "
                        "_compute_jackknife_samples on the real pool, a fresh object; 1/10 malformed (fraction outside [0,1), "
                        "N < 1, d < 1). Python side: all estimates bit-identical, pool samples bit-identical to a sequential "
                        "in-process run, data bytes unchanged. Coq side: Model/Pool.v run under a random schedule with the "
                        "rng_sample table, samples and estimate^2 against the real outputs (exact, or 1e-9 where the division "
                        "of np.mean / sqrt rounds); non-trivial = N >= 2 and at least two different sample values",
                "samples": cases[:3], "model_runner": "Eval vm_compute in generated cases files (sharded coqc)"})
    ok, log = C.make(["Model/Pool.vo", "Lib/QCheck.vo"])
    if not ok:
        out["broken"].append({"what": "model Model/Pool.v does not build", "detail": log[-800:]})
        return out
    shard = 60
    files = []
    for i in range(0, len(cases), shard):
        body = coq_list([coq_case(c, g, s) for c, g, s in zip(cases[i:i + shard], gots[i:i + shard], scheds[i:i + shard])])
        files.append((f"c15_{i//shard}", PRELUDE + f"Eval vm_compute in {body}.\n"))
    res = C.coq_eval_many(ctx, files)
    codes = []
    for (ok, o), (name, _) in zip(res, files):
        if not ok:
            out["broken"].append({"what": f"cases file {name} failed to evaluate", "detail": o[-800:]})
            return out
        codes += C.parse_codes(o)
    if len(codes) != len(cases):
        out["broken"].append({"what": "cases output could not be parsed", "detail": f"{len(codes)} codes for {len(cases)} cases"})
        return out
    out["exact_agreements"] = sum(1 for c in codes if c == 0)
    out["tolerance_agreements"] = sum(1 for c in codes if c == 1)
    out["traces_validated_against_impl"] = sum(1 for c in codes if c <= 1)
    for c, g, code in zip(cases, gots, codes):
        if code >= 2:
            what = {2: "estimate", 3: "jackknife samples", 4: "error behaviour"}.get(code, "?")
            out["failures"].append(Failure(c, f"model and implementation disagree on the {what} (code {code}): impl="
                                              + json.dumps({k: v for k, v in g.items() if k in ('err', 'msg', 'est', 'samples')})[:400]))
    return out


# ----------------------------------------------------------------------------- search
def search(ctx):
    found, n = [], 0
    budget = 24 if ctx.quick else 120
    for i in range(budget):
        c = gen_case(ctx.rng, small=True, force_d1=(i % 2 == 0))
        n += 1
        msg = oracle(c)
        if msg:
            c = shrink(c)
            found.append(Failure(c, "property oracle fails on the implementation", on_impl=oracle(c)))
            break
    return found, n


def shrink(case):
    cur = case
    changed = True
    rounds = 0
    while changed and rounds < 12:
        changed = False
        rounds += 1
        for cand in _smaller(cur):
            try:
                if admissible(cand) and oracle(cand):
                    cur, changed = cand, True
                    break
            except Exception:
                pass
    return cur


def _smaller(c):
    d = c["data"]
    if c.get("sleep") or c.get("scrambled_workers"):
        yield dict(c, sleep=False, scrambled_workers=False)
    if len(c.get("cores", [])) > 1:
        yield dict(c, cores=c["cores"][:1])
    if c["stat"] not in ("mean", "wmean") and not isinstance(d[0], list):
        yield dict(c, stat="mean", extra=None)
    for N in (2, c["N"] // 2, c["N"] - 1):
        if 1 <= N < c["N"]:
            yield dict(c, N=N)
    for i in range(len(d)):
        if len(d) > 2:
            yield dict(c, data=d[:i] + d[i + 1:])
    if c["seed"] not in (0, 42):
        yield dict(c, seed=42)
    if c["stat"] != "wmean" and d != list(range(len(d))):
        yield dict(c, data=list(range(len(d))))


LEVEL_TEXT = ("Theorems (Coq): for every schedule (any assignment of the N tasks to any workers in any order, re-executions "
              "allowed) and every initial generator state of every worker, the pool returns map (task data seed) [0..N-1] - "
              "so the estimate is a function of (data, statistic, fraction, N, seed) only; the estimate is "
              "sqrt((n-d)/(d*N) * sum (theta_i - mean)^2) over any field for every admissible d including d = 1 (the factor and "
              "summand are regenerated from the source); it scales with |c| for a homogeneous statistic and is invariant "
              "under shifts for the mean (any field of characteristic 0 / the reals); d < 1, fraction outside [0,1), N < 1 raise "
              "ValueError. The real multiprocessing pool is exercised in the correspondence only.")
LEVEL_NOTE = ("Trusted: Coq kernel/vm_compute; translators gen_jackknife (ratexpr + textual comparison of the task path) and "
              "gen_jackknife_methods (all nine method bodies of Jackknife.py regenerated on every run; runtime Model/JackknifeRt.v fixes "
              "the meaning of np.delete/np.mean/random.sample/Pool.starmap = map in order on one fresh worker); hand "
              "model Model/Pool.v proved equal to the regenerated methods (C15_source_*, Properties/SrcJackknife.v: __init__ followed by "
              "compute_jackknife_estimates = Pool.jackknife for all arguments incl. which inputs are rejected with which class, under any "
              "schedule that is a permutation of the tasks) and validated by correspondence; the rng_sample oracle (random.seed/random.sample deterministic); "
              "exact arithmetic instead of IEEE rounding. PARTIAL BY NATURE: the model cannot exhibit the OS scheduler, "
              "multiprocessing itself (fork, pickling, starmap chunking and ordering) or a generator shared between concurrently "
              "running tasks; schedule independence of the *real* pool rests on the perturbed runs (num_cores 1..16, "
              "data-dependent sleeps, scrambled parent and worker generator states, repeated calls, bit-identical to a "
              "sequential run). 'Data not modified' is checked on the real arrays only. R instances use the stdlib real axioms.")
TECHNIQUE = ("Coq proof by induction over the schedule with the invariant 'results[i] = task i for every executed i' "
             "(reseed-before-draw makes a task independent of the worker state), field/ring proofs about the variance "
             "factor regenerated from the Python source, real-analysis instance for sqrt/|c|; correspondence runs the real "
             "multiprocessing pool under perturbation and the model by vm_compute")

"""C18 - eccentricities obey their symmetry relations and bound (EventCharacteristics.eccentricity*)."""
import cmath, json, math, os, warnings
from fractions import Fraction
import numpy as np
import common as C
from common import Failure, q, z, coq_list

ID = "C18"
GEN = ["gen_ecc", "gen_ecc_methods"]
EXTRA_PROPERTY_FILES = ["SrcEcc"]     # EventCharacteristics.py: the five eccentricity methods regenerated and proved equal to Model/Ecc.v
SOURCE_TIE_NOTE = ('set_event_data, __init__, eccentricity_from_particles, eccentricity_from_lattice and eccentricity are regenera'
    'ted by gen_ecc_methods (runtime Model/EccRt.v; **, arctan2, cos, sin as oracles with the law point_law, proved'
    " for Coq's real functions in C18_source_laws_R) and proved equal to Model/Ecc.v (Properties/SrcEcc.v, 12 theor"
    'ems) incl. every exception class')
ALLOWED_AXIOMS = ["ClassicalDedekindReals.sig_forall_dec", "ClassicalDedekindReals.sig_not_dec",
                  "FunctionalExtensionality.functional_extensionality_dep",
                  "Classical_Prop.classic"]      # only C18_source_laws_R (stdlib Rpower/ln and atan2 lemmas depend on it)
MODEL_INDEPENDENT_OF_PROOFS = True
TRUSTED = [
    "Coq 8.16.1 kernel + vm_compute (no native_compute)",
    "stdlib axiom Classical_Prop.classic: used by C18_source_laws_R only (the oracle laws for **, arctan2, cos, sin hold for Coq's "
    "Rpower/atan2/cos/sin); every other theorem of Properties/SrcEcc.v is closed under the global context",
    "translator gen_ecc_methods (the five eccentricity methods of EventCharacteristics.py regenerated on every run; runtime Model/EccRt.v; "
    "Lattice3D.get_coordinates/get_value_by_index pinned by normalised text)",
    "translator tools/py2coq/gen_ecc.py: reads the weight dispatch, the branch chain that picks the radial power, the three "
    "accumulator updates of the loop body, the return expression and the two argument checks of both eccentricity variants, and "
    "checks that eccentricity() passes its arguments through unchanged",
    "hand model coq/Model/Ecc.v (accumulation loop, unit vector in place of arctan2, numpy division by zero as a non-finite "
    "result, node enumeration of the lattice variant), tied by this run's correspondence",
    "the algebraic form: (cos n phi, sin n phi) = ((x + i y)/r)^n; proved equal to the cos/sin of n times the polar angle over R "
    "(C18_de_moivre_R, C18_code_form_R); that np.arctan2(y, x) returns the polar angle is numpy's contract",
    "sqrt is an oracle: the radius of each point is supplied by the harness (exact for the scaled Pythagorean points, np.sqrt "
    "otherwise); exact field arithmetic instead of IEEE rounding (results agree within 1e-9)",
]
ASSUMPTIONS = [
    "all statements are under sum(w r^m) != 0 (a zero denominator gives a non-finite complex in the code: modelled as Ok None)",
    "rotation/reflection/scaling theorems need the radial power >= 1, which the argument checks guarantee",
    "C18_bound_R, C18_code_form_R, C18_de_moivre_R depend on the stdlib real-number axioms only",
    "coordinates are finite numbers",
]

WEIGHTS = ["energy", "number", "charge", "baryon", "strangeness"]
WATTR = {"energy": "E", "charge": "charge", "baryon": "baryon_number", "strangeness": "strangeness"}
ERRS = {"TypeError", "ValueError", "IndexError", "KeyError", "AttributeError", "ZeroDivisionError"}
PYTH = [(3, 4, 5), (5, 12, 13), (15, 8, 17), (7, 24, 25), (1, 0, 1), (0, 1, 1), (4, 3, 5), (21, 20, 29)]


def errname(e):
    n = type(e).__name__
    return n if n in ERRS else "OtherError"


# ----------------------------------------------------------------------------- real code
def mk_particles(spec, case=None):
    from sparkx.Particle import Particle
    out = []
    for s in spec:
        p = Particle()
        for k in ("x", "y", "E", "charge", "baryon_number", "strangeness"):
            if s.get(k) is not None:
                setattr(p, k, s[k])
        out.append(p)
    if case is not None:
        for i, j in case.get("same_object", []):        # one Particle object listed twice: it counts twice in both sums
            if i < len(out) and j < len(out) and spec[i] == spec[j]:
                out[j] = out[i]
        if case.get("container") == "ndarray":          # the documented alternative to a list
            arr = np.empty(len(out), dtype=object)
            arr[:] = out
            return arr
    return out


def harm(case, key):
    v = case[key]
    return np.int64(v) if (case.get("n_as") == "np" and isinstance(v, int)) else v


def mk_lattice(case):
    from sparkx.Lattice3D import Lattice3D
    e, n = case["ext"], case["n"]
    L = Lattice3D(e[0], e[1], e[2], e[3], e[4], e[5], n[0], n[1], n[2])
    L.grid_[...] = np.array(case["dens"], dtype=float).reshape(L.grid_.shape)
    return L


def run_impl(case):
    from sparkx.EventCharacteristics import EventCharacteristics
    with warnings.catch_warnings(), np.errstate(all="ignore"):
        warnings.simplefilter("ignore")
        try:
            if case["kind"] == "particles":
                if case.get("prev"):
                    # one EventCharacteristics object used before on other event data (a lattice or other particles)
                    pv = case["prev"]
                    ec = EventCharacteristics(mk_lattice(pv) if pv["kind"] == "lattice" else mk_particles(pv["particles"]))
                    try:
                        ec.eccentricity(case["n"], case["m"]) if pv["kind"] == "lattice" else ec.eccentricity(case["n"], case["m"], case["weight"])
                    except Exception:
                        pass
                    ec.set_event_data(mk_particles(case["particles"], case))
                elif case.get("moved_from"):
                    # one object, one list of Particle objects: evaluated once where the particles were before, then the SAME
                    # objects are moved in place (x, y setters) to their final positions and the object is asked again
                    plist = mk_particles([dict(spec, x=mf["x"], y=mf["y"]) for spec, mf in zip(case["particles"], case["moved_from"])])
                    ec = EventCharacteristics(plist)
                    try:
                        ec.eccentricity(case["n"], case["m"], case["weight"])
                    except Exception:
                        pass
                    for pobj, spec in zip(plist, case["particles"]):
                        pobj.x, pobj.y = spec["x"], spec["y"]
                else:
                    ec = EventCharacteristics(mk_particles(case["particles"], case))
                for bn, bm in case.get("before", []):
                    # the SAME object was asked for other (harmonic, radial power) pairs on the same data first - the answer to
                    # the final question is that of its own n and m, whatever was asked before (a default m and an explicit m
                    # with the same number are different questions)
                    try:
                        ec.eccentricity(bn, bm, case["weight"])
                    except Exception:
                        pass
                v = ec.eccentricity(harm(case, "n"), case["m"], case["weight"]) if not case.get("direct") else \
                    ec.eccentricity_from_particles(harm(case, "n"), case["m"], case["weight"])
            else:
                if case.get("late_fill"):
                    # the wrapper is bound to the lattice first; the densities are filled in (in place) afterwards, and the
                    # lattice has been evaluated once with other content: the result is that of the CURRENT node densities
                    L = mk_lattice(case)
                    final = L.grid_.copy()
                    L.grid_[...] = 0.0 if case["late_fill"] == "zeros" else final[::-1, ::-1, :] + 1.0
                    ec = EventCharacteristics(L)
                    try:
                        ec.eccentricity(case["hn"], case["m"])
                    except Exception:
                        pass
                    L.grid_[...] = final
                elif case.get("prev"):
                    # one EventCharacteristics object evaluated on another lattice (same node counts, other extents) or on particles
                    # first, then handed the current lattice through set_event_data
                    pv = case["prev"]
                    ec = EventCharacteristics(mk_lattice(pv) if pv["kind"] == "lattice" else mk_particles(pv["particles"]))
                    try:
                        ec.eccentricity(case["hn"], case["m"])
                    except Exception:
                        pass
                    ec.set_event_data(mk_lattice(case))
                elif case.get("twice"):
                    # the same lattice is asked for another harmonic first; the densities are NOT written again in between
                    ec = EventCharacteristics(mk_lattice(case))
                    try:
                        ec.eccentricity(case["twice"], case["m"])
                    except Exception:
                        pass
                else:
                    ec = EventCharacteristics(mk_lattice(case))
                for bn, bm in case.get("before", []):
                    try:
                        ec.eccentricity(bn, bm)
                    except Exception:
                        pass
                v = ec.eccentricity(harm(case, "hn"), case["m"])
        except Exception as e:
            return {"status": "err", "err": errname(e)}
    v = complex(v)
    return {"status": "ok", "re": v.real, "im": v.imag}


# ----------------------------------------------------------------------------- property oracle (direct)
def points_of(case):
    """(x, y, w) as the property reads them"""
    if case["kind"] == "particles":
        pts = []
        for p in case["particles"]:
            w = 1.0 if case["weight"] == "number" else p.get(WATTR[case["weight"]])
            pts.append((float(p["x"]), float(p["y"]), float("nan") if w is None else float(w)))
        return pts
    # the nodes of the lattice and their densities from the case data (evenly spaced nodes between the stated extents, densities
    # in C order), not from the Lattice3D object the implementation reads them from
    xs, ys, dens = lattice_nodes(case)
    return [(xs[i], ys[j], float(dens[i, j, k])) for i, j, k in np.ndindex(dens.shape)]


def lattice_nodes(case):
    e, n = case["ext"], [int(v) for v in case["n"]]
    xs = [float(v) for v in np.linspace(float(e[0]), float(e[1]), n[0])]
    ys = [float(v) for v in np.linspace(float(e[2]), float(e[3]), n[1])]
    return xs, ys, np.array(case["dens"], dtype=float).reshape(n)


def defining(pts, n, m):
    mm = m if m is not None else (3 if n == 1 else n)
    num, den, ab = 0j, 0.0, 0.0
    for x, y, w in pts:
        r = math.hypot(x, y)
        t = w * r ** mm
        num += t * cmath.exp(1j * n * math.atan2(y, x))
        den += t
        ab += abs(t)
    return num, den, ab


def harmonic(case):
    return case["n"] if case["kind"] == "particles" else case["hn"]


def variant(case, pts=None, weights=None):
    """the same case with transformed positions / weights (particles kind only)"""
    c = json.loads(json.dumps(case))
    for i, p in enumerate(c["particles"]):
        if pts is not None:
            p["x"], p["y"] = pts[i]
        if weights is not None:
            p[WATTR[c["weight"]]] = weights[i]
    return c


def close(a, b, scale=1.0):
    return abs(a - b) <= 1e-9 * (abs(a) + abs(b) + scale)


def oracle(case):
    n, m = harmonic(case), case["m"]
    if n < 1 or (m is not None and m < 1) or (case["kind"] == "particles" and case["weight"] not in WEIGHTS):
        got = run_impl(case)
        return None if got["status"] == "err" else f"invalid arguments accepted: returned {got}"
    pts = points_of(case)
    if not pts or any(math.isnan(w) for _, _, w in pts):
        return None
    num, den, ab = defining(pts, n, m)
    if ab == 0 or abs(den) < 1e-6 * ab:
        return None                               # the property is stated under sum(w r^m) != 0
    got = run_impl(case)
    if got["status"] != "ok":
        return f"valid arguments rejected: {got['err']}"
    eps = complex(got["re"], got["im"])
    want = -num / den
    amp = ab / abs(den)
    if not close(eps, want, amp):
        return (f"eccentricity(n={n}, m={m}) = {eps!r}, but -sum(w r^m exp(i n phi))/sum(w r^m) = {want!r} "
                f"(m = {m if m is not None else (3 if n == 1 else n)})")
    if all(w >= 0 for _, _, w in pts) and abs(eps) > 1 + 1e-9:
        return f"non-negative weights but |eps| = {abs(eps)!r} > 1"
    if case["kind"] != "particles":
        return None
    xy = [(p["x"], p["y"]) for p in case["particles"]]
    # rotation by the angle with cos = 3/5, sin = 4/5
    ca, sa = 0.6, 0.8
    rot = run_impl(variant(case, pts=[(x * ca - y * sa, x * sa + y * ca) for x, y in xy]))
    if rot["status"] != "ok" or not close(complex(rot["re"], rot["im"]), eps * complex(ca, sa) ** n, amp):
        return f"rotation by alpha (cos 3/5): got {rot}, expected exp(i n alpha) * eps = {eps * complex(ca, sa) ** n!r}"
    ref = run_impl(variant(case, pts=[(-x, y) for x, y in xy]))
    if ref["status"] != "ok" or not close(complex(ref["re"], ref["im"]), (-1) ** n * eps.conjugate(), amp):
        return f"reflection x -> -x: got {ref}, expected (-1)^n conj(eps) = {(-1) ** n * eps.conjugate()!r}"
    for lam in (2.0, 0.5, 3.0, 2.0 ** -14, 2.0 ** -24, 2.0 ** 12):       # powers of two: exact, any length unit
        sc = run_impl(variant(case, pts=[(lam * x, lam * y) for x, y in xy]))
        if sc["status"] != "ok" or not close(complex(sc["re"], sc["im"]), eps, amp):
            return f"scaling the positions by {lam}: got {sc}, expected eps = {eps!r}"
    if case["weight"] != "number":
        mu = 3.0 if case["weight"] == "energy" else 3
        for mu in ([mu, 2.0 ** -40, 2.0 ** 30] if case["weight"] == "energy" else [mu]):
            sw = run_impl(variant(case, weights=[mu * p[WATTR[case["weight"]]] for p in case["particles"]]))
            if sw["status"] != "ok" or not close(complex(sw["re"], sw["im"]), eps, amp):
                return f"scaling the weights by {mu}: got {sw}, expected eps = {eps!r}"
    sh = json.loads(json.dumps(case))
    sh["particles"] = list(reversed(sh["particles"]))
    rs = run_impl(sh)
    if rs["status"] != "ok" or not close(complex(rs["re"], rs["im"]), eps, amp):
        return f"reordering the particles: got {rs}, expected eps = {eps!r}"
    return None


# ----------------------------------------------------------------------------- generator
def gen_point(rng, exact):
    if exact:
        a, b, _ = rng.choice(PYTH)
        if rng.random() < 0.5:
            a, b = b, a
        s = rng.choice([0.25, 0.5, 1.0, 2.0]) * rng.choice([1, 1, 2, 3])
        return (rng.choice([-1, 1]) * a * s, rng.choice([-1, 1]) * b * s)
    return (rng.choice([-2.5, -1.0, 0.5, 1.0, 1.5, 3.0, 0.75]), rng.choice([-2.0, -0.5, 0.25, 1.0, 2.0, 1.25]))


def gen_before(rng, n, m):
    """earlier questions put to the same object: default-m and explicit-m calls whose numbers coincide with the final call's"""
    pool = [(1, None), (2, None), (3, None), (n, None), (rng.choice([1, 2, 3, 4]), 1), (rng.choice([1, 2, 3, 4]), 2),
            (rng.choice([1, 2, 3]), 3)]
    if isinstance(m, int) and m >= 1:
        pool += [(m, None), (m, None), (n if isinstance(n, int) and n >= 1 else 2, m + 1)]
    if m is None and isinstance(n, int) and n >= 1:
        pool += [(rng.choice([2, 3, 4]), n), (rng.choice([2, 3, 4]), n), (n, 3 if n == 1 else n)]
    return [list(rng.choice(pool)) for _ in range(rng.choice([1, 1, 2, 3]))]


def gen_particles(rng, small=False):
    exact = rng.random() < 0.75
    k = rng.choice([1, 2, 3, 3, 4, 5, 6] if not small else [1, 2, 3])
    ps = []
    for _ in range(k):
        x, y = gen_point(rng, exact)
        if rng.random() < 0.06:
            x, y = 0.0, 0.0
        ps.append({"x": x, "y": y, "E": rng.choice([0.5, 1.0, 2.0, 3.25, 10.0]), "charge": rng.choice([-2, -1, 1, 1, 2, 0]),
                   "baryon_number": rng.choice([-1, 0, 1, 1]), "strangeness": rng.choice([-3, -1, 0, 1, 2])})
    n = rng.choice([1, 1, 2, 2, 3, 4, 5, 6])
    m = rng.choice([None, None, None, 1, 2, 3, 4, 5, 6])
    w = rng.choice(WEIGHTS)
    case = {"kind": "particles", "n": n, "m": m, "weight": w, "particles": ps, "direct": rng.random() < 0.3}
    if k >= 2 and rng.random() < 0.15:
        j = rng.randrange(1, k)
        ps[j] = dict(ps[0])
        case["same_object"] = [[0, j]]
    if rng.random() < 0.25:
        case["container"] = "ndarray"
    if rng.random() < 0.15:
        case["n_as"] = "np"
    if rng.random() < 0.3:
        case["before"] = gen_before(rng, case["n"], case["m"])
    r = rng.random()
    if r < 0.03:
        case["n"] = rng.choice([0, -1])
    elif r < 0.06:
        case["m"] = rng.choice([0, -2])
    elif r < 0.09:
        case["weight"] = "entropy"
    elif r < 0.11:
        case["particles"] = []
    elif r < 0.14:
        ps[0][rng.choice(["E", "charge"])] = None
    return case


def gen_lattice(rng):
    n = [rng.choice([2, 3, 4]), rng.choice([2, 3, 4]), rng.choice([1, 2, 3])]
    ext = []
    for d in range(3):
        lo = rng.choice([-2.0, -1.0, -0.5, 0.0, -4.0])
        ext += [lo, lo + rng.choice([1.0, 2.0, 4.0, 3.0])]
    dens = [float(rng.choice([0, 0, 1, 2, 0.5, 3, 0.25])) for _ in range(n[0] * n[1] * n[2])]
    if rng.random() < 0.3:
        dens = [d if rng.random() < 0.8 else -d for d in dens]
    case = {"kind": "lattice", "hn": rng.choice([1, 2, 2, 3, 4, 5]), "m": rng.choice([None, None, 1, 2, 3, 4]),
            "ext": ext, "n": n, "dens": dens}
    if rng.random() < 0.15:
        case["n_as"] = "np"
    r = rng.random()
    if r < 0.25:
        case["late_fill"] = rng.choice(["zeros", "other"])
    elif r < 0.35:
        case["twice"] = rng.choice([1, 2, 3, 4])
    elif r < 0.45:
        case["before"] = gen_before(rng, case["hn"], case["m"])
    elif r < 0.7:
        if rng.random() < 0.8:
            ext2 = []
            for d in range(3):
                lo = rng.choice([-3.0, -1.5, 0.5, 1.0, -6.0])
                ext2 += [lo, lo + rng.choice([1.5, 2.0, 5.0, 6.0])]
            case["prev"] = {"kind": "lattice", "ext": ext2, "n": list(n), "dens": [float(rng.choice([0, 1, 2, 0.5])) for _ in dens]}
        else:
            case["prev"] = {"kind": "particles", "particles": [{"x": 1.0, "y": 0.5, "E": 1.0}, {"x": -2.0, "y": 1.0, "E": 2.0}]}
    return case


def gen_case(rng, small=False):
    if rng.random() < 0.25 and not small:
        return gen_lattice(rng)
    case = gen_particles(rng, small)
    if not small and rng.random() < 0.15 and case.get("particles") and all(p.get("x") is not None and p.get("y") is not None for p in case["particles"]):
        # the same Particle objects sat elsewhere (rotated by a quarter turn / mirrored / shifted) when the object was first asked
        how = rng.choice(["rot", "mirror", "shift"])
        mv = []
        for p in case["particles"]:
            q2 = dict(p)
            if how == "rot":
                q2["x"], q2["y"] = -p["y"], p["x"]
            elif how == "mirror":
                q2["x"] = -p["x"]
            else:
                q2["x"], q2["y"] = p["x"] + 1.0, p["y"] - 0.5
            mv.append(q2)
        case["moved_from"] = mv
        return case
    if not small and rng.random() < 0.15:
        pv = gen_lattice(rng)
        case["prev"] = {"kind": "lattice", "ext": pv["ext"], "n": pv["n"], "dens": pv["dens"]} if rng.random() < 0.5 else \
            {"kind": "particles", "particles": [{"x": 1.0, "y": 0.5, "E": 1.0, "charge": 1, "baryon_number": 1, "strangeness": 0},
                                                {"x": -2.0, "y": 1.0, "E": 2.0, "charge": -1, "baryon_number": 0, "strangeness": 1}]}
    return case


# ----------------------------------------------------------------------------- Coq side
PRELUDE = """From Coq Require Import List ZArith QArith Qabs Bool String.
From SX Require Import Lib.KRing Lib.Py Lib.QCheck Gen.GenEcc Model.Ecc.
Import ListNotations.
Local Open Scope Q_scope.
Definition err_eqb (a b : errcls) : bool :=
  match a, b with TypeError, TypeError | ValueError, ValueError | IndexError, IndexError | KeyError, KeyError
  | AttributeError, AttributeError | ZeroDivisionError, ZeroDivisionError | OtherError, OtherError => true | _, _ => false end.
Inductive expect := EVal (re im : fv) | EErr (e : errcls).
Record ospec := { s_x : Q; s_y : Q; s_r : Q; s_E : option Q; s_charge : option Q; s_baryon : option Q; s_strange : option Q }.
Definition attr_of (s : ospec) (a : string) : option Q :=
  if String.eqb a "E" then s_E s else if String.eqb a "charge" then s_charge s
  else if String.eqb a "baryon_number" then s_baryon s else if String.eqb a "strangeness" then s_strange s else None.
Definition mk_obs (s : ospec) : pobs Q := {| ox := s_x s; oy := s_y s; orad := s_r s; oattr := attr_of s |}.
Definition big : Q := 1000000000.
(* 0 exact, 1 within 1e-9, 2 mismatch; a non-finite result of the model matches nan/inf or an astronomically large value *)
Definition cmp1 (m : Q) (i : fv) : nat :=
  match i with
  | Fin x => if Qeq_bool m x then 0%nat
             else if Qle_bool (Qabs (m - x)) ((1 # 1000000000) * (Qabs m + Qabs x + 1)) then 1%nat else 2%nat
  | _ => 2%nat
  end.
Definition huge (i : fv) : bool := match i with Fin x => Qle_bool big (Qabs x) | _ => true end.
Definition cmp (r : result (option (Q * Q))) (e : expect) : nat :=
  match r, e with
  | Ok (Some (a, b)), EVal x y => Nat.max (cmp1 a x) (cmp1 b y)
  | Ok None, EVal x y => if huge x || huge y then 0%nat else 2%nat
  | Err a, EErr b => if err_eqb a b then 0%nat else 2%nat
  | _, _ => 2%nat
  end.
Fixpoint rad_tab (t : list (Q * Q * Q)) (x y : Q) : Q :=
  match t with [] => 0 | (a, b, r) :: u => if Qeq_bool a x && Qeq_bool b y then r else rad_tab u x y end.
Definition dens_of (ny nz : nat) (l : list Q) : nat -> nat -> nat -> Q := fun i j k => nth ((i * ny + j) * nz + k) l 0.
"""


def radius(x, y):
    """exact when x^2 + y^2 is the square of a double, else numpy's sqrt (the sqrt oracle)"""
    s = Fraction(x) ** 2 + Fraction(y) ** 2
    r = Fraction(float(np.sqrt(float(s))))
    return r


def oq(v):
    return "None" if v is None else f"(Some {q(v)})"


def fvt(x):
    if math.isnan(x):
        return "NaN"
    if math.isinf(x):
        return "PInf" if x > 0 else "NInf"
    return f"(Fin {q(x)})"


def expect_term(g):
    return f"(EErr {g['err']})" if g["status"] == "err" else f"(EVal {fvt(g['re'])} {fvt(g['im'])})"


def coq_case(case, got):
    mt = "None" if case["m"] is None else f"(Some {z(case['m'])}%Z)"
    if case["kind"] == "particles":
        ps = []
        for p in case["particles"]:
            ps.append(f"(mk_obs {{| s_x := {q(p['x'])}; s_y := {q(p['y'])}; s_r := {q(radius(p['x'], p['y']))}; s_E := {oq(p.get('E'))}; "
                      f"s_charge := {oq(p.get('charge'))}; s_baryon := {oq(p.get('baryon_number'))}; s_strange := {oq(p.get('strangeness'))} |}})")
        return (f"(cmp (q_ecc_from_particles {z(case['n'])} {mt} {C.coq_str(case['weight'])} {coq_list(ps)}) {expect_term(got)})")
    xs, ys, _ = lattice_nodes(case)                 # node coordinates from the case, not from the object under test
    tab = coq_list([f"({q(x)}, {q(y)}, {q(radius(x, y))})" for x in xs for y in ys])
    n = case["n"]
    return (f"(cmp (q_ecc_from_lattice {z(case['hn'])} {mt} {coq_list([q(v) for v in xs])} {coq_list([q(v) for v in ys])} {n[2]}%nat "
            f"(rad_tab {tab}) (dens_of {n[1]} {n[2]} {coq_list([q(v) for v in case['dens']])})) {expect_term(got)})")


def correspondence(ctx, model_ok=True):
    ncases = 300 if ctx.quick else 4000
    cases = []
    corpus = os.path.join(C.VERIF, "corpus", ID)
    if os.path.isdir(corpus):
        for fn in sorted(os.listdir(corpus)):
            cases.append(json.load(open(os.path.join(corpus, fn)))["case"])
    while len(cases) < ncases:
        cases.append(gen_case(ctx.rng))
    gots = [run_impl(c) for c in cases]
    dist = {"kind": {}, "n": {}, "m": {}, "weight": {}, "rejected_by_impl": 0, "exact_radius_cases": 0, "multiplicity": {}}
    keys = set()
    for c, g in zip(cases, gots):
        dist["kind"][c["kind"]] = dist["kind"].get(c["kind"], 0) + 1
        hn = harmonic(c)
        dist["n"][hn] = dist["n"].get(hn, 0) + 1
        dist["m"][str(c["m"])] = dist["m"].get(str(c["m"]), 0) + 1
        if c["kind"] == "particles":
            dist["weight"][c["weight"]] = dist["weight"].get(c["weight"], 0) + 1
            k = len(c["particles"])
            dist["multiplicity"][k] = dist["multiplicity"].get(k, 0) + 1
            if all((Fraction(p["x"]) ** 2 + Fraction(p["y"]) ** 2) == radius(p["x"], p["y"]) ** 2 for p in c["particles"]):
                dist["exact_radius_cases"] += 1
        dist["rejected_by_impl"] += g["status"] == "err"
        if (c["kind"] == "lattice") or len(c["particles"]) >= 1:
            keys.add(json.dumps(c, sort_keys=True))
    out = {"evaluations": len(cases), "distinct_nontrivial": len(keys), "distribution": dist,
           "rule": "seeded random cases: (particles) 1-6 particles on scaled Pythagorean points (rational radius, the Q model is "
                   "exact) or generic dyadic points (radius from np.sqrt), incl. the origin; n = 1..6, m omitted or 1..6, the "
                   "five weights with negative charges, through eccentricity() and eccentricity_from_particles(); invalid n, m, "
                   "weight, empty events and NaN weights; (lattice) 2-4 x 2-4 x 1-3 nodes with dyadic densities (some negative), "
                   "all z. The generated loop body + Model/Ecc.v run at exact Q by vm_compute and are compared with the complex "
                   "number (or exception class) the real code returns, within 1e-9. Non-trivial = at least one particle / a "
                   "lattice; distinct by canonical JSON.",
           "samples": cases[:3], "model_runner": "Eval vm_compute in generated cases files (sharded coqc)",
           "failures": [], "broken": []}
    out["all_cases"] = cases          # the driver runs the property oracle on these as well
    if not model_ok:
        out["broken"].append({"what": "correspondence not run: the model did not build"})
        return out
    ok, log = C.make(["Model/Ecc.vo", "Lib/QCheck.vo"])
    if not ok:
        out["broken"].append({"what": "model Model/Ecc.v does not build", "detail": log[-800:]})
        return out
    shard = 100
    files = []
    for i in range(0, len(cases), shard):
        body = coq_list([coq_case(c, g) for c, g in zip(cases[i:i + shard], gots[i:i + shard])])
        files.append((f"c18_{i // shard}", PRELUDE + f"Eval vm_compute in {body}.\n"))
    res = C.coq_eval_many(ctx, files)
    codes = []
    for (ok, o), (name, _) in zip(res, files):
        if not ok:
            out["broken"].append({"what": f"cases file {name} failed to evaluate", "detail": o[-800:]})
            return out
        codes += C.parse_codes(o)
    if len(codes) != len(cases):
        out["broken"].append({"what": "cases output could not be parsed", "detail": f"{len(codes)} codes for {len(cases)} cases"})
        return out
    out["exact_agreements"] = sum(1 for c in codes if c == 0)
    out["tolerance_agreements"] = sum(1 for c in codes if c == 1)
    out["traces_validated_against_impl"] = sum(1 for c in codes if c <= 1)
    skipped = 0
    for c, g, code in zip(cases, gots, codes):
        if code >= 2:
            # outside the property's domain (sum(w r^m) vanishes, exactly or up to rounding): the quotient is 0/0-like, the exact
            # model and the float code need not agree there - not compared, counted
            try:
                n, m = harmonic(c), c["m"]
                pts = points_of(c)
                if n >= 1 and (m is None or m >= 1) and pts and not any(math.isnan(w) for _, _, w in pts):
                    _, den, ab = defining(pts, n, m)
                    if ab == 0 or abs(den) < 1e-6 * ab:
                        skipped += 1
                        continue
            except Exception:
                pass
            out["failures"].append(Failure(c, f"model and implementation disagree (code {code}): impl={g}"))
    out["distribution"]["vanishing_denominator_not_compared"] = skipped
    return out


# ----------------------------------------------------------------------------- search (metamorphic runs on the real code)
def search(ctx):
    found, n = [], 0
    budget = 200 if ctx.quick else 2000
    for i in range(budget):
        c = gen_case(ctx.rng, small=(i % 2 == 0))
        n += 1
        msg = oracle(c)
        if msg:
            c = shrink(c)
            found.append(Failure(c, "property oracle fails on the implementation", on_impl=oracle(c)))
            break
    return found, n


def shrink(case):
    if case["kind"] != "particles":
        return case
    cur, changed = case, True
    while changed:
        changed = False
        ps = cur["particles"]
        for i in range(len(ps)):
            if len(ps) > 1:
                cand = dict(cur, particles=ps[:i] + ps[i + 1:])
                try:
                    if oracle(cand):
                        cur, changed = cand, True
                        break
                except Exception:
                    pass
    return cur


LEVEL_TEXT = ("Theorems (Coq, any field with decidable zero; all particle lists / lattices, all n >= 1, all m): the value is "
              "-sum(w r^m u^n)/sum(w r^m) with m = 3 for n = 1, m = n otherwise, the given m when there is one; rotation "
              "multiplies it by e^{i n alpha}, reflection x -> -x maps it to (-1)^n conj, scaling positions or weights and any "
              "Permutation leave it unchanged; the lattice variant is the same core over the nodes weighted by their value; "
              "invalid n, m, weight are ValueError; over R: |eps| <= 1 for non-negative weights (triangle inequality by "
              "induction) and u^n = (cos n phi, sin n phi) (De Moivre) ties the algebraic form to the code's arctan2/cos/sin. "
              "The loop body, return expression (incl. its sign), radial-power chain and tables are regenerated from the source.")
LEVEL_NOTE = ("Trusted: Coq kernel/vm_compute; translator gen_ecc; hand model Model/Ecc.v (loop, unit vector for arctan2, numpy "
              "division) validated by the correspondence; sqrt as an oracle supplied by the harness; exact arithmetic instead of "
              "IEEE rounding (1e-9); R statements on the stdlib real axioms; that arctan2 returns the polar angle is not proved "
              "(the theorem is stated for any angle phi with x = r cos phi, y = r sin phi).")
TECHNIQUE = ("Coq proofs over an abstract field (ring/field tactics, induction on n for (u v)^n = u^n v^n and (-conj u)^n, on the "
             "list for sums and Permutation), nra-backed induction for the triangle inequality and cos/sin addition for De Moivre "
             "over R; vm_compute correspondence on rational-radius events; metamorphic search on the real code")

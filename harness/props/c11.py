"""C11 - Q-cumulant flow equals the defining multi-particle azimuthal correlators (flow/QCumulantFlow.py)."""
import itertools, json, math, os
from fractions import Fraction
import numpy as np
import common as C
from common import Failure, q, coq_list

ID = "C11"
GEN = ["gen_qcumulant"]
MODEL_INDEPENDENT_OF_PROOFS = True   # Model/QCumulant.v and Gen/GenQCumulant.v build without the proofs
ALLOWED_AXIOMS = C.STD_REAL_AXIOMS
TRUSTED = [
    "Coq 8.16.1 kernel + vm_compute (no native_compute)",
    "translator tools/py2coq/gen_qcumulant.py (npvec + dtree extractors): reads __calculate_corr, __cumulant_flow, "
    "__flow_from_cumulant(_differential), __compute_differential_flow_bin, the constructor lists and the selector "
    "validation/dispatch into Coq terms; its reading of numpy (np.sum/inner/vdot/real/square/power, broadcasting) is "
    "validated by this run's correspondence",
    "translator reading of __Qn(phi, h*n): with z = exp(i n phi), exp(i h n phi) = z^h (De Moivre, C11_cos_bridge over R)",
    "hand model coq/Model/QCumulant.v: the phi/binning loops of integrated_flow and differential_flow (pinned by their "
    "normalised source text in the translator), the empty-bin guard, argument validation; tied by correspondence",
    "closed forms coq/Proofs/C11_Closed.v were generated once by tools/dev/gen_c11_closed.py and are checked by coqc",
    "float rounding is not modelled: theorems are exact identities over any commutative ring (instances R, Z, Q)",
    "x ** (c/k) is the oracle krpow (law used: (x^(1/k))^k = x for x >= 0); >=, >, < on floats are abstract boolean tests",
]
ASSUMPTIONS = [
    "particles enter through z = exp(i n phi) with z * conj z = 1; phi() itself is covered by C08",
    "events in which every correlator denominator vanishes (all multiplicities < k) give NaN/inf in the real code and are "
    "outside the property's quantifier (multiplicities >= k); the numerator identities hold for all multiplicities",
    "the statistical error (second return value) is not part of C11 and is not modelled",
    "theorems instantiated at R depend on the stdlib real-number axioms only",
]

SELECTORS = ["pT", "rapidity", "pseudorapidity"]


# --------------------------------------------------------------------------------------------- particles
def zpoint(p, qq):
    """rational point of the unit circle from the parameter p/q (q = 0: the point -1)"""
    d = qq * qq + p * p
    return Fraction(qq * qq - p * p, d), Fraction(2 * p * qq, d)


def mk_particle(spec, n):
    from sparkx.Particle import Particle
    a, b = zpoint(spec["p"], spec["q"])
    theta = math.atan2(float(b), float(a))
    phi = (theta + 2.0 * math.pi * spec["j"]) / n
    pt = float(spec["pt"])
    P = Particle()
    P.px = pt * math.cos(phi)
    P.py = pt * math.sin(phi)
    P.pz = pt * math.sinh(float(spec["eta"]))
    P.E = math.sqrt(pt * pt + P.pz * P.pz + 0.0196)
    P.pdg = int(spec["pdg"])
    return P


def mk_events(case):
    if case.get("share"):
        # particles with identical data in different events are ONE Particle object that sits in several event lists
        # (mixed events, a common pool); within one event every entry is its own object
        pool, out = {}, []
        for ev in case["events"]:
            used, l = set(), []
            for s in ev:
                key = json.dumps(s, sort_keys=True)
                if key in used or key not in pool:
                    obj = mk_particle(s, case["n"])
                    if key not in pool:
                        pool[key] = obj
                else:
                    obj = pool[key]
                used.add(key)
                l.append(obj)
            out.append(l)
        return out
    out = [[mk_particle(s, case["n"]) for s in ev] for ev in case["events"]]
    for e, i, j in case.get("dup_in_event", []):
        # one Particle object at two positions of ONE event: the tuples run over positions, it counts as two particles
        if e < len(out) and i < len(out[e]) and j < len(out[e]) and case["events"][e][i] == case["events"][e][j]:
            out[e][j] = out[e][i]
    return out


def run_impl(case):
    """real code: constructor, integrated_flow / differential_flow value(s), and the correlators <<2>>..<<k>>"""
    from sparkx.flow.QCumulantFlow import QCumulantFlow
    out = {"flow": None, "corr": {}}
    evs = mk_events(case)
    with np.errstate(all="ignore"):
        try:
            obj = QCumulantFlow(n=case["n"], k=case["k"], imaginary=case["imag"])
        except (ValueError, TypeError) as e:
            out["flow"] = {"err": type(e).__name__}
            return out
        bins = None
        if case["mode"] != "int":
            rep = case.get("bins_repr", "list")
            integral = all(float(b) == int(b) for b in case["bins"])
            bins = list(case["bins"])
            if rep == "int_list" and integral:
                bins = [int(b) for b in bins]               # the same edges written as Python ints
            elif rep == "ndarray":
                bins = np.array(bins, dtype=float)
            elif rep == "int_ndarray" and integral:
                bins = np.array([int(b) for b in bins], dtype=np.int64)
        poi = case.get("poi")
        if poi is not None and case.get("poi_repr") == "obj_ndarray":
            arr = np.empty(len(poi), dtype=object)             # the documented alternative to a list (elements stay Python ints)
            arr[:] = [int(x) for x in poi]
            poi = arr
        elif poi is not None and case.get("poi_repr") == "int_ndarray":
            # numpy.array([211]): its elements are numpy.int64 (a documented argument type; the argument check used to reject it,
            # repaired in /repo - see known_findings.json)
            poi = np.array([int(x) for x in poi], dtype=np.int64)
        if case.get("reuse"):
            # the SAME estimator object has analysed another sample before, handed over in the SAME list object, which was then
            # refilled in place (same number of events, same multiplicities): nothing of the first sample may survive
            try:
                pre = [[dict(s, p=(i % 3) + 1, q=2) for i, s in enumerate(ev)] for ev in case["events"]]
                L = [[mk_particle(s, case["n"]) for s in ev] for ev in pre]
                if case["mode"] == "int":
                    obj.integrated_flow(L)
                else:
                    obj.differential_flow(L, bins, case["sel"], poi)
                if case["reuse"] == "inner":
                    for i in range(len(L)):
                        L[i][:] = evs[i]
                else:
                    L[:] = evs
                evs = L
            except Exception:
                pass
        try:
            if case["mode"] == "int":
                out["flow"] = {"val": float(obj.integrated_flow(evs)[0])}
            else:
                r = obj.differential_flow(evs, bins, case["sel"], poi)
                out["flow"] = {"bins": [None if len(b) == 0 else float(np.real(b[0])) for b in r]}
        except (ValueError, TypeError, IndexError, UnboundLocalError, ZeroDivisionError) as e:
            out["flow"] = {"err": type(e).__name__}
        # the correlators themselves (private method; observation only)
        try:
            phi = [[P.phi() for P in ev] for ev in evs]
            for kk in (2, 4, 6):
                if kk <= case["k"]:
                    out["corr"][str(kk)] = float(obj._QCumulantFlow__calculate_corr(phi, kk)[0])
        except Exception as e:  # noqa
            out["corr"] = {"err": type(e).__name__}
    return out


# --------------------------------------------------------------------------------------------- property oracle
class CQ:
    """exact complex rational"""
    __slots__ = ("r", "i")

    def __init__(self, r, i=0):
        self.r, self.i = Fraction(r), Fraction(i)

    def __add__(s, o): return CQ(s.r + o.r, s.i + o.i)
    def __mul__(s, o): return CQ(s.r * o.r - s.i * o.i, s.r * o.i + s.i * o.r)
    def conj(s): return CQ(s.r, -s.i)


def prod(xs):
    r = CQ(1)
    for x in xs:
        r = r * x
    return r


def tuple_sum(zs, k, first=None):
    """sum over ordered 2k-tuples of distinct positions of z..z conj z..conj z (k each);
    with `first` (a list of flags) the first position is restricted to flagged entries.  Returns (sum, #tuples)."""
    n = len(zs)
    idx = range(n)
    tot, cnt = CQ(0), 0
    if first is None:
        for A in itertools.combinations(idx, k):
            pa = prod(zs[i] for i in A)
            rest = [i for i in idx if i not in A]
            for B in itertools.combinations(rest, k):
                tot = tot + pa * prod(zs[i].conj() for i in B)
                cnt += 1
        f = math.factorial(k) ** 2
        return CQ(tot.r * f, tot.i * f), cnt * f
    for t in itertools.permutations(idx, 2 * k):
        if not first[t[0]]:
            continue
        tot = tot + prod(zs[i] for i in t[:k]) * prod(zs[i].conj() for i in t[k:])
        cnt += 1
    return tot, cnt


def tuple_sum_poly(zs, k):
    """the same sum over ordered 2k-tuples of distinct positions for LARGE events, still exact: (k!)^2 times the coefficient of
    x^k y^k of prod_j (1 + x z_j + y conj z_j) (each position is used at most once, in the x-part or in the y-part)"""
    c = [[CQ(0) for _ in range(k + 1)] for _ in range(k + 1)]
    c[0][0] = CQ(1)
    for z in zs:
        zc = z.conj()
        for a in range(k, -1, -1):
            for b in range(k, -1, -1):
                v = c[a][b]
                if a > 0:
                    v = v + z * c[a - 1][b]
                if b > 0:
                    v = v + zc * c[a][b - 1]
                c[a][b] = v
    f = math.factorial(k) ** 2
    cnt = 1
    for i in range(2 * k):
        cnt *= (len(zs) - i)
    return CQ(c[k][k].r * f, c[k][k].i * f), max(cnt, 0)


def def_corr(case, k, flags=None):
    """<<2k>> by the definition: average over all tuples of all events (None when there is no tuple)"""
    num, den = Fraction(0), 0
    for e, ev in enumerate(case["events"]):
        zs = [CQ(*zpoint(s["p"], s["q"])) for s in ev]
        if flags is None and len(zs) > 14:
            s, c = tuple_sum_poly(zs, k)
            num += s.r
            den += c
            continue
        s, c = tuple_sum(zs, k, None if flags is None else flags[e])
        num += s.r
        den += c
    return None if den == 0 else num / den


def sel_value(spec, sel):
    """the selector value of a generated particle from its spec alone (mk_particle: transverse momentum pt in the azimuthal direction
    phi, pz = pt sinh(eta), m^2 = 0.0196): pT = pt, pseudorapidity = eta, rapidity from E and pz"""
    pt, eta = float(spec["pt"]), float(spec["eta"])
    if sel == "pT":
        return pt
    if sel == "pseudorapidity":
        return eta
    pz = pt * math.sinh(eta)
    E = math.sqrt(pt * pt + pz * pz + 0.0196)
    return 0.5 * math.log((E + pz) / (E - pz))


def in_bin(spec, P, sel, lo, hi):
    """lo <= value < hi with the value computed here from the spec - NOT read from Particle.pT_abs()/rapidity()/pseudorapidity().
    Only when that value lies within rounding (1e-9) of an edge does the accessor's value decide on which side it falls, and only
    if it agrees with the value computed here to 1e-9 (edges of the generated cases are placed on accessor values on purpose)"""
    v = sel_value(spec, sel)
    eps = 1e-9 * (1.0 + abs(v))
    if abs(v - lo) <= eps or abs(v - hi) <= eps:
        vo = float({"pT": P.pT_abs, "rapidity": P.rapidity, "pseudorapidity": P.pseudorapidity}[sel]())
        if abs(vo - v) <= eps:
            v = vo
    return lo <= v < hi


def root(x, c, k):
    return float(x) ** (c / k)


def expected_flow(case):
    """the value the property prescribes: ('val', float) | ('nan',) | ('err',) | ('bins', [...]) | None (undefined)"""
    k, imag = case["k"], case["imag"]
    if k not in (2, 4, 6) or imag not in ("zero", "negative", "nan"):
        return ("err",)
    c2 = def_corr(case, 1)
    c4 = def_corr(case, 2) if k >= 4 else None
    c6 = def_corr(case, 3) if k >= 6 else None
    if case["mode"] == "int":
        if c2 is None or (k >= 4 and c4 is None) or (k >= 6 and c6 is None):
            return None
        cum = {2: c2, 4: (c4 - 2 * c2 ** 2) if k >= 4 else None,
               6: (c6 - 9 * c2 * c4 + 12 * c2 ** 3) if k >= 6 else None}[k]
        x = {2: 1, 4: -1, 6: Fraction(1, 4)}[k] * cum
        if abs(x) < Fraction(1, 10**12) and imag == "nan":
            # v_n{k}^k is (numerically) zero: whether the float evaluation lands on -1e-17 (-> NaN in this mode) or on
            # +1e-17 (-> a root of it) is rounding, not something the property fixes
            return None
        if x >= 0:
            return ("val", root(x, 1, k))
        return {"negative": ("val", -root(-x, 1, k)), "zero": ("val", 0.0), "nan": ("nan",)}[imag]
    # differential
    if case["sel"] not in SELECTORS or k == 6:
        return ("err",)
    evs = mk_events(case)
    res = []
    for lo, hi in zip(case["bins"][:-1], case["bins"][1:]):
        # bin membership and species from the case data (spec), not from the Particle accessors the implementation reads
        flags = [[in_bin(sp, P, case["sel"], lo, hi) and (case["poi"] is None or int(sp["pdg"]) in case["poi"]) for sp, P in zip(sev, ev)]
                 for sev, ev in zip(case["events"], evs)]
        nbin = sum(in_bin(sp, P, case["sel"], lo, hi) for sev, ev in zip(case["events"], evs) for sp, P in zip(sev, ev))
        if sum(map(sum, flags)) == 0 or nbin == 0:
            res.append(("empty",))
            continue
        d2 = def_corr(case, 1, flags)
        if c2 is None or d2 is None or c2 == 0:
            res.append(None)
            continue
        if k == 2:
            if c2 > 0:
                res.append(("val", float(d2) / root(c2, 1, 2)))
            else:
                res.append({"negative": ("val", float(d2) / root(-c2, 1, 2)), "zero": ("val", 0.0), "nan": ("nan",)}[imag])
        else:
            d4 = def_corr(case, 2, flags)
            if c4 is None or d4 is None:
                res.append(None)
                continue
            cn4 = c4 - 2 * c2 ** 2
            dn4 = d4 - 2 * d2 * c2
            if cn4 == 0:
                res.append(None)
            elif cn4 < 0:
                res.append(("val", -float(dn4) / root(-cn4, 3, 4)))
            else:
                res.append({"negative": ("val", -float(dn4) / root(cn4, 3, 4)), "zero": ("val", 0.0), "nan": ("nan",)}[imag])
    return ("bins", res)


def agree(exp, got, tol=1e-7, k=1):
    if exp is None:
        return True
    if exp[0] == "val":
        if not (got is not None and isinstance(got, float) and math.isfinite(got)):
            return False
        # flows are k-th roots of cumulants: a cumulant that is exactly 0 is returned as (1e-16)^(1/k)
        return abs(got - exp[1]) <= tol * (abs(got) + abs(exp[1])) + 1e-9 or abs(got ** k - exp[1] ** k) <= 1e-9
    if exp[0] == "nan":
        return isinstance(got, float) and math.isnan(got)
    if exp[0] == "empty":
        return got is None
    return False


def oracle(case):
    """property oracle on the real code: the definition by brute force over tuples of distinct particles (exact
    rationals), the cumulant combinations and the documented argument handling"""
    got = run_impl(case)["flow"]
    exp = expected_flow(case)
    if exp is None:
        return None
    if exp[0] == "err":
        return None if "err" in got else f"invalid arguments accepted: returned {got}"
    if "err" in got:
        what = (f"differential_flow(..., '{case['sel']}', poi_pdg={case['poi']})" if case["mode"] == "diff"
                else "integrated_flow")
        return (f"QCumulantFlow(n={case['n']}, k={case['k']}, imaginary='{case['imag']}').{what} raises {got['err']} "
                f"on documented arguments")
    if case["mode"] == "int":
        if not agree(exp, got["val"], k=case["k"]):
            return (f"v_{case['n']}{{{case['k']}}}: integrated_flow returns {got['val']!r}, the defining correlators "
                    f"(all tuples of distinct particles, events weighted by their number of tuples) give {exp}")
        return None
    for b, (e, g) in enumerate(zip(exp[1], got["bins"])):
        if not agree(e, g):
            return (f"v'_{case['n']}{{{case['k']}}} bin {b} [{case['bins'][b]}, {case['bins'][b+1]}) sel={case['sel']} "
                    f"poi={case['poi']}: differential_flow returns {g!r}, the definition gives {e}")
    return None


# --------------------------------------------------------------------------------------------- case generation
def gen_particle(rng):
    while True:
        p, qq = rng.randint(-5, 5), rng.randint(0, 5)
        if p or qq:
            break
    return {"p": p, "q": qq, "j": rng.randint(0, 3), "pt": rng.choice([0.25, 0.5, 0.75, 1.25, 1.5, 2.25]),
            "eta": rng.choice([-1.25, -0.75, -0.25, 0.25, 0.75, 1.25]), "pdg": rng.choice([211, 211, -211, 2212])}


def gen_case(rng, small=False, errors=True):
    n = rng.choice([1, 2, 2, 3, 4])
    mode = "int" if rng.random() < 0.55 else "diff"
    k = rng.choice([2, 4, 6]) if mode == "int" else rng.choice([2, 2, 4, 4, 4, 6])
    if small and k == 6 and rng.random() < 0.5:
        k = 4
    imag = rng.choice(["zero", "negative", "negative", "nan"])
    nev = rng.choice([1, 2, 2, 3, 4]) if not small else rng.choice([1, 2, 2, 3])
    equal = rng.random() < 0.3
    base = k + rng.randint(0, 2 if small else 4)
    evs = []
    for _ in range(nev):
        m = base if equal else k + rng.randint(0, 2 if small else 4)
        if rng.random() < 0.05 and nev > 1:
            m = rng.randint(0, k - 1)            # outside the quantifier, still covered by the theorems
        evs.append([gen_particle(rng) for _ in range(m)])
    if all(len(e) < k for e in evs):
        evs[0] = [gen_particle(rng) for _ in range(k)]
    case = {"n": n, "k": k, "imag": imag, "mode": mode, "events": evs}
    if mode == "diff":
        sel = rng.choice(SELECTORS)
        if errors and rng.random() < 0.06:
            sel = rng.choice(["pt", "PT", "eta", "y"])
        case["sel"] = sel
        if sel == "pT" or sel not in SELECTORS:
            edges = rng.choice([[0.0, 1.0], [0.0, 1.0, 3.0], [0.4, 0.6, 1.4], [0.0, 3.0], [1.0, 2.0]])
        else:
            edges = rng.choice([[-2.0, 0.0], [-2.0, 0.0, 2.0], [-0.5, 0.5, 1.0], [-3.0, 3.0], [0.5, 2.0]])
        if sel in SELECTORS and rng.random() < 0.3:
            # a bin edge exactly on the selector value of a particle (edges are inclusive below, exclusive above)
            ev = rng.choice([e for e in evs if e] or [[gen_particle(rng)]])
            P = mk_particle(rng.choice(ev), n)
            v = float({"pT": P.pT_abs, "rapidity": P.rapidity, "pseudorapidity": P.pseudorapidity}[sel]())
            edges = rng.choice([[v, v + 1.0], [v - 1.0, v], [v - 1.0, v, v + 1.0]])
        case["bins"] = edges
        case["poi"] = rng.choice([None, None, [211], [211, -211], [2212], [3122]])
        case["bins_repr"] = rng.choice(["list", "list", "int_list", "ndarray", "int_ndarray"])
        if case["poi"] is not None and rng.random() < 0.4:
            case["poi_repr"] = rng.choice(["obj_ndarray", "int_ndarray"])     # the documented alternative to a list: an ndarray of ids
    if rng.random() < 0.2:
        case["reuse"] = rng.choice(["inner", "outer"])
    if len(evs) > 1 and rng.random() < 0.15:
        # some particles of the first events also belong to later events - as the very same objects
        for j in range(1, len(evs)):
            src = evs[rng.randrange(j)]
            for s in rng.sample(src, min(len(src), rng.randint(1, 3))):
                if evs[j]:
                    evs[j][rng.randrange(len(evs[j]))] = dict(s)
        case["share"] = True
    elif rng.random() < 0.15:
        e = rng.randrange(len(evs))
        if len(evs[e]) >= 2:
            i, j = sorted(rng.sample(range(len(evs[e])), 2))
            evs[e][j] = dict(evs[e][i])
            case["dup_in_event"] = [[e, i, j]]
    if errors and rng.random() < 0.03:
        case["k"] = rng.choice([3, 5, 8])
    if errors and rng.random() < 0.03:
        case["imag"] = rng.choice(["Zero", "none"])
    return case


BIG_PROBES = False


def probe_cases():
    ev = [{"p": p, "q": qq, "j": 0, "pt": pt, "eta": eta, "pdg": 211}
          for p, qq, pt, eta in ((0, 1, 0.5, 0.25), (1, 1, 0.75, -0.25), (1, 2, 1.5, 0.75), (-1, 3, 0.25, 0.25), (2, 1, 1.25, -0.75), (1, 0, 0.5, 0.25))]
    out = []
    for sel in SELECTORS:
        for k in (2, 4):
            out.append({"n": 2, "k": k, "imag": "negative", "mode": "diff", "events": [ev, ev[:5]], "sel": sel,
                        "bins": [-3.0, 3.0], "poi": None})
    # large multiplicities (thousands of particles, as in central heavy-ion events): the number of 6-tuples exceeds 2^63
    pts = ((0, 1, 0.5, 0.25), (1, 1, 0.75, -0.25), (1, 2, 1.5, 0.75), (-1, 3, 0.25, 0.25), (2, 1, 1.25, -0.75), (1, 0, 0.5, 0.25),
           (3, 2, 0.5, 0.5), (-2, 5, 1.0, -0.5), (1, 4, 2.0, 0.125), (-3, 1, 0.5, -1.0), (2, 3, 0.75, 0.0))
    def big(M, shift):
        return [{"p": pts[(i * 7 + shift) % 11][0], "q": pts[(i * 7 + shift) % 11][1], "j": i % 2, "pt": pts[(i + shift) % 11][2],
                 "eta": pts[(i * 3) % 11][3], "pdg": 211} for i in range(M)]
    for n, k, ms in ((2, 6, (1500, 9)), (3, 6, (2100, 1460)), (2, 4, (1800,)), (2, 6, (66000,))):
        if max(ms) > 3000 and not BIG_PROBES:
            continue
        out.append({"n": n, "k": k, "imag": "negative", "mode": "int", "events": [big(M, e) for e, M in enumerate(ms)], "big": True})
    return out


def nontrivial(c):
    return c["k"] in (2, 4, 6) and any(len(e) >= c["k"] for e in c["events"])


# --------------------------------------------------------------------------------------------- Coq side
PRELUDE = """From Coq Require Import String ZArith QArith Qabs Bool List.
From SX Require Import Lib.KRing Lib.Cpx Lib.QCheck Gen.GenQCumulant Model.QCumulant.
Import ListNotations.
Local Open Scope Q_scope.
Definition tol : Q := 1 # 1000000000.
Inductive impl := IErr | IEmpty | INan | IVal (v : Q) | ISkip.
(* correlators are O(1): relative 1e-9 or absolute 1e-11 *)
Definition cmpa (m i : Q) : nat :=
  if Qeq_bool m i then 0%nat else if close tol m i then 1%nat else if Qle_bool (Qabs (m - i)) (1 # 100000000000) then 1%nat else 2%nat.
(* flows are k-th roots: agreement of the values (relative) or of their k-th powers (absolute) *)
Definition cmpv (k : nat) (m i : Q) : nat :=
  if Qeq_bool m i then 0%nat else if close tol m i then 1%nat
  else if Qle_bool (Qabs (Qpower m (Z.of_nat k) - Qpower i (Z.of_nat k))) (1 # 100000000000) then 1%nat else 2%nat.
Definition cmp_int (k : nat) (m : option (option Q)) (i : impl) : nat :=
  match m, i with
  | _, ISkip => 0 | None, IErr => 0 | Some None, INan => 0 | Some (Some a), IVal b => cmpv k a b | _, _ => 2
  end%nat.
Definition cmp_bin (k : nat) (m : dres Q) (i : impl) : nat :=
  match m, i with
  | _, ISkip => 0 | DErr _, IErr => 0 | DEmpty _, IEmpty => 0 | DVal _ None, INan => 0 | DVal _ (Some a), IVal b => cmpv 1 a b | _, _ => 2
  end%nat.
Definition P (z1 z2 pt y eta : Q) (pdg : Z) : qpart := Build_qpart (z1, z2) pt y eta pdg.
Definition EV (l : list qpart) : event Q qpart := ((1, 0), l).
(* a cumulant that vanishes in exact arithmetic is rounding noise in the real code: its sign (hence the `imaginary`
   branch) is not judged, only the correlators are *)
Definition qcum (k : nat) (evs : list (event Q qpart)) : Q :=
  match k with
  | 2%nat => cumulant2 Q 0 1 rplus rmult rminus Qopp rdiv qleb qltb qrpow qpart qz (fun _ => true) (fun _ => true) evs
  | 4%nat => cumulant4 Q 0 1 rplus rmult rminus Qopp rdiv qleb qltb qrpow qpart qz (fun _ => true) (fun _ => true) evs
  | _ => cumulant6 Q 0 1 rplus rmult rminus Qopp rdiv qleb qltb qrpow qpart qz (fun _ => true) (fun _ => true) evs
  end.
Definition chk_int (k : nat) (imag : string) (evs : list (event Q qpart)) (flow : impl) (corrs : list (nat * Q)) : nat :=
  worst ((match qintegrated evs k imag, flow with
          | Some _, IErr => 2
          | Some m, _ => if Qle_bool (Qabs (qcum k evs)) (1 # 1000000000000) then 0 else cmp_int k (Some m) flow
          | None, _ => cmp_int k None flow
          end)
         :: map (fun c => cmpa (qcorr (fst c) evs) (snd c)) corrs)%nat.
Definition chk_diff (k : nat) (imag sel : string) (poi : option (list Z)) (evs : list (event Q qpart))
                    (bins : list (Q * Q * impl)) : nat :=
  worst (map (fun b => cmp_bin k (qdifferential k imag sel (fst (fst b)) (snd (fst b)) poi evs) (snd b)) bins).
"""


def coq_impl(x):
    if x is None:
        return "IEmpty"
    if math.isnan(x):
        return "INan"
    if math.isinf(x):
        return "INan"
    return f"(IVal {q(x)})"


def coq_events(case):
    evs = mk_events(case)
    out = []
    for ev, real in zip(case["events"], evs):
        ps = []
        for s, Pr in zip(ev, real):
            a, b = zpoint(s["p"], s["q"])
            ps.append(f"P {q(a)} {q(b)} {q(Pr.pT_abs())} {q(Pr.rapidity())} {q(Pr.pseudorapidity())} ({int(s['pdg'])})")
        out.append("EV " + coq_list(ps))
    return coq_list(out)


def undefined_bins(case, got):
    """bins in which the property defines no value: no tuple with a particle of interest in the bin in any event,
    or a vanishing reference cumulant (division by zero in the real code); they are not compared, only counted"""
    edges = case["bins"]
    res = [False] * (len(edges) - 1)
    if "err" in got["flow"] or case["k"] not in (2, 4) or case["sel"] not in SELECTORS:
        return res
    evs = mk_events(case)
    k = case["k"]
    cr = got["corr"] if isinstance(got["corr"], dict) else {}
    c2 = cr.get("2")
    ref0 = c2 is None or abs(c2) < 1e-9
    if k == 4:
        c4 = cr.get("4")
        ref0 = ref0 or c4 is None or abs(c4 - 2 * c2 * c2) < 1e-9
    for b in range(len(edges) - 1):
        tuples = 0
        for sev, ev in zip(case["events"], evs):
            M = len(ev)
            mp = sum(in_bin(sp, P, case["sel"], edges[b], edges[b + 1]) and (case["poi"] is None or int(sp["pdg"]) in case["poi"])
                     for sp, P in zip(sev, ev))
            t = mp
            for i in range(1, k):
                t *= max(M - i, 0)
            tuples += t
        pairs = [(sp, P) for sev, ev in zip(case["events"], evs) for sp, P in zip(sev, ev)]
        nbin = sum(in_bin(sp, P, case["sel"], edges[b], edges[b + 1]) for sp, P in pairs)
        mpt = sum(in_bin(sp, P, case["sel"], edges[b], edges[b + 1]) and (case["poi"] is None or int(sp["pdg"]) in case["poi"]) for sp, P in pairs)
        if nbin > 0 and mpt > 0 and (tuples == 0 or ref0):
            res[b] = True
    return res


def coq_case(case, got):
    f = got["flow"]
    if case["mode"] == "int":
        flow = "IErr" if "err" in f else coq_impl(f["val"])
        corrs = []
        if isinstance(got["corr"], dict) and "err" not in got["corr"]:
            for kk, v in got["corr"].items():
                if math.isfinite(v):
                    corrs.append(f"({kk}%nat, {q(v)})")
        return f"(chk_int {case['k']} {C.coq_str(case['imag'])} {coq_events(case)} {flow} {coq_list(corrs)})"
    edges = case["bins"]
    bins = []
    undef = undefined_bins(case, got)
    for b in range(len(edges) - 1):
        v = "IErr" if "err" in f else ("ISkip" if undef[b] else coq_impl(f["bins"][b]))
        bins.append(f"({q(edges[b])}, {q(edges[b+1])}, {v})")
    poi = "None" if case["poi"] is None else "(Some " + coq_list([f"({int(x)})%Z" for x in case["poi"]]) + ")"
    return (f"(chk_diff {case['k']} {C.coq_str(case['imag'])} {C.coq_str(case['sel'])} {poi} {coq_events(case)} "
            f"{coq_list(bins)})")


def correspondence(ctx, model_ok=True):
    n = 300 if ctx.quick else 3000
    cases, failures = [], []
    corpus = os.path.join(C.VERIF, "corpus", ID)
    if os.path.isdir(corpus):
        for fn in sorted(os.listdir(corpus)):
            cases.append(json.load(open(os.path.join(corpus, fn)))["case"])
    while len(cases) < n:
        cases.append(gen_case(ctx.rng))
    gots = [run_impl(c) for c in cases]
    dist = {"mode": {}, "k": {}, "n": {}, "n_events": {}, "imag": {}, "selector": {}, "poi_cases": 0,
            "varying_multiplicity": 0, "error_cases": 0, "nan_results": 0}
    keys = set()
    for c, g in zip(cases, gots):
        for key, v in (("mode", c["mode"]), ("k", c["k"]), ("n", c["n"]), ("n_events", len(c["events"])), ("imag", c["imag"])):
            dist[key][str(v)] = dist[key].get(str(v), 0) + 1
        if c["mode"] == "diff":
            dist["selector"][c["sel"]] = dist["selector"].get(c["sel"], 0) + 1
            dist["poi_cases"] += c["poi"] is not None
        dist["varying_multiplicity"] += len({len(e) for e in c["events"]}) > 1
        dist["error_cases"] += "err" in g["flow"]
        dist["nan_results"] += ("val" in g["flow"] and math.isnan(g["flow"]["val"]))
        if c["mode"] == "diff":
            dist["undefined_bins_not_compared"] = dist.get("undefined_bins_not_compared", 0) + sum(undefined_bins(c, g))
        if nontrivial(c) and "err" not in g["flow"]:
            keys.add(json.dumps(c, sort_keys=True))
    out = {"evaluations": len(cases), "distinct_nontrivial": len(keys), "distribution": dist,
           "rule": "seeded random samples: 1-4 events, multiplicities k..k+4 (equal or varying, a few events below k), "
                   "particles on rational points of the unit circle for the harmonic n (n = 1..4), all imaginary modes, "
                   "integrated and differential (pT / rapidity / pseudorapidity bins, with and without poi_pdg), plus a few "
                   "invalid k / imaginary / selector arguments; non-trivial = accepted arguments and at least one event "
                   "with >= k particles; distinct by canonical JSON.  Model = generated formulas + Model/QCumulant.v at "
                   "exact Q (vm_compute), compared with integrated_flow()[0], differential_flow()[bin][0] and "
                   "__calculate_corr()[0] of the real code within 1e-9 relative; the per-event random rotation of the "
                   "real code is left in place (immaterial by C11_corr*/C12)",
           "samples": cases[:3], "model_runner": "Eval vm_compute in generated cases files (sharded coqc)",
           "failures": [], "broken": []}
    out["all_cases"] = cases          # the driver runs the property oracle on these as well
    if not model_ok:
        out["broken"].append({"what": "correspondence not run: the model's proofs/definitions did not build"})
        return out
    ok, log = C.make(["Model/QCumulant.vo", "Lib/QCheck.vo"])
    if not ok:
        out["broken"].append({"what": "model Model/QCumulant.v does not build", "detail": log[-800:]})
        return out
    shard = 60
    files = []
    for i in range(0, len(cases), shard):
        body = coq_list([coq_case(c, g) for c, g in zip(cases[i:i + shard], gots[i:i + shard])])
        files.append((f"c11_{i//shard}", PRELUDE + f"Eval vm_compute in {body}.\n"))
    res = C.coq_eval_many(ctx, files)
    codes = []
    for (ok, o), (name, _) in zip(res, files):
        if not ok:
            out["broken"].append({"what": f"cases file {name} failed to evaluate", "detail": o[-800:]})
            return out
        codes += C.parse_codes(o)
    if len(codes) != len(cases):
        out["broken"].append({"what": "cases output could not be parsed", "detail": f"{len(codes)} codes for {len(cases)} cases"})
        return out
    out["exact_agreements"] = sum(1 for c in codes if c == 0)
    out["tolerance_agreements"] = sum(1 for c in codes if c == 1)
    out["traces_validated_against_impl"] = sum(1 for c in codes if c <= 1)
    per_class = {}
    # documented-argument probes: every documented selector / default must be accepted and give the defined value
    for pc in probe_cases():
        try:
            msg = oracle(pc)
        except Exception as e:  # noqa
            msg = f"oracle crashed: {type(e).__name__}: {e}"
        if msg:
            cl = failure_class(pc, msg)
            if cl not in per_class:
                per_class[cl] = 1
                out["failures"].append(Failure(pc, f"{cl}: documented-argument probe", on_impl=msg))
    out["documented_argument_probes"] = len(probe_cases())
    for c, g, code in zip(cases, gots, codes):
        if code >= 2:
            try:
                msg = oracle(c)
            except Exception as e:  # noqa
                msg = None
            cl = failure_class(c, msg) if msg else "model/implementation"
            if per_class.get(cl, 0) >= (1 if msg else 5):
                continue
            per_class[cl] = per_class.get(cl, 0) + 1
            if msg:
                c = shrink(c, cl)
                msg = oracle(c)
            out["failures"].append(Failure(c, f"{cl}: model and implementation disagree (code {code}): impl={g}",
                                           on_impl=msg or None))
    return out


# --------------------------------------------------------------------------------------------- search
def failure_class(case, msg):
    if "raises" in msg:
        return "documented arguments rejected"
    if case["mode"] == "int":
        return f"integrated k={case['k']}"
    if "returns nan" in msg:
        return "differential NaN"
    return "differential with poi_pdg" if case["poi"] is not None else "differential"


def search(ctx):
    """property oracle on the real code over small samples; one shrunk failing input per failure class"""
    found, n, seen = [], 0, set()
    budget = 150 if ctx.quick else 1500
    bigs = [pc for pc in probe_cases() if pc.get("big")]
    for i in range(budget + len(bigs)):
        c = bigs[i] if i < len(bigs) else gen_case(ctx.rng, small=True, errors=False)
        n += 1
        try:
            msg = oracle(c)
        except Exception as e:  # noqa
            msg = None
        if msg:
            cl = failure_class(c, msg)
            if cl in seen:
                continue
            seen.add(cl)
            c = c if c.get("big") else shrink(c, cl)
            found.append(Failure(c, f"{cl}: property oracle fails on the implementation", on_impl=oracle(c)))
            if len(found) >= 5:
                break
    return found, n


def shrink(case, cl=None):
    cur, changed = case, True
    while changed:
        changed = False
        for cand in _smaller(cur):
            try:
                m = oracle(cand)
                if m and (cl is None or failure_class(cand, m) == cl):
                    cur, changed = cand, True
                    break
            except Exception:
                pass
    return cur


def _smaller(c):
    evs = c["events"]
    for i in range(len(evs)):
        if len(evs) > 1:
            yield dict(c, events=evs[:i] + evs[i + 1:])
    for i, ev in enumerate(evs):
        for j in range(len(ev)):
            yield dict(c, events=evs[:i] + [ev[:j] + ev[j + 1:]] + evs[i + 1:])
    if c["mode"] == "diff" and len(c["bins"]) > 2:
        yield dict(c, bins=c["bins"][:-1])
        yield dict(c, bins=c["bins"][1:])
    if c["n"] != 1:
        yield dict(c, n=1)
    for i, ev in enumerate(evs):
        for j, p in enumerate(ev):
            if (p["p"], p["q"]) != (0, 1):
                yield dict(c, events=evs[:i] + [ev[:j] + [dict(p, p=0, q=1, j=0)] + ev[j + 1:]] + evs[i + 1:])


LEVEL_TEXT = ("Theorems (Coq, any commutative ring, all event lists, all multiplicities, unit-modulus entries, any unit "
              "rotation per event): the <<2>>, <<4>>, <<6>> regenerated from the source equal sum_events Re dsum2 k k / "
              "sum_events M(M-1)..(M-2k+1) where dsum2 is the sum over ordered tuples of DISTINCT particles; cumulant "
              "combinations c_2, c_4, c_6; v^k = factor * c_k on the real branch and the three `imaginary` modes; the "
              "differential <<2'>>, <<4'>> (real part) with the first particle restricted to the particles of interest in "
              "the bin; d_n{4}, c_n{4} and the differential flow decision tree; selector/constructor tables. A changed "
              "coefficient, sign, conjugate or weight in the source breaks a `ring` step.")
LEVEL_NOTE = ("Trusted: Coq kernel/vm_compute; translator gen_qcumulant (npvec, dtree) incl. its reading of __Qn via De "
              "Moivre; hand model Model/QCumulant.v (phi/binning loops, guard) validated by correspondence and pinned by "
              "source text; exact arithmetic instead of IEEE rounding; roots and float comparisons as oracles; errors "
              "(second return value) not covered. R instances use the stdlib real axioms.")
TECHNIQUE = ("Coq proof by induction over each event's particle list (closed forms of distinct-tuple sums by inclusion-"
             "exclusion, step identities closed by ring with the cofactor of z*conj z - 1) and over the event list, on "
             "formulas regenerated from the Python source; vm_compute correspondence at exact rationals")

"""C10 - Histogram stays well-formed over any history; averaging and output are exact (Histogram.py)."""
import json, math, os, warnings
from fractions import Fraction
import numpy as np
import common as C
from common import Failure
from props import _hist as H

ID = "C10"
GEN = []
ALLOWED_AXIOMS = []
MODEL_INDEPENDENT_OF_PROOFS = True
TRUSTED = [
    "Coq 8.16.1 kernel + vm_compute (no native_compute)",
    "hand model coq/Model/Histogram.v of sparkx.Histogram (arrays carry their numpy shape A1/A2, results Ok | Err cls), "
    "tied to the code by this run's correspondence only (nothing is regenerated from the source)",
    "numpy primitives as documented list semantics: digitize, insert, delete, vstack, average(axis=0, weights), sum(axis=0), reshape(1,-1)",
    "oracles: usqrt = np.sqrt (executable stand-in: exact on squares, else 1e-20 relative), ulinspace = np.linspace (its values are passed into the model)",
    "float rounding is not modelled: values are exact rationals (Qc); NaN and +-inf are one non-finite cell value",
    "csv.writer / float repr round trip (the written cell is read back with float())",
]
ASSUMPTIONS = [
    "a history ends at the first exception (the state of a Histogram after a raised exception is not modelled)",
    "column names and labels are abstracted to numbers (only equality of names is used by the code)",
    "weights of average_weighted are a 1-D list with one entry per histogram",
    "'operand left unchanged'/aliasing claims are checked by the correspondence only",
]

LABEL_KEYS = H.DEFAULT_COLUMNS


# ----------------------------------------------------------------------------- generator
def gen_labels(rng, nhist, columns):
    mode = rng.random()
    if mode < 0.45:
        k = 1
    elif mode < 0.85:
        k = nhist
    elif mode < 0.92:
        k = nhist + 1
    elif mode < 0.97:
        k = max(0, nhist - 1)
    else:
        k = 0
    labels = []
    ctr = [0]
    for _ in range(k):
        d = {}
        keys = list(LABEL_KEYS)
        if rng.random() < 0.15:
            keys.append("extra1")
        if rng.random() < 0.06:
            keys.remove(rng.choice(keys))
        for key in keys:
            ctr[0] += 1
            d[key] = f"L{ctr[0]}"
        labels.append(d)
    return labels


def gen_columns(rng):
    r = rng.random()
    if r < 0.25:
        return None
    if r < 0.35:
        return list(LABEL_KEYS[:rng.randint(1, 8)])           # a prefix (what the test-suite covers)
    k = rng.choice([1, 1, 2, 2, 3, 3, 4, 5, 8])
    cols = rng.sample(LABEL_KEYS, k)
    if rng.random() < 0.08:
        cols.append(rng.choice(cols))                           # a repeated column
    if rng.random() < 0.05:
        cols.insert(rng.randrange(len(cols) + 1), "extra1")     # a key without data
    return cols


def stress_case(rng):
    """averaging where a numerically careless variance formula goes wrong: several histograms with identical
    non-integer contents, or with large contents that differ only slightly"""
    init = {"kind": "list", "edges": [0.0, 1.0, 2.5, 3.0]}
    k = rng.choice([3, 3, 4])
    mode = rng.choice(["same", "large"])
    ops = []
    for j in range(k):
        w = rng.choice([0.1, 0.7, 0.3]) if mode == "same" else None
        for v in (0.5, 1.5, 2.75):
            ops.append({"op": "fill", "v": v, "w": (w if mode == "same" else float(10**8 + j + 1 + int(v)))})
        if j < k - 1:
            ops.append({"op": "add_hist"})
    if rng.random() < 0.5:
        ops.append({"op": "average"})
    else:
        ws = [0.2, 0.3, 0.5, 1.0][:k] if mode == "same" else [1.0] * k
        ops.append({"op": "avg_w", "ws": ws})
    return {"init": init, "ops": ops, "write": None}


def gen_case(rng, maxops=10):
    """a history; arguments are valid with probability ~0.9 per operation (the abstract state - edges, number of
    histograms, whether every error entry is non-zero - is tracked here, independently of the implementation)"""
    if rng.random() < 0.08:
        return stress_case(rng)
    bad_init = rng.random() < 0.12
    init = H.gen_init(rng, allow_bad=bad_init)
    edges = H.edges_of(init)
    nb = max(0, len(edges) - 1)
    nh = 1
    ops = []
    pbad = rng.choice([0.0, 0.05, 0.1, 0.25])
    inc = all(a < b for a, b in zip(edges, edges[1:]))

    def bad():
        return rng.random() < pbad

    def good_fill():
        o = H.gen_fill(rng, edges, nan_ok=False)
        if o.get("w") is not None and (isinstance(o["w"], list) != isinstance(o["v"], list) or
                                        (isinstance(o["w"], list) and len(o["w"]) != len(o["v"]))):
            o.pop("w")
        return o

    def err_list(zero_ok):
        pool = [0.5, 1.0, 2.0, 0.25, 4.0, 3.0] + ([0.0] if zero_ok else [])
        return [rng.choice(pool) for _ in range(nb)]

    nops = rng.randint(1, maxops)
    while len(ops) < nops:
        r = rng.random()
        if r < 0.24:
            ops.append(H.gen_fill(rng, edges, nan_ok=True) if bad() else good_fill())
        elif r < 0.36:
            ops.append({"op": "add_hist"})
            nh += 1
        elif r < 0.46:
            o = H.gen_scale(rng, nb)
            while not bad() and not _valid_scale(o, nb):
                o = H.gen_scale(rng, nb)
            ops.append(o)
        elif r < 0.53:
            l = err_list(True)
            if bad():
                l = l + [1.0] if rng.random() < 0.5 else l[:-1]
            if l and rng.random() < 0.04:
                l[rng.randrange(len(l))] = "nan"
            ops.append({"op": rng.choice(["set_err", "set_err", "set_sys"]), "l": l})
        elif r < 0.63:
            ops.append({"op": "stat_err"})
        elif r < 0.72:
            if bad() or not inc:
                i = rng.choice([-1, nb + 1, nb + 2, rng.randint(0, nb + 1)])
                e = rng.choice(edges) + rng.choice([0.0, 0.5, -0.5, 5.0])
            else:
                i = rng.choice([0, 0, nb, rng.randint(0, nb)])
                lo = edges[i - 1] if i > 0 else edges[i] - 1.0
                e = lo + (edges[i] - lo) * rng.choice([0.5, 0.25, 0.75])
            ops.append({"op": "add_bin", "i": i, "e": e})
            if 0 <= i < len(edges) and (i == 0 or e > edges[i - 1]) and e < edges[i]:
                edges = edges[:i] + [e] + edges[i:]
                nb += 1
        elif r < 0.79:
            if bad() or nb == 0:
                i = rng.choice([-1, nb, nb, nb + 1])
            else:
                i = rng.choice([0, nb - 1, rng.randrange(nb)])
            ops.append({"op": "remove_bin", "i": i})
            if 0 <= i < nb:
                edges = edges[:i] + edges[i + 1:]
                nb -= 1
        elif r < 0.87:
            ops.append({"op": "average"})
            nh = 1
        elif r < 0.94:
            k = nh + 1 if bad() else nh
            ws = [rng.choice([1.0, 2.0, 0.5, 3.0, 1.0, 0.25, 4.0]) for _ in range(k)]
            if bad():
                ws = ([1.0, -1.0] + [0.0] * k)[:k]
            o = {"op": "avg_w", "ws": ws}
            if rng.random() < 0.4:
                o["np"] = True
            ops.append(o)
            nh = 1
        else:
            if not bad():
                # give every histogram non-zero errors first: k histograms, each filled and given errors
                k = rng.choice([1, 2, 2, 3])
                ops.append({"op": "average"})
                for j in range(k):
                    ops.append(good_fill())
                    if rng.random() < 0.3 and nb > 0:
                        ops.append({"op": "fill", "v": [rng.choice(edges[:-1]) for _ in range(nb + 2)]})
                    ops.append({"op": "set_err", "l": err_list(False)})
                    if rng.random() < 0.5:
                        ops.append({"op": "set_sys", "l": err_list(True)})
                    if j < k - 1:
                        ops.append({"op": "add_hist"})
            ops.append({"op": "avg_err"})
            nh = 1
    case = {"init": init, "ops": ops, "write": None}
    if rng.random() < 0.8:
        cols = gen_columns(rng)
        case["write"] = {"labels": gen_labels(rng, nh, cols), "columns": cols}
        if len(case["write"]["labels"]) == 1 and len(ops) >= 2 and rng.random() < 0.6:
            # the same label list object is also used for a write in the middle of the history (right after an
            # add_histogram when there is one): writing must not depend on, or leave traces in, the caller's list
            adds = [i for i, o in enumerate(ops[:-1]) if o["op"] == "add_hist"]
            case["write"]["early_at"] = rng.choice(adds) if adds and rng.random() < 0.7 else rng.randrange(len(ops) - 1)
    return case


def _valid_scale(o, nb):
    s = o["s"]
    if isinstance(s, list):
        return len(s) == nb and all((not H.isnan(x)) and x >= 0 for x in s)
    return (not H.isnan(s)) and s >= 0


# ----------------------------------------------------------------------------- property oracle (real code)
def _increasing(e):
    return all(a < b for a, b in zip(e, e[1:]))


def _shape_msg(h, nh, nb):
    for short, attr in H.ARRAYS:
        a = np.asarray(getattr(h, attr))
        if a.dtype == object or a.shape != (nh, nb):
            return f"{attr} has shape {a.shape if a.dtype != object else 'ragged'} instead of ({nh}, {nb})"
    if len(np.asarray(h.bin_edges_)) != nb + 1:
        return f"bin_edges_ has {len(h.bin_edges_)} entries for {nb} bins"
    if h.number_of_histograms_ != nh or h.number_of_bins_ != nb:
        return f"number_of_histograms_/number_of_bins_ = {h.number_of_histograms_}/{h.number_of_bins_}, expected {nh}/{nb}"
    return None


def _close(got, want):
    if not math.isfinite(got):
        return False
    want = Fraction(want)
    return abs(Fraction(got) - want) <= Fraction(1, 10**9) * (abs(want) + abs(Fraction(got))) + Fraction(1, 10**12)


def _finite_rows(a):
    return bool(np.all(np.isfinite(np.asarray(a, dtype=float))))


def oracle(case, workdir=None):
    """C10 stated directly on the real code: every operation whose arguments are valid succeeds and keeps every
    per-histogram array at shape (n_hist, n_bins); average()/average_weighted() give the weighted mean and the weighted
    population standard deviation; write_to_file writes the requested columns with their values under the given labels."""
    warnings.simplefilter("ignore")
    init = case["init"]
    if init["kind"] == "tuple":
        if not (isinstance(init["n"], int) and init["n"] > 0 and H.num(init["lo"]) < H.num(init["hi"])):
            return None
        edges = None
    else:
        edges = H.nums(init["edges"])
        if len(edges) < 1 or not _increasing(edges):
            return None                                   # the property is about increasing edges
    with np.errstate(all="ignore"):
        h = H.make_hist(init)
        if edges is None:
            edges = [float(x) for x in h.bin_edges_]
        nb, nh = len(edges) - 1, 1
        m = _shape_msg(h, nh, nb)
        if m:
            return "after construction: " + m
        wr0 = case.get("write")
        shared_labels = json.loads(json.dumps(wr0["labels"])) if wr0 is not None else None
        for step, o in enumerate(case["ops"]):
            if step > 0 and H.early_write_applies(wr0) and wr0["early_at"] == step - 1:
                exc = H.early_write(h, wr0, shared_labels, workdir or os.path.join(C.VERIF, ".work"), "oearly")
                if exc:
                    return (f"write_to_file with a one-dict label list after operation {step - 1} on a well-formed histogram with "
                            f"{nh} histogram(s) raises {exc}")
            k = o["op"]
            valid = True
            # ---- is the call valid by the documented contract (decided without the implementation's shapes)?
            if k == "fill":
                v, w = o["v"], o.get("w")
                vl = v if isinstance(v, list) else [v]
                if any(H.isnan(x) for x in vl):
                    valid = False
                if w is not None:
                    if isinstance(w, list) != isinstance(v, list):
                        valid = False
                    elif isinstance(w, list) and (len(w) != len(v) or any(H.isnan(x) for x in w)):
                        valid = False
                    elif not isinstance(w, list) and H.isnan(w):
                        valid = False
            elif k == "scale":
                s = o["s"]
                if isinstance(s, list):
                    valid = len(s) == nb and all((not H.isnan(x)) and x >= 0 for x in s)
                else:
                    valid = (not H.isnan(s)) and s >= 0
            elif k in ("set_err", "set_sys"):
                valid = len(o["l"]) == nb
            elif k == "density":
                last = np.asarray(h.histogram())[-1] if np.asarray(h.histogram()).ndim == 2 else None
                valid = last is not None and _finite_rows(last) and float(np.sum(last)) > 0 and bool(np.all(last >= 0))
            elif k == "add_bin":
                i, e = o["i"], H.num(o["e"])
                valid = 0 <= i < len(edges) and (i == 0 or e > edges[i - 1]) and e < edges[i]
            elif k == "remove_bin":
                valid = 0 <= o["i"] < nb
            elif k == "avg_w":
                ws = H.nums(o["ws"])
                valid = len(ws) == nh and all(math.isfinite(x) for x in ws) and sum(Fraction(x) for x in ws) != 0
            elif k == "avg_err":
                err = np.asarray(h.standard_error(), dtype=float)
                valid = err.shape == (nh, nb) and bool(np.all(err != 0)) and _finite_rows(err)
            # ---- expectations computed from the state before the call
            before = np.array(np.asarray(h.histogram(), dtype=float), copy=True)
            err_before = np.array(np.asarray(h.standard_error(), dtype=float), copy=True)
            try:
                H.apply_op(h, o)
            except Exception as e:
                if valid:
                    return (f"operation {step} ({json.dumps(o)}) is valid on a histogram with {nh} histogram(s) and {nb} bin(s) "
                            f"but raises {type(e).__name__}: {e}")
                m = _shape_msg(h, nh, nb)                  # a rejected call must leave a well-formed histogram behind
                if m:
                    return f"after the rejected operation {step} ({json.dumps(o)}, {type(e).__name__}): {m}"
                return None                                # and ends the history
            if not valid:
                return None                                # an invalid call that is accepted: nothing is claimed afterwards
            if k == "add_hist":
                nh += 1
            elif k == "add_bin":
                edges = edges[:o["i"]] + [H.num(o["e"])] + edges[o["i"]:]
                nb += 1
            elif k == "remove_bin":
                edges = edges[:o["i"]] + edges[o["i"] + 1:]
                nb -= 1
            elif k in ("average", "avg_w", "avg_err"):
                ws = [1.0] * nh if k == "average" else (H.nums(o["ws"]) if k == "avg_w" else None)
                nh_before, nh = nh, 1
            if k in ("add_bin", "remove_bin"):
                got = [float(x) for x in h.bin_edges_]
                if got != edges:
                    return f"after operation {step} ({json.dumps(o)}): bin edges are {got}, expected {edges}"
            m = _shape_msg(h, nh, nb)
            if m:
                return f"after operation {step} ({k}): {m}"
            if k in ("average", "avg_w") and before.shape == (nh_before, nb) and _finite_rows(before):
                sw = sum(Fraction(x) for x in ws)
                got, gerr = np.asarray(h.histogram(), dtype=float)[0], np.asarray(h.standard_error(), dtype=float)[0]
                for i in range(nb):
                    mean = sum(Fraction(w) * Fraction(float(before[r][i])) for r, w in enumerate(ws)) / sw
                    var = sum(Fraction(w) * (Fraction(float(before[r][i])) - mean) ** 2 for r, w in enumerate(ws)) / sw
                    if not _close(float(got[i]), mean):
                        return (f"after {k} with weights {ws}: bin {i} holds {float(got[i])!r}, the weighted mean of "
                                f"{[float(before[r][i]) for r in range(nh_before)]} is {float(mean)!r}")
                    if var >= 0 and not _close(float(gerr[i]) ** 2, var):
                        return (f"after {k} with weights {ws}: error of bin {i} is {float(gerr[i])!r}, the weighted population "
                                f"standard deviation is {math.sqrt(var)!r}")
            if k == "avg_err" and before.shape == (nh_before, nb) and _finite_rows(before):
                got = np.asarray(h.histogram(), dtype=float)[0]
                for i in range(nb):
                    wsi = [1 / Fraction(float(err_before[r][i])) ** 2 for r in range(nh_before)]
                    mean = sum(w * Fraction(float(before[r][i])) for r, w in enumerate(wsi)) / sum(wsi)
                    if not _close(float(got[i]), mean):
                        return f"after average_weighted_by_error: bin {i} holds {float(got[i])!r}, the 1/err^2-weighted mean is {float(mean)!r}"
        wr = case.get("write")
        if wr is None:
            return None
        labels, cols = wr["labels"], wr.get("columns")
        req = list(LABEL_KEYS) if cols is None else list(cols)
        if not (len(labels) == 1 or len(labels) >= nh):
            return None
        used = [labels[0]] * nh if len(labels) == 1 else labels[:nh]
        if not all(c in d for d in used for c in req):
            return None
        if cols is not None and not all(c in labels[0] for c in cols):
            return None
        unknown = [c for c in req if c not in LABEL_KEYS]
        path = os.path.join(workdir or os.path.join(C.VERIF, ".work"), f"oracle_{os.getpid()}.csv")
        os.makedirs(os.path.dirname(path), exist_ok=True)
        try:
            try:
                if cols is None:
                    h.write_to_file(path, shared_labels)
                else:
                    h.write_to_file(path, shared_labels, columns=list(cols))
            except Exception as e:
                if unknown:
                    return None
                return (f"write_to_file(columns={cols}, {len(labels)} label dict(s)) on a well-formed histogram with {nh} histogram(s) "
                        f"raises {type(e).__name__}: {e}")
            if unknown:
                return f"write_to_file accepts the column(s) {unknown}, for which the histogram has no data, and writes other values under their labels"
            tables = H.parse_csv(path, nb)
        finally:
            try:
                os.remove(path)
            except OSError:
                pass
        if len(tables) != nh:
            return f"write_to_file wrote {len(tables)} blocks for {nh} histograms"
        centers, lows, highs = h.bin_centers(), h.bin_bounds_left(), h.bin_bounds_right()
        for k_, (header, rows) in enumerate(tables):
            want_header = [used[k_][c] for c in req]
            if header != want_header:
                return f"write_to_file: header of histogram {k_} is {header}, the labels of the requested columns {req} are {want_header}"
            if len(rows) != nb:
                return f"write_to_file: {len(rows)} rows for {nb} bins"
            for i, row in enumerate(rows):
                val = {"bin_center": centers[i], "bin_low": lows[i], "bin_high": highs[i],
                       "distribution": h.histogram()[k_][i], "stat_err+": h.standard_error()[k_][i],
                       "stat_err-": h.standard_error()[k_][i], "sys_err+": h.systematic_error_[k_][i],
                       "sys_err-": h.systematic_error_[k_][i]}
                want = [float(val[c]) for c in req]
                same = len(row) == len(want) and all((a == b) or (math.isnan(a) and math.isnan(b)) for a, b in zip(row, want))
                if not same:
                    return (f"write_to_file(columns={req}): row of histogram {k_}, bin {i} is {row}, "
                            f"the values of the requested columns are {want}")
    return None


# ----------------------------------------------------------------------------- finding classes (stable keys)
def classify(msg):
    if msg is None:
        return None
    if "after the rejected operation" in msg and "remove_bin" in msg:
        return "C10-remove-bin-range"
    if "histograms_raw_count_ has shape" in msg:
        return "C10-raw-count-not-combined"
    if "systematic_error_ has shape" in msg or "error_ has shape" in msg:
        return "C10-average-leaves-1d-arrays"
    if "scaling_ has shape" in msg:
        return "C10-bin-surgery-ignores-scaling"
    if "write_to_file(columns=" in msg and "row of histogram" in msg:
        return "C10-write-column-subset"
    if "no data" in msg:
        return "C10-write-column-subset"
    if "label dict(s)) on a well-formed" in msg and "IndexError: list index out of range" in msg:
        return "C10-single-label-dict"
    if "remove_bin" in msg and "raises IndexError" in msg:
        return "C10-remove-bin-range"
    if "bin edges are" in msg:
        return "C10-add-bin-integer-edges"
    if "raises IndexError: invalid index to scalar" in msg:
        return "C10-average-leaves-1d-arrays"
    return None


def exhaustive_columns():
    """thorough tier: EVERY ordered selection of 1..3 distinct columns (8 + 56 + 336), with one label dictionary and with
    one per histogram, on a fixed two-histogram history with distinct values in every column"""
    import itertools
    base = {"init": {"kind": "list", "edges": [0.0, 0.5, 2.0]},
            "ops": [{"op": "fill", "v": [0.25, 0.25, 1.0], "w": [4.0, 5.0, 16.0]}, {"op": "stat_err"}, {"op": "set_sys", "l": [0.125, 0.375]},
                    {"op": "add_hist"}, {"op": "fill", "v": [0.0, 1.5, 1.75]}, {"op": "set_err", "l": [0.75, 1.25]},
                    {"op": "set_sys", "l": [2.5, 3.5]}]}
    out = []
    for k in (1, 2, 3):
        for cols in itertools.permutations(LABEL_KEYS, k):
            for nlab in (1, 2):
                labels = [{key: f"L{1 + 8 * j + i}" for i, key in enumerate(LABEL_KEYS)} for j in range(nlab)]
                out.append(dict(base, write={"labels": labels, "columns": list(cols)}))
    return out


def _fails_as(case, key, workdir):
    m = oracle(case, workdir)
    return m is not None and classify(m) == key


# ----------------------------------------------------------------------------- correspondence
def correspondence(ctx, model_ok=True):
    n = 400 if ctx.quick else 12000
    cases = []
    corpus = os.path.join(C.VERIF, "corpus", ID)
    if os.path.isdir(corpus):
        for fn in sorted(os.listdir(corpus)):
            cases.append(json.load(open(os.path.join(corpus, fn)))["case"])
    n_exh = 0
    if not ctx.quick:
        exh = exhaustive_columns()
        cases += exh
        n_exh = len(exh)
    while len(cases) < n + n_exh:
        cases.append(gen_case(ctx.rng))
    gots = [H.run_impl(c, ctx.work) for c in cases]
    dist = {"ops": {}, "init": {}, "ended_by_exception": 0, "with_write": 0, "write_ok": 0, "max_histograms": 0, "length": {}}
    keys = set()
    for c, g in zip(cases, gots):
        dist["init"][c["init"]["kind"]] = dist["init"].get(c["init"]["kind"], 0) + 1
        dist["length"][len(c["ops"])] = dist["length"].get(len(c["ops"]), 0) + 1
        for o, t in zip(c["ops"], g["trace"]):
            key = o["op"] + (":exc" if "exc" in t else "")
            dist["ops"][key] = dist["ops"].get(key, 0) + 1
            if "state" in t:
                dist["max_histograms"] = max(dist["max_histograms"], t["state"]["nhist"])
        dist["ended_by_exception"] += g["exc"] is not None or g["init_exc"] is not None
        dist["with_write"] += c.get("write") is not None and g["final"] is not None
        dist["write_ok"] += bool(g["write"] and "tables" in g["write"])
        if g["final"] is not None and len(c["ops"]) >= 2 and any(x != 0 for r in (g["final"]["H"]["data"] or []) for x in (r if isinstance(r, list) else [r])):
            keys.add(json.dumps(c, sort_keys=True))
    dist["exhaustive_ordered_column_selections_up_to_3"] = n_exh
    out = {"evaluations": len(cases), "distinct_nontrivial": len(keys), "distribution": dist,
           "rule": "seeded random histories of 1-10 operations (fill scalar/list/ndarray with and without weights, add_histogram, scale, "
                   "set_error, set_systematic_error, statistical_error, add_bin, remove_bin, average, average_weighted, "
                   "average_weighted_by_error; valid and invalid arguments) on uniform and explicit unequal-width binnings, followed by "
                   "write_to_file with a random column subset/permutation and 1 / n / wrong number of label dictionaries; compared inside Coq: "
                   "shape signature of all arrays after EVERY operation, exception class, final values of all arrays, geometry accessors, parsed CSV; "
                   "non-trivial = at least two operations, history not ended by an exception, some non-zero content; distinct by canonical JSON; "
                   "thorough tier additionally: every ordered selection of 1..3 distinct columns x {one label dict, one per histogram} (800 cases, "
                   "enumerated completely) on a fixed two-histogram state",
           "samples": cases[:3], "model_runner": "Eval vm_compute in generated cases files (sharded coqc), comparison by Model/HistCheck.v",
           "failures": [], "broken": []}
    out["all_cases"] = cases          # the driver runs the property oracle on these as well
    codes, broken = H.run_cases(ctx, ID, cases, gots)
    if codes is None:
        out["broken"] += broken
        return out
    out["exact_agreements"] = sum(1 for c in codes if c == 0)
    out["tolerance_agreements"] = sum(1 for c in codes if c == 1)
    out["traces_validated_against_impl"] = sum(1 for c in codes if c <= 1)
    bad = [(c, g, code) for c, g, code in zip(cases, gots, codes) if code >= 2]
    for c, g, code in bad[:40]:
        msg = oracle(c, ctx.work)
        small = c
        if msg:
            key = classify(msg)
            small = H.shrink_case(c, lambda x: _fails_as(x, key, ctx.work))
            msg = oracle(small, ctx.work)
        out["failures"].append(Failure(small, "model and implementation disagree: " + H.describe(code), key=classify(msg), on_impl=msg))
    return out


def search(ctx):
    found, n = [], 0
    budget = 300 if ctx.quick else 3000
    seen = set()
    for _ in range(budget):
        c = gen_case(ctx.rng, maxops=6)
        n += 1
        msg = oracle(c, ctx.work)
        if msg and classify(msg) not in seen:
            key = classify(msg)
            seen.add(key)
            small = H.shrink_case(c, lambda x: _fails_as(x, key, ctx.work))
            found.append(Failure(small, "property oracle fails on the implementation", key=key, on_impl=oracle(small, ctx.work)))
            if len(found) >= 5:
                break
    return found, n


LEVEL_TEXT = ("Theorems (Coq, all histories): the shape invariant (every per-histogram array is 2-D of shape (n_hist, n_bins), "
              "n_bins+1 edges) holds after construction and is preserved by every operation of the model that returns; on a "
              "well-shaped state write_to_file is total for every column subset/order and one or n label dictionaries and each "
              "written cell is the value of its column; average_weighted leaves one histogram holding sum w_k h_k / sum w_k with "
              "error sqrt(sum w_k (h_k-mean)^2 / sum w_k). The hand model is run against the real code on every run "
              "(shape signature after every operation, values, CSV).")
LEVEL_NOTE = ("Trusted: Coq kernel/vm_compute; hand model Model/Histogram.v validated by correspondence only (no part is "
              "regenerated from the source); numpy primitives as list semantics; exact rationals instead of IEEE rounding; "
              "np.sqrt/np.linspace as oracles; state after a raised exception not modelled.")
TECHNIQUE = "Coq proof of a shape invariant over operation histories (induction on the history, case analysis per operation) on a hand model with shape-carrying arrays; vm_compute correspondence"

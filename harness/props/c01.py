"""C01 - readers load exactly what the file contains."""
import json, os
from collections import Counter
import common as C
from common import Failure, coq_list
import oscgen as G
import jetgen as J

ID = "C01"
GEN = ["gen_particle_tables", "gen_genflow", "gen_particle_init", "gen_jetscapeloader", "gen_oscarloader"]
EXTRA_PROPERTY_FILES = ["SrcParticleInit", "SrcJetscapeLoader", "SrcOscarLoader"]     # Particle.py: construction of a particle from one line regenerated and proved equal to mk_particle / mk_jet_particle
SOURCE_TIE_NOTE = ('OscarLoader.py (every method; Properties/SrcOscarLoader.v, 19 theorems: load / set_particle_list / header scan'
    ' / set_num_events byte-level backward search / format sniffing / impact_parameter equal the hand model Model/O'
    'scar.v on rendered texts whose tokens are blank- and newline-free; IC/Photons header scans translated but with'
    'out a hand-model counterpart), JetscapeLoader.py (all 13 methods; SrcJetscapeLoader.v, 20 theorems, equal to M'
    'odel/Jetscape.v under lines_ok/trailer_last/plain_ws) and Particle.py construction from one line (__init__, __'
    'initialize_from_array, setters/getters reached, mass_from_energy_momentum, charge_from_pdg; SrcParticleInit.v,'
    ' 16 theorems: = mk_particle / mk_jet_particle for every format string, token list and attribute list incl. err'
    'or classes) are regenerated on every run by gen_oscarloader / gen_jetscapeloader / gen_particle_init (fail-clo'
    'sed, nothing pinned textually inside the method bodies) over the runtimes Model/OscarLoaderRt.v, JetscapeLoade'
    'rRt.v, ParticleInitRt.v and proved equal to the hand models; model/source differences found by the builders li'
    'e outside the compared domain and are listed in DESIGN.md 11.6')
ALLOWED_AXIOMS = []
TRUSTED = [
    "Coq 8.16.1 kernel + vm_compute (no native_compute); every theorem closed under the global context",
    "translator tools/py2coq/gen_particle_tables.py: attribute_mapping, the float/int cast lists, the relaxed-column formats of Particle.__initialize_from_array and OscarLoader._set_custom_attr_list.attr_map as Coq tables",
    "translator tools/py2coq/gen_genflow.py: for each of the eight GenerateFlow.generate_dummy_* writers the text of every output.write (literal header/trailer lines, f-string event header/footer with their holes, the %g/%d row format with its argument tuple; numeric literals and the method's constants mass/pdg/status folded with Python's own % operator) as Coq piece lists; it aborts on any statement inside a writer that mentions `output` in another shape, on other loops than `for event in range(number_events)` / `for particle in range(multiplicity)`, on other conversions than %g/%d, and when the guard `number_events < 1 or multiplicity < 1` is missing",
    "hand models coq/Model/Oscar.v, Jetscape.v of the loaders (token level: a line is line.split(' ') resp. tab/blank split), tied by this run's correspondence on generated files incl. tab- and blank-separated JETSCAPE headers and files without final newline",
    "coq/Model/GenFlowDoc.v: interpreter of the regenerated write templates (stream of written characters -> lines at the newlines -> tokens at blanks / blanks+tabs); the text filled into a hole is opaque (taken to contain no blank, tab or newline: what %g, %d, str(int) print); tied to the real writers by this run's correspondence (the real file must equal gen_render on the %g texts found in it, with Python's str(int) as dec)",
    "oracles (universally quantified functions in the theorems, tables computed by the harness in the correspondence): Python float()/int() on a token, PDGID.is_valid/charge, numpy sqrt, str(int)/%d (dec) and %g (vals) in the generator theorems",
    "character level -> token level: proved (Lib/Split.v): split(' ') of a joined line gives its tokens, a blank-free pattern occurs in the line iff inside a token, ' p ' iff an inner token equals p; the raw tests 'in ' and ' start' are tied to their token forms by the correspondence only; tab-separated JETSCAPE headers by the correspondence",
    "Oscar2013Extended_IC / _Photons header scans are not modelled (outside the property's format list)",
]
ASSUMPTIONS = ["nearest-double parsing is Python's float(); the property oracle re-derives it independently as float(Fraction(token))",
               "float rounding of the derived JETSCAPE mass is not modelled (compared within 1e-9)",
               "generator theorems: hypotheses on the oracles, each a fact about Python on tokens that occur in the file - str(n) consists of numeric characters and int(str(n)) = n for n <= max(nev, mult); every %g text consists of numeric characters and float() accepts it; float() accepts the row constants written with %g ('1', '0.138'), int() those written with %d ('211', '27', '1'), float() accepts the footer's impact literal '-1.000'; for JETSCAPE the first two float()-parsable words of the trailer are s1, s2 (float() rejects '#', 'sigmaGen', 'sigmaErr'). Non-finite momenta ('nan', 'inf' from %g) are outside the hypotheses",
               "what the writers compute (sampling, energy = sqrt(p^2+m^2), the %g rounding of the values) is not part of C01; only the structure of the written file is"]
LEVEL_TEXT = ("Theorems (Coq, closed under the global context): for every well-formed Oscar2013/Extended/ASCII or JETSCAPE document "
              "(any number of events >= 1, any multiplicities incl. empty events anywhere) the loader model returns exactly the document's "
              "events and particle lines in order, counts, number of events, format, each event's own impact parameter / sigmaGen; "
              "column tables regenerated from the source equal the documented layout; every listed column lands in its slot with its cast; "
              "derived JETSCAPE mass/charge; lines of the documented shapes are classified correctly for any numeric tokens. "
              "Files written by SPARKX's own flow generators: for each of the eight GenerateFlow writers (templates regenerated from GenerateFlow.py on "
              "every run), every number of events >= 1, every multiplicity and all %g texts, the written text is the rendering of a well-formed "
              "Oscar2013 resp. JETSCAPE document with exactly nev events of mult particle lines (header lines, labels consecutive from 0 resp. 1, "
              "declared counts = rows written, particle IDs 0..mult-1, %g texts in real columns and %d texts in integer columns of the documented "
              "column table, footer / trailer shape incl. the missing final newline), hence (composed with the load theorems) loading it returns nev events "
              "of mult particles, counts [(label, mult)], format Oscar2013 resp. the trailer's sigmaGen. "
              "The loader models and the template interpreter are run against the real readers / writers on every run together with independent re-parse oracles.")
LEVEL_NOTE = ("Hand-written loader models at token level (run side by side with the real readers AND, since session 4, proved equal to the method bodies of OscarLoader.py / JetscapeLoader.py / Particle.py regenerated on every run - see SOURCE TIES below); tables and writer templates regenerated; oracles for float()/int()/PDG/sqrt/%g/str(int); "
              "char-level substring semantics proved for blank-free and blank-delimited patterns (Lib/Split.v), two raw tests by correspondence. "
              "Generator theorems: hole texts are opaque tokens (no char-level theorem that %g/%d output is blank-free), the writers' sampling code and value formatting are not modelled, "
              "JETSCAPE writers are hadron files only (N_hadrons), all events of one file have the same multiplicity because the writers take a single int; "
              "the k-particle-correlation writers can raise IndexError inside __create_k_particle_correlations before anything but the header is written (such calls are skipped and counted in the notes).")
TECHNIQUE = ("Coq proof by induction over the events of a rendered document against an executable loader model; regenerated column tables; "
             "writer templates extracted from GenerateFlow.py and interpreted in Coq (write stream -> lines -> tokens), refinement to the format definition's render; "
             "vm_compute correspondence with the real readers and writers")

PRELUDE = """From Coq Require Import List String ZArith QArith.
From SX Require Import Lib.Strs Gen.GenParticleMap Model.Oscar Model.Jetscape.
Import ListNotations.
Local Open Scope string_scope.
"""


def run_case(ctx, case, idx):
    if case["kind"] == "jet":
        path = os.path.join(ctx.work, f"f{idx}.dat")
        with open(path, "w") as f:
            f.write(case["text"])
        obs = J.observe(path, particletype=case["doc"]["ptype"])
    else:
        path = os.path.join(ctx.work, f"f{idx}.oscar")
        with open(path, "w") as f:
            f.write(case["text"])
        obs = G.observe_oscar(path)
    os.remove(path)
    return obs


def coq_case(case, obs):
    lines = case["text"].split("\n")
    if lines and lines[-1] == "":
        lines = lines[:-1]
    if case["kind"] == "jet":
        tf, ti, pv, pc, sq = J.tables(lines)
        word = "N_hadrons" if case["doc"]["ptype"] == "hadron" else "N_partons"
        return (f"(check_jetscape (table {tf}) (table {ti}) (pvtable {pv}) (qtable {pc}) (qtable {sq}) "
                f"{J.coq_file(lines)} {C.coq_str(word)} SelAll {J.coq_observed(obs)})")
    tf, ti = G.token_tables(lines)
    pv = G.pdg_table([l.split(" ") for l in lines])
    return (f"(check_oscar (table {tf}) (table {ti}) (pvtable {pv}) {G.coq_file(lines)} SelAll {G.coq_observed(obs)})")


def doc_from_text(text):
    """independent parse of a generated file into the doc structure used by the oracles"""
    lines = text.split("\n")
    if lines and lines[-1] == "":
        lines = lines[:-1]
    if lines[0].startswith("#!OSCAR2013 "):
        evs = []
        for l in lines[3:]:
            t = l.split(" ")
            if l.startswith("# event") and " out " in l:
                evs.append({"rows": [], "label": int(t[2]), "declared": int(t[4])})
            elif l.startswith("# event"):
                nz = [x for x in t if x]
                evs[-1]["b"] = nz[-3]; evs[-1]["yn"] = nz[-1]; evs[-1]["foot"] = l
            else:
                evs[-1]["rows"].append(t)
        return "oscar", {"fmt": "Oscar2013", "head": lines[:3], "cols": None, "events": evs}
    evs = []
    for l in lines[1:-1]:
        t = l.replace("\t", " ").split(" ")
        if l.startswith("#"):
            evs.append({"rows": [], "label": int(t[2]), "declared": int(t[8]), "weight": t[4], "ep": t[6]})
        else:
            evs[-1]["rows"].append(t)
    tr = lines[-1].split()
    return "jet", {"ptype": "hadron", "sep": " ", "events": evs, "sigma": tr[2], "sigerr": tr[4],
                   "final_newline": text.endswith("\n")}


def generator_cases(ctx):
    """files written by the eight GenerateFlow.generate_dummy_* writers, read back"""
    from sparkx.flow.GenerateFlow import GenerateFlow
    import warnings
    out = []
    specs = [("generate_dummy_JETSCAPE_file", {}), ("generate_dummy_JETSCAPE_file_realistic_pT_shape", {}),
             ("generate_dummy_JETSCAPE_file_multi_particle_correlations", {"k_particle_correlation": 2, "correlation_fraction": 0.5}),
             ("generate_dummy_JETSCAPE_file_realistic_pT_shape_multi_particle_correlations", {"k_particle_correlation": 2, "correlation_fraction": 0.5}),
             ("generate_dummy_OSCAR_file", {}), ("generate_dummy_OSCAR_file_realistic_pT_shape", {}),
             ("generate_dummy_OSCAR_file_multi_particle_correlations", {"k_particle_correlation": 2, "correlation_fraction": 0.5}),
             ("generate_dummy_OSCAR_file_realistic_pT_shape_multi_particle_correlations", {"k_particle_correlation": 2, "correlation_fraction": 0.5})]
    for name, kw in specs:
        nev = ctx.rng.randint(1, 3)
        mult = ctx.rng.choice([2, 4, 6])
        ext = ".dat" if "JETSCAPE" in name else ".oscar"
        path = os.path.join(ctx.work, "gen_" + name + ext)
        text = None
        for attempt in range(8):
            # the k-particle-correlation generators can run off their momentum arrays for some seeds
            # (IndexError in __create_k_particle_correlations, no file is produced): not a reader matter, try another seed
            try:
                with warnings.catch_warnings():
                    warnings.simplefilter("ignore")
                    g = GenerateFlow(0.1, 0.05)
                    getattr(g, name)(path, nev, mult, ctx.rng.randint(1, 10**6), **kw)
                text = open(path).read()
                break
            except IndexError:
                continue
        if text is None:
            ctx.notes.append(f"{name}: no file produced in 8 attempts (generator raised IndexError)")
            continue
        os.remove(path)
        kind, doc = doc_from_text(text)
        out.append({"kind": kind, "doc": doc, "text": text, "writer": name})
    return out


# ------------------------------------------------------------------ GenerateFlow writers against gen_render
WRITERS = [("generate_dummy_JETSCAPE_file", {}), ("generate_dummy_JETSCAPE_file_realistic_pT_shape", {}),
           ("generate_dummy_JETSCAPE_file_multi_particle_correlations", {"k_particle_correlation": 2, "correlation_fraction": 0.5}),
           ("generate_dummy_JETSCAPE_file_realistic_pT_shape_multi_particle_correlations", {"k_particle_correlation": 3, "correlation_fraction": 0.75}),
           ("generate_dummy_OSCAR_file", {}), ("generate_dummy_OSCAR_file_realistic_pT_shape", {}),
           ("generate_dummy_OSCAR_file_multi_particle_correlations", {"k_particle_correlation": 2, "correlation_fraction": 0.5}),
           ("generate_dummy_OSCAR_file_realistic_pT_shape_multi_particle_correlations", {"k_particle_correlation": 3, "correlation_fraction": 0.75})]
# where the harness expects the %g texts of a particle line (independent of the translator's output)
VALUE_COLS = {"oscar": {"energy": 5, "px_": 6, "py_": 7, "pz_": 8}, "jet": {"energy": 3, "px_": 4, "py_": 5, "pz_": 6}}
GENFLOW_PRELUDE = """From Coq Require Import List String ZArith QArith.
From SX Require Import Lib.Strs Gen.GenGenFlow Model.GenFlowDoc.
Import ListNotations.
Local Open Scope string_scope.
"""


def write_genflow(case, path):
    """run the real writer of `case`; returns the text, or None when the generator itself raised"""
    from sparkx.flow.GenerateFlow import GenerateFlow
    import warnings
    try:
        os.remove(path)
    except OSError:
        pass
    try:
        with warnings.catch_warnings():
            warnings.simplefilter("ignore")
            g = GenerateFlow(*case["vn"])
            getattr(g, case["writer"])(path, case["nev"], case["mult"], case["seed"], **case["kw"])
    except IndexError:
        # __create_k_particle_correlations can run off its momentum arrays (no complete file is produced)
        return None
    with open(path) as f:
        return f.read()


def genflow_lines(case, text):
    lines = text.split("\n")
    if lines and lines[-1] == "":
        lines = lines[:-1]
    if case["family"] == "jet":
        return [l.replace("\t", " ").split(" ") for l in lines]
    return [l.split(" ") for l in lines]


def genflow_cases(ctx):
    out = []
    sizes = [(1, 1), (2, 3)] if ctx.quick else [(1, 1), (1, 4), (2, 3), (3, 2), (4, 5), (2, 12)]
    for name, kw in WRITERS:
        for nev, mult in sizes:
            fam = "jet" if "JETSCAPE" in name else "oscar"
            case = None
            for attempt in range(12):
                c = {"kind": "genflow", "writer": name, "family": fam, "nev": nev, "mult": mult,
                     "seed": ctx.rng.randint(1, 10**6), "kw": dict(kw), "vn": [0.1, 0.05]}
                if "realistic" in name and ctx.rng.random() < 0.5:
                    c["kw"]["random_reaction_plane"] = False
                text = write_genflow(c, os.path.join(ctx.work, "genflow.dat"))
                if text is not None:
                    case = c
                    case["text"] = text
                    break
            if case is None:
                ctx.notes.append(f"{name}({nev},{mult}): generator raised IndexError for 12 seeds, no file to compare")
                continue
            out.append(case)
    return out


def coq_genflow(case):
    lines = genflow_lines(case, case["text"])
    nev, mult = case["nev"], case["mult"]
    decs = coq_list([f"({n}%nat, {C.coq_str(str(n))})" for n in range(max(nev, mult) + 2)])
    vt = []
    per = mult + (1 if case["family"] == "jet" else 2)
    first = 1 if case["family"] == "jet" else 3
    for i in range(nev):
        for j in range(mult):
            k = first + i * per + 1 + j
            row = lines[k] if k < len(lines) else []
            for name, col in VALUE_COLS[case["family"]].items():
                if col < len(row):
                    vt.append(f"({i}%nat, {j}%nat, {C.coq_str(name)}, {C.coq_str(row[col])})")
    file = coq_list([coq_list([C.coq_str(t) for t in l]) for l in lines])
    return f"(check_genflow {C.coq_str(case['writer'])} {decs} {coq_list(vt)} {nev} {mult} {file})"


def refuses(case):
    """the sizes below w_min_events / w_min_mult: the writer must raise ValueError (it would otherwise write a file
    without events resp. with empty events, which gen_render does not describe)"""
    from sparkx.flow.GenerateFlow import GenerateFlow
    work = os.path.join(C.VERIF, ".work")
    os.makedirs(work, exist_ok=True)
    path = os.path.join(work, f"refuse_{os.getpid()}.dat")
    try:
        getattr(GenerateFlow(*case["vn"]), case["writer"])(path, case["nev"], case["mult"], case["seed"], **case["kw"])
    except ValueError:
        return None
    except Exception as e:
        return f"{case['writer']}({case['nev']}, {case['mult']}) raises {type(e).__name__} instead of ValueError"
    finally:
        try:
            os.remove(path)
        except OSError:
            pass
    return f"{case['writer']} accepts number_events={case['nev']}, multiplicity={case['mult']} and writes a file"


def oracle_genflow(case):
    """property oracle for a generator case: the file the real writer produces, loaded with no options, against an
    independent re-parse of its text"""
    import warnings, math
    import numpy as np
    if case.get("expect") == "ValueError":
        return refuses(case)
    work = os.path.join(C.VERIF, ".work")
    os.makedirs(work, exist_ok=True)
    path = os.path.join(work, f"oracle_genflow_{os.getpid()}" + (".dat" if case["family"] == "jet" else ".oscar"))
    try:
        text = write_genflow(case, path)
        if text is None:
            return None
        raw = text.split("\n")
        if raw and raw[-1] == "":
            raw = raw[:-1]
        nev, mult = case["nev"], case["mult"]
        with warnings.catch_warnings():
            warnings.simplefilter("ignore")
            if case["family"] == "oscar":
                from sparkx.Oscar import Oscar
                try:
                    o = Oscar(path)
                except Exception as e:
                    return f"file written by {case['writer']} is rejected by Oscar(): {type(e).__name__}: {e}"[:300]
                body = [l for l in raw[3:] if not l.startswith("#")]
                heads = [l for l in raw[3:] if l.startswith("#") and " out " in l]
                cols = G.HEADER_COLS["Oscar2013"]
                want_counts = [[int(h.split(" ")[2]), int(h.split(" ")[4])] for h in heads]
                if o.oscar_format() != "Oscar2013":
                    return f"detected format {o.oscar_format()!r}"
                imp = [float(x) for x in o.impact_parameters()]
                ends = [l for l in raw[3:] if l.startswith("#") and " end " in l]
                want_imp = [G.nearest_double([x for x in l.split(" ") if x][-3]) for l in ends]
                if imp != want_imp:
                    return f"impact_parameters() = {imp}, file states {want_imp}"
            else:
                from sparkx.Jetscape import Jetscape
                try:
                    o = Jetscape(path)
                except Exception as e:
                    return f"file written by {case['writer']} is rejected by Jetscape(): {type(e).__name__}: {e}"[:300]
                body = [l for l in raw[1:] if not l.startswith("#")]
                heads = [l for l in raw[1:-1] if l.startswith("#")]
                cols = ["ID", "pdg", "status", "p0", "px", "py", "pz"]
                want_counts = [[int(h.split(" ")[2]), int(h.split(" ")[8])] for h in heads]
                tr = raw[-1].split()
                sg = [float(x) for x in o.get_sigmaGen()]
                if sg != [G.nearest_double(tr[2]), G.nearest_double(tr[4])]:
                    return f"get_sigmaGen() = {sg}, file states {tr[2]}, {tr[4]}"
            if len(heads) != nev or any(c != [i + (1 if case["family"] == "jet" else 0), mult] for i, c in enumerate(want_counts)):
                return f"writer called with ({nev}, {mult}) declares events {want_counts}"
            if len(body) != nev * mult:
                return f"writer called with ({nev}, {mult}) wrote {len(body)} particle lines"
            if o.num_events() != nev:
                return f"num_events() = {o.num_events()}, file has {nev}"
            cnt = np.asarray(o.num_output_per_event()).tolist()
            if cnt != want_counts:
                return f"num_output_per_event() = {cnt}, file states {want_counts}"
            evs = o.particle_objects_list()
            if [len(e) for e in evs] != [mult] * nev:
                return f"events of sizes {[len(e) for e in evs]} loaded, file has {nev} x {mult}"
            attr = dict(G.ATTR, status="status")
            kind = dict(G.ASCII_KIND, status="i")
            for i, ev in enumerate(evs):
                for j, p in enumerate(ev):
                    row = body[i * mult + j].split(" ")
                    if len(row) != len(cols):
                        return f"particle line with {len(row)} columns: {body[i * mult + j]!r}"
                    for h, tok in zip(cols, row):
                        got = getattr(p, attr[h])
                        exp = G.nearest_double(tok) if kind[h] == "f" else int(tok)
                        if not G.same(got, exp) or (kind[h] != "f" and not isinstance(got, (int, np.integer))):
                            return f"event {i} particle {j} column {h}: file says {tok!r}, attribute = {got!r}"
                    if case["family"] == "jet":
                        E, px, py, pz = (G.nearest_double(t) for t in row[3:7])
                        m2 = E * E - (px * px + py * py + pz * pz)
                        m = p.mass
                        if m2 >= 0 and not (abs(m - math.sqrt(m2)) <= 1e-9 * (1 + abs(m))):
                            return f"event {i} particle {j}: derived mass {m!r}, sqrt(E^2-p^2) = {math.sqrt(m2)!r}"
                        if p.charge != 1:
                            return f"event {i} particle {j}: derived charge {p.charge!r} for pdg 211"
            rows = [[body[i * mult + j].split(" ") for j in range(mult)] for i in range(nev)]
            labels = [c[0] for c in want_counts]
            try:
                pl = o.particle_list()
            except Exception as e:
                return f"particle_list() raises {type(e).__name__}: {e}"
            if case["family"] == "jet":
                return J.check_particle_list(pl, nev, rows, labels)
            return G.check_particle_list(pl, nev, rows, cols, labels)
    finally:
        try:
            os.remove(path)
        except OSError:
            pass


def genflow_stream(ctx, out):
    """GenerateFlow writers: the structure of the real file must be gen_render on the %g texts found in it"""
    cases = genflow_cases(ctx)
    ok, log = C.make(["Model/GenFlowDoc.vo"])
    if not ok:
        out["broken"].append({"what": "Model/GenFlowDoc.v does not build", "detail": log[-800:]})
        return
    body = coq_list([coq_genflow(c) for c in cases])
    (ok, o), = C.coq_eval_many(ctx, [("c01_genflow", GENFLOW_PRELUDE + f"Eval vm_compute in {body}.\n")])
    if not ok:
        out["broken"].append({"what": "cases file c01_genflow failed", "detail": o[-1500:]})
        return
    codes = C.parse_codes(o)
    if len(codes) != len(cases):
        out["broken"].append({"what": "c01_genflow: number of codes differs from number of cases", "detail": o[-600:]})
        return
    out["evaluations"] += len(cases)
    out["distinct_nontrivial"] += len({c["text"] for c in cases})
    out["traces_validated_against_impl"] = out.get("traces_validated_against_impl", 0) + sum(1 for c in codes if c == 0)
    out.setdefault("distribution", {})["genflow_codes"] = dict(Counter(codes))
    out["distribution"]["genflow_sizes"] = dict(Counter(f"{c['nev']}x{c['mult']}" for c in cases))
    out["samples"].append(cases[0]["text"][:300])
    for name, kw in WRITERS:
        for nev, mult in ((0, 1), (1, 0)):
            c = {"kind": "genflow", "writer": name, "family": "jet" if "JETSCAPE" in name else "oscar", "nev": nev,
                 "mult": mult, "seed": 1, "kw": dict(kw), "vn": [0.1, 0.05], "expect": "ValueError"}
            msg = refuses(c)
            out["evaluations"] += 1
            if msg:
                out["failures"].append(Failure(c, "size guard of the writer", on_impl=msg))
    for c, code in zip(cases, codes):
        rep = {k: v for k, v in c.items() if k != "text"}
        if code != 0:
            out["failures"].append(Failure(rep, f"file written by {c['writer']}({c['nev']}, {c['mult']}, seed {c['seed']}) differs from "
                                                f"gen_render on the templates of GenerateFlow.py (code {code}); file: {c['text'][:300]!r}"))
        msg = oracle_genflow(c)
        if msg:
            out["failures"].append(Failure(rep, "property oracle", on_impl=msg))



def gen_case(rng):
    if rng.random() < 0.4:
        d = J.gen_doc(rng, ultra=True)
        return {"kind": "jet", "doc": d, "text": J.render(d)}
    d = G.gen_doc(rng)
    return {"kind": "oscar", "doc": d, "text": G.render(d)}


def boundary_cases(rng, quick):
    """file shapes the random documents reach rarely or never (property oracle only): Oscar-family files without the final
    newline, a single event without particles, only empty events, empty first/last event, one long event, ASCII files with all
    22 columns in documented / reversed order and with a single column of each kind, JETSCAPE files of the same shapes"""
    out = []
    def osc(fmt, sizes, nl=True, cols=None):
        d = G.gen_doc(rng, fmt=fmt)
        if cols is not None:
            d["cols"] = list(cols)
            d["head"] = ["#!ASCII particle_lists " + " ".join(cols), "# Units: " + " ".join("none" for _ in cols), "# SMASH-3.1"]
        kinds = "".join(G.ASCII_KIND[c] for c in d["cols"]) if fmt == "ASCII" else G.COLS[fmt]
        d["events"] = [{"rows": [[G.tok_for(k, rng) for k in kinds] for _ in range(m)], "b": f"{i}.{rng.choice([125, 250, 500])}",
                        "yn": rng.choice(["yes", "no"])} for i, m in enumerate(sizes)]
        d["final_newline"] = nl
        out.append({"kind": "oscar", "doc": d, "text": G.render(d)})
    def jet(ptype, sep, sizes, nl=True):
        d = J.gen_doc(rng, ptype=ptype, max_events=1, max_mult=1)        # trailer values; the events are replaced
        evs = []
        for m in sizes:
            rows = []
            while len(rows) < m:
                rows += [r for e in J.gen_doc(rng, ptype=ptype)["events"] for r in e["rows"]]
            evs.append({"rows": rows[:m], "weight": "1", "ep": "0"})
        d["events"], d["sep"], d["final_newline"] = evs, sep, nl
        out.append({"kind": "jet", "doc": d, "text": J.render(d)})
    shapes = [[0], [1], [0, 0, 0], [0, 2, 0], [2, 0], [0, 3]]
    for fmt in ("Oscar2013", "Oscar2013Extended", "ASCII"):
        for sizes in shapes:
            osc(fmt, sizes, nl=rng.random() < 0.5)
        osc(fmt, [rng.randint(0, 3) for _ in range(rng.randint(1, 4))], nl=False)
    osc("Oscar2013", [300 if quick else 3000, 1])
    names = list(G.ASCII_KIND)
    osc("ASCII", [2, 0, 1], cols=names)
    osc("ASCII", [1, 2], cols=names[::-1])
    for c in ("pdg", "ID", "charge", "t", "strangeness"):
        osc("ASCII", [1, 0, 2], cols=[c], nl=rng.random() < 0.5)
    for ptype in ("hadron", "parton"):
        for sizes in shapes:
            jet(ptype, rng.choice(["\t", " "]), sizes, nl=rng.random() < 0.5)
    jet("hadron", "\t", [300 if quick else 3000, 1])
    return out


def correspondence(ctx, model_ok=True):
    n = 200 if ctx.quick else 3000
    cases = []
    cases += generator_cases(ctx)
    ngen = len(cases)
    for i in range(n - ngen):
        cases.append(gen_case(ctx.rng))
    obs = [run_case(ctx, c, i) for i, c in enumerate(cases)]
    out = {"evaluations": n, "distinct_nontrivial": len({c["text"] for c, o in zip(cases, obs) if "err" not in o}),
           "rule": "random well-formed docs", "samples": [cases[0]["text"][:400]], "failures": [], "broken": []}
    ok, log = C.make(["Model/Oscar.vo", "Model/Jetscape.vo"])
    if not ok:
        out["broken"].append({"what": "Model/Oscar.v does not build", "detail": log[-800:]})
        return out
    shard = 60
    files = []
    for i in range(0, n, shard):
        body = coq_list([coq_case(c, o) for c, o in zip(cases[i:i + shard], obs[i:i + shard])])
        files.append((f"c01_{i//shard}", PRELUDE + f"Eval vm_compute in {body}.\n"))
    res = C.coq_eval_many(ctx, files)
    codes = []
    for (ok, o), (name, _) in zip(res, files):
        if not ok:
            out["broken"].append({"what": f"cases file {name} failed", "detail": o[-1500:]})
            return out
        codes += C.parse_codes(o)
    out["traces_validated_against_impl"] = sum(1 for c in codes if c == 0)
    from collections import Counter
    out["distribution"] = {"codes": dict(Counter(codes)), "impl_errors": dict(Counter(o.get("err", "ok") for o in obs))}
    for c, o, code in zip(cases, obs, codes):
        if code != 0:
            out["failures"].append(Failure({"kind": c["kind"], "doc": c["doc"]}, f"model/impl disagree code {code}; impl={json.dumps(o)[:300]}"))
    # the property oracle runs on every case as well (independent re-parse of the text)
    for c in cases:
        msg = oracle(c)
        if msg:
            out["failures"].append(Failure({"kind": c["kind"], "doc": c["doc"]}, "property oracle", on_impl=msg))
    extra = boundary_cases(ctx.rng, ctx.quick)
    out["evaluations"] += len(extra)
    out["distribution"]["boundary_shapes"] = len(extra)
    for c in extra:
        msg = oracle(c)
        if msg:
            out["failures"].append(Failure({"kind": c["kind"], "doc": c["doc"]}, "property oracle (boundary file shape)", on_impl=msg))
    genflow_stream(ctx, out)
    return out


def oracle(case):
    os.makedirs(os.path.join(C.VERIF, ".work"), exist_ok=True)
    if case.get("kind") == "genflow":
        return oracle_genflow(case)
    if case.get("kind") == "jet":
        return J.oracle_load(case["doc"], os.path.join(C.VERIF, ".work"))
    return G.oracle_load(case["doc"], os.path.join(C.VERIF, ".work"))

"""C01 - readers load exactly what the file contains."""
import json, os
import common as C
from common import Failure, coq_list
import oscgen as G

ID = "C01"
GEN = ["gen_particle_tables"]
ALLOWED_AXIOMS = []
TRUSTED = ["Coq 8.16.1 kernel + vm_compute"]
ASSUMPTIONS = []

PRELUDE = """From Coq Require Import List String ZArith QArith.
From SX Require Import Lib.Strs Gen.GenParticleMap Model.Oscar.
Import ListNotations.
Local Open Scope string_scope.
"""


def run_case(ctx, case, idx):
    path = os.path.join(ctx.work, f"f{idx}.oscar")
    with open(path, "w") as f:
        f.write(case["text"])
    obs = G.observe_oscar(path)
    os.remove(path)
    return obs


def coq_case(case, obs):
    lines = case["text"].split("\n")
    if lines and lines[-1] == "":
        lines = lines[:-1]
    tf, ti = G.token_tables(lines)
    pv = G.pdg_table([l.split(" ") for l in lines])
    return (f"(check_oscar (table {tf}) (table {ti}) (pvtable {pv}) {G.coq_file(lines)} SelAll {G.coq_observed(obs)})")


def correspondence(ctx, model_ok=True):
    n = 200 if ctx.quick else 3000
    cases = []
    for i in range(n):
        d = G.gen_doc(ctx.rng)
        cases.append({"doc": d, "text": G.render(d)})
    obs = [run_case(ctx, c, i) for i, c in enumerate(cases)]
    out = {"evaluations": n, "distinct_nontrivial": len({c["text"] for c, o in zip(cases, obs) if "err" not in o}),
           "rule": "random well-formed docs", "samples": [cases[0]["text"][:400]], "failures": [], "broken": []}
    ok, log = C.make(["Model/Oscar.vo"])
    if not ok:
        out["broken"].append({"what": "Model/Oscar.v does not build", "detail": log[-800:]})
        return out
    shard = 60
    files = []
    for i in range(0, n, shard):
        body = coq_list([coq_case(c, o) for c, o in zip(cases[i:i + shard], obs[i:i + shard])])
        files.append((f"c01_{i//shard}", PRELUDE + f"Eval vm_compute in {body}.\n"))
    res = C.coq_eval_many(ctx, files)
    codes = []
    for (ok, o), (name, _) in zip(res, files):
        if not ok:
            out["broken"].append({"what": f"cases file {name} failed", "detail": o[-1500:]})
            return out
        codes += C.parse_codes(o)
    out["traces_validated_against_impl"] = sum(1 for c in codes if c == 0)
    from collections import Counter
    out["distribution"] = {"codes": dict(Counter(codes)), "impl_errors": dict(Counter(o.get("err", "ok") for o in obs))}
    for c, o, code in zip(cases, obs, codes):
        if code != 0:
            out["failures"].append(Failure({"doc": c["doc"]}, f"model/impl disagree code {code}; impl={json.dumps(o)[:300]}"))
    # the property oracle runs on every case as well (independent re-parse of the text)
    for c in cases:
        msg = oracle(c)
        if msg:
            out["failures"].append(Failure({"doc": c["doc"]}, "property oracle", on_impl=msg))
    return out


def oracle(case):
    os.makedirs(os.path.join(C.VERIF, ".work"), exist_ok=True)
    return G.oracle_load(case["doc"], os.path.join(C.VERIF, ".work"))

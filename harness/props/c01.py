"""C01 - readers load exactly what the file contains."""
import json, os
import common as C
from common import Failure, coq_list
import oscgen as G
import jetgen as J

ID = "C01"
GEN = ["gen_particle_tables"]
ALLOWED_AXIOMS = []
TRUSTED = [
    "Coq 8.16.1 kernel + vm_compute (no native_compute); every theorem closed under the global context",
    "translator tools/py2coq/gen_particle_tables.py: attribute_mapping, the float/int cast lists, the relaxed-column formats of Particle.__initialize_from_array and OscarLoader._set_custom_attr_list.attr_map as Coq tables",
    "hand models coq/Model/Oscar.v, Jetscape.v of the loaders (token level: a line is line.split(' ') resp. tab/blank split), tied by this run's correspondence on generated files incl. tab- and blank-separated JETSCAPE headers and files without final newline",
    "oracles (universally quantified functions in the theorems, tables computed by the harness in the correspondence): Python float()/int() on a token, PDGID.is_valid/charge, numpy sqrt",
    "character level -> token level: proved (Lib/Split.v): split(' ') of a joined line gives its tokens, a blank-free pattern occurs in the line iff inside a token, ' p ' iff an inner token equals p; the raw tests 'in ' and ' start' are tied to their token forms by the correspondence only; tab-separated JETSCAPE headers by the correspondence",
    "Oscar2013Extended_IC / _Photons header scans are not modelled (outside the property's format list)",
]
ASSUMPTIONS = ["nearest-double parsing is Python's float(); the property oracle re-derives it independently as float(Fraction(token))",
               "float rounding of the derived JETSCAPE mass is not modelled (compared within 1e-9)"]
LEVEL_TEXT = ("Theorems (Coq, closed under the global context): for every well-formed Oscar2013/Extended/ASCII or JETSCAPE document "
              "(any number of events >= 1, any multiplicities incl. empty events anywhere) the loader model returns exactly the document's "
              "events and particle lines in order, counts, number of events, format, each event's own impact parameter / sigmaGen; "
              "column tables regenerated from the source equal the documented layout; every listed column lands in its slot with its cast; "
              "derived JETSCAPE mass/charge; lines of the documented shapes are classified correctly for any numeric tokens. "
              "The loader models are run against the real readers on every run together with an independent re-parse oracle.")
LEVEL_NOTE = ("Hand-written loader models at token level (tied by correspondence, not regenerated); tables regenerated; oracles for float()/int()/PDG/sqrt; "
              "char-level substring semantics proved for blank-free and blank-delimited patterns (Lib/Split.v), two raw tests by correspondence; GenerateFlow writers are exercised by read-back in the correspondence only.")
TECHNIQUE = "Coq proof by induction over the events of a rendered document against an executable loader model; regenerated column tables; vm_compute correspondence with the real readers"

PRELUDE = """From Coq Require Import List String ZArith QArith.
From SX Require Import Lib.Strs Gen.GenParticleMap Model.Oscar Model.Jetscape.
Import ListNotations.
Local Open Scope string_scope.
"""


def run_case(ctx, case, idx):
    if case["kind"] == "jet":
        path = os.path.join(ctx.work, f"f{idx}.dat")
        with open(path, "w") as f:
            f.write(case["text"])
        obs = J.observe(path, particletype=case["doc"]["ptype"])
    else:
        path = os.path.join(ctx.work, f"f{idx}.oscar")
        with open(path, "w") as f:
            f.write(case["text"])
        obs = G.observe_oscar(path)
    os.remove(path)
    return obs


def coq_case(case, obs):
    lines = case["text"].split("\n")
    if lines and lines[-1] == "":
        lines = lines[:-1]
    if case["kind"] == "jet":
        tf, ti, pv, pc, sq = J.tables(lines)
        word = "N_hadrons" if case["doc"]["ptype"] == "hadron" else "N_partons"
        return (f"(check_jetscape (table {tf}) (table {ti}) (pvtable {pv}) (qtable {pc}) (qtable {sq}) "
                f"{J.coq_file(lines)} {C.coq_str(word)} SelAll {J.coq_observed(obs)})")
    tf, ti = G.token_tables(lines)
    pv = G.pdg_table([l.split(" ") for l in lines])
    return (f"(check_oscar (table {tf}) (table {ti}) (pvtable {pv}) {G.coq_file(lines)} SelAll {G.coq_observed(obs)})")


def doc_from_text(text):
    """independent parse of a generated file into the doc structure used by the oracles"""
    lines = text.split("\n")
    if lines and lines[-1] == "":
        lines = lines[:-1]
    if lines[0].startswith("#!OSCAR2013 "):
        evs = []
        for l in lines[3:]:
            t = l.split(" ")
            if l.startswith("# event") and " out " in l:
                evs.append({"rows": [], "label": int(t[2]), "declared": int(t[4])})
            elif l.startswith("# event"):
                nz = [x for x in t if x]
                evs[-1]["b"] = nz[-3]; evs[-1]["yn"] = nz[-1]; evs[-1]["foot"] = l
            else:
                evs[-1]["rows"].append(t)
        return "oscar", {"fmt": "Oscar2013", "head": lines[:3], "cols": None, "events": evs}
    evs = []
    for l in lines[1:-1]:
        t = l.replace("\t", " ").split(" ")
        if l.startswith("#"):
            evs.append({"rows": [], "label": int(t[2]), "declared": int(t[8]), "weight": t[4], "ep": t[6]})
        else:
            evs[-1]["rows"].append(t)
    tr = lines[-1].split()
    return "jet", {"ptype": "hadron", "sep": " ", "events": evs, "sigma": tr[2], "sigerr": tr[4],
                   "final_newline": text.endswith("\n")}


def generator_cases(ctx):
    """files written by the eight GenerateFlow.generate_dummy_* writers, read back"""
    from sparkx.flow.GenerateFlow import GenerateFlow
    import warnings
    out = []
    specs = [("generate_dummy_JETSCAPE_file", {}), ("generate_dummy_JETSCAPE_file_realistic_pT_shape", {}),
             ("generate_dummy_JETSCAPE_file_multi_particle_correlations", {"k_particle_correlation": 2, "correlation_fraction": 0.5}),
             ("generate_dummy_JETSCAPE_file_realistic_pT_shape_multi_particle_correlations", {"k_particle_correlation": 2, "correlation_fraction": 0.5}),
             ("generate_dummy_OSCAR_file", {}), ("generate_dummy_OSCAR_file_realistic_pT_shape", {}),
             ("generate_dummy_OSCAR_file_multi_particle_correlations", {"k_particle_correlation": 2, "correlation_fraction": 0.5}),
             ("generate_dummy_OSCAR_file_realistic_pT_shape_multi_particle_correlations", {"k_particle_correlation": 2, "correlation_fraction": 0.5})]
    for name, kw in specs:
        nev = ctx.rng.randint(1, 3)
        mult = ctx.rng.choice([2, 4, 6])
        ext = ".dat" if "JETSCAPE" in name else ".oscar"
        path = os.path.join(ctx.work, "gen_" + name + ext)
        text = None
        for attempt in range(8):
            # the k-particle-correlation generators can run off their momentum arrays for some seeds
            # (IndexError in __create_k_particle_correlations, no file is produced): not a reader matter, try another seed
            try:
                with warnings.catch_warnings():
                    warnings.simplefilter("ignore")
                    g = GenerateFlow(0.1, 0.05)
                    getattr(g, name)(path, nev, mult, ctx.rng.randint(1, 10**6), **kw)
                text = open(path).read()
                break
            except IndexError:
                continue
        if text is None:
            ctx.notes.append(f"{name}: no file produced in 8 attempts (generator raised IndexError)")
            continue
        os.remove(path)
        kind, doc = doc_from_text(text)
        out.append({"kind": kind, "doc": doc, "text": text, "writer": name})
    return out


def gen_case(rng):
    if rng.random() < 0.4:
        d = J.gen_doc(rng)
        return {"kind": "jet", "doc": d, "text": J.render(d)}
    d = G.gen_doc(rng)
    return {"kind": "oscar", "doc": d, "text": G.render(d)}


def correspondence(ctx, model_ok=True):
    n = 200 if ctx.quick else 3000
    cases = []
    cases += generator_cases(ctx)
    ngen = len(cases)
    for i in range(n - ngen):
        cases.append(gen_case(ctx.rng))
    obs = [run_case(ctx, c, i) for i, c in enumerate(cases)]
    out = {"evaluations": n, "distinct_nontrivial": len({c["text"] for c, o in zip(cases, obs) if "err" not in o}),
           "rule": "random well-formed docs", "samples": [cases[0]["text"][:400]], "failures": [], "broken": []}
    ok, log = C.make(["Model/Oscar.vo", "Model/Jetscape.vo"])
    if not ok:
        out["broken"].append({"what": "Model/Oscar.v does not build", "detail": log[-800:]})
        return out
    shard = 60
    files = []
    for i in range(0, n, shard):
        body = coq_list([coq_case(c, o) for c, o in zip(cases[i:i + shard], obs[i:i + shard])])
        files.append((f"c01_{i//shard}", PRELUDE + f"Eval vm_compute in {body}.\n"))
    res = C.coq_eval_many(ctx, files)
    codes = []
    for (ok, o), (name, _) in zip(res, files):
        if not ok:
            out["broken"].append({"what": f"cases file {name} failed", "detail": o[-1500:]})
            return out
        codes += C.parse_codes(o)
    out["traces_validated_against_impl"] = sum(1 for c in codes if c == 0)
    from collections import Counter
    out["distribution"] = {"codes": dict(Counter(codes)), "impl_errors": dict(Counter(o.get("err", "ok") for o in obs))}
    for c, o, code in zip(cases, obs, codes):
        if code != 0:
            out["failures"].append(Failure({"kind": c["kind"], "doc": c["doc"]}, f"model/impl disagree code {code}; impl={json.dumps(o)[:300]}"))
    # the property oracle runs on every case as well (independent re-parse of the text)
    for c in cases:
        msg = oracle(c)
        if msg:
            out["failures"].append(Failure({"kind": c["kind"], "doc": c["doc"]}, "property oracle", on_impl=msg))
    return out


def oracle(case):
    os.makedirs(os.path.join(C.VERIF, ".work"), exist_ok=True)
    if case.get("kind") == "jet":
        return J.oracle_load(case["doc"], os.path.join(C.VERIF, ".work"))
    return G.oracle_load(case["doc"], os.path.join(C.VERIF, ".work"))

"""C14 - bulk observables are normalised per event and per unit of the variable (BulkObservables.py)."""
import json, math, os, warnings
from fractions import Fraction
import numpy as np
import common as C
from common import Failure
from props import _hist as H

ID = "C14"
GEN = ["gen_bulk"]
ALLOWED_AXIOMS = []
MODEL_INDEPENDENT_OF_PROOFS = True
TRUSTED = [
    "Coq 8.16.1 kernel + vm_compute (no native_compute)",
    "tools/py2coq/gen_bulk.py (fail-closed typed translator, Python ast): regenerates on every run the bodies of "
    "BulkObservables._differential_yield, dNdy, dNdpT, dNdEta, dNdmT, mid_rapidity_yield, mid_rapidity_mean_pT, "
    "mid_rapidity_mean_mT as Gallina (Gen/GenBulk.v), their parameter defaults and the method table of ReadOnlyList; "
    "coq/Model/BulkRt.v gives the meaning of the accepted Python constructs (isinstance on the input domain, indexing, "
    "range, int/float arithmetic and comparison, for / for-break loops, the Histogram calls = Model/Histogram.v)",
    "hand model coq/Model/Bulk.v of BulkObservables: PROVED EQUAL, for all arguments, to the regenerated methods "
    "(C14_source_*), and still run against the real code by this run's correspondence",
    "hand model coq/Model/Histogram.v of the Histogram class (constructor, add_value, add_histogram, average, "
    "scale_histogram, bin_width): tied to the code by the correspondence only (C09/C10)",
    "a particle is the observation of the methods the code calls on it (quantity(), pT_abs(), mT()); the harness obtains the "
    "observations by calling the same methods of sparkx.Particle (C08 is about the methods themselves)",
    "numpy primitives / np.sqrt / np.linspace as in C09 and C10; exact rationals instead of IEEE rounding",
]
ASSUMPTIONS = [
    "tie to the source: input domain of the regenerated methods = bin_properties a tuple (number, number, n) or a list of "
    "numbers (or None for the public spectra), y_width a number or an object that is neither int nor float, quantity a str; "
    "all particles are of one class (callable(getattr(p, name)) depends on the name only); the warning-only blocks of "
    "dNdpT / dNdmT are validated to be effect-free on that domain and dropped; ReadOnlyList is validated to pass "
    "indexing / len / iteration through, which is what lets the translator read self.particle_objects as the list itself",
    "the harness tables METHOD_Q / DEFAULT_BINS / DEFAULT_MID are compared with the tables read from the source on every run",
    "'inputs left unmodified' is checked by the correspondence only (identity and data of every particle, before/after)",
    "a quantity that evaluates to NaN makes the differential yields raise ValueError (Histogram.add_value): mirrored by the "
    "model, no claim by the oracle",
    "events whose window holds no particle have no mean pT/mT: the theorem for the mean has the hypothesis that every window "
    "is non-empty (the general formula - average over the events that do have one - is proved as well)",
]

METHOD_Q = {"dNdy": "rapidity", "dNdpT": "pT_abs", "dNdEta": "pseudorapidity", "dNdmT": "mT"}
DEFAULT_BINS = {"dNdy": (-2, 2, 11), "dNdpT": (0, 4, 11), "dNdEta": (-2, 2, 11), "dNdmT": (0, 4, 11)}
DEFAULT_MID = {"y_width": 1.0, "quantity": "rapidity"}
MID_METHODS = ("mid_rapidity_yield", "mid_rapidity_mean_pT", "mid_rapidity_mean_mT")
LABELS = {k: f"L{i}" for i, k in enumerate(H.DEFAULT_COLUMNS)}


def mid_args(case):
    """(width, quantity) a mid-rapidity case is evaluated with; `defaults`: the methods are called without arguments"""
    if case.get("defaults"):
        return DEFAULT_MID["y_width"], DEFAULT_MID["quantity"]
    return H.num(case["width"]), case["quantity"]


def source_tables_mismatch():
    """the hand tables of this module against the ones read from the current source (None: equal / not readable)"""
    try:
        from py2coq import gen_bulk
        t = gen_bulk.tables()
    except Exception:
        return None            # the translator aborted: reported by the driver
    got_q = {m: v["quantity"] for m, v in t["yield"].items()}
    got_b = {m: tuple(v["default"]) if v["default"] is not None else None for m, v in t["yield"].items()}
    diffs = []
    if got_q != METHOD_Q:
        diffs.append(f"quantity per spectrum: source {got_q}, harness {METHOD_Q}")
    if got_b != DEFAULT_BINS:
        diffs.append(f"default binning per spectrum: source {got_b}, harness {DEFAULT_BINS}")
    for m in MID_METHODS:
        if t["mid"].get(m) != DEFAULT_MID:
            diffs.append(f"defaults of {m}: source {t['mid'].get(m)}, harness {DEFAULT_MID}")
    return "; ".join(diffs) or None


# ----------------------------------------------------------------------------- particles
def _obs_class():
    from sparkx.Particle import Particle

    class ObsParticle(Particle):
        """a Particle whose kinematic methods return prescribed values (to put values exactly on edges)"""
        def __init__(self, obs):
            super().__init__()
            self._obs = dict(obs)

        def rapidity(self):
            return self._obs["y"]

        def pseudorapidity(self):
            return self._obs["y"]

        def spacetime_rapidity(self):
            return self._obs["y"]

        def pT_abs(self):
            return self._obs["pt"]

        def mT(self):
            return self._obs["mt"]
    return ObsParticle


def mk_particle(spec):
    from sparkx.Particle import Particle
    if "obs" in spec:
        return _obs_class()({k: H.num(v) for k, v in spec["obs"].items()})
    p = Particle()
    for k in ("px", "py", "pz", "E", "t", "z"):
        if k in spec:
            setattr(p, k, float(H.num(spec[k])))
    return p


def mk_events(case):
    if case.get("alias_particles"):
        # particles with the same specification are one and the same object, in whichever events (and however often) they occur
        seen = {}
        return [[seen.setdefault(json.dumps(s, sort_keys=True), mk_particle(s)) for s in ev] for ev in case["events"]]
    if case.get("alias"):
        # resampled input: events with the same specification are one and the same list object
        seen, out = {}, []
        for ev in case["events"]:
            k = json.dumps(ev, sort_keys=True)
            if k not in seen:
                seen[k] = [mk_particle(s) for s in ev]
            out.append(seen[k])
        return out
    return [[mk_particle(s) for s in ev] for ev in case["events"]]


def observe(spec, quantity):
    """what the method returns on this particle (an independent object), or None when it is not a callable"""
    p = mk_particle(spec)
    with np.errstate(all="ignore"):
        m = getattr(p, quantity)
        return float(m()) if callable(m) else None


def snapshot(evs):
    return [[(id(p), p.data_.copy(), dict(getattr(p, "_obs", {}))) for p in ev] for ev in evs]


def same_snapshot(a, b, evs, ids):
    if [id(e) for e in evs] != ids or len(a) != len(b):
        return False
    for ea, eb in zip(a, b):
        if len(ea) != len(eb):
            return False
        for (i1, d1, o1), (i2, d2, o2) in zip(ea, eb):
            if i1 != i2 or not np.array_equal(d1, d2, equal_nan=True) or o1 != o2:
                return False
    return True


def bins_arg(b):
    if b is None:
        return None
    if b["kind"] == "tuple":
        return (H.num(b["lo"]), H.num(b["hi"]), b["n"])
    return [int(e) for e in H.nums(b["edges"])] if b.get("as_int") else H.nums(b["edges"])


def run_impl(case, workdir=None):
    from sparkx.BulkObservables import BulkObservables
    warnings.simplefilter("ignore")
    evs = mk_events(case)
    ids = [id(e) for e in evs]
    before = snapshot(evs)
    out = {"unmodified": None}
    with np.errstate(all="ignore"):
        bulk = BulkObservables(evs)
        # earlier calls on the SAME object (other widths / rapidity flavours / spectra): results must not depend on them
        kept = []
        for pre in case.get("prelude", []):
            try:
                if pre["m"].startswith("mid"):
                    getattr(bulk, pre["m"])(H.num(pre["width"]), pre["quantity"])
                else:
                    hp = getattr(bulk, pre["m"])() if pre.get("bins") is None else getattr(bulk, pre["m"])(bins_arg(pre["bins"]))
                    kept.append((hp, H.snap(hp)))          # the caller keeps the histogram an earlier call returned
            except Exception:
                pass
        if case["kind"] == "yield":
            b = case["bins"]
            t = DEFAULT_BINS[case["method"]] if b is None else bins_arg(b)
            out["linspace"] = None
            if isinstance(t, tuple):
                try:
                    out["linspace"] = [float(x) for x in np.linspace(t[0], t[1], num=t[2] + 1)]
                except Exception:
                    out["linspace"] = []
            try:
                h = getattr(bulk, case["method"])() if b is None else getattr(bulk, case["method"])(bins_arg(b))
                out["state"] = H.snap(h)
                out["hist"] = H.arr_snap(h.histogram())    # what the caller sees
                out["exc"] = None
            except Exception as e:
                out["state"], out["exc"] = None, H.exc_name(e)
                h = None
            out["write"] = None
            if h is not None:
                path = os.path.join(workdir or "/tmp", f"bulk_{os.getpid()}.csv")
                try:
                    h.write_to_file(path, [LABELS])
                    out["write"] = {"tables": H.parse_csv(path, out["state"]["nbins"])}
                except Exception as e:
                    out["write"] = {"exc": H.exc_name(e)}
                finally:
                    try:
                        os.remove(path)
                    except OSError:
                        pass
        else:
            if case.get("defaults"):
                calls = (("yield", lambda: bulk.mid_rapidity_yield()), ("pt", lambda: bulk.mid_rapidity_mean_pT()),
                         ("mt", lambda: bulk.mid_rapidity_mean_mT()))
            else:
                calls = (("yield", lambda: bulk.mid_rapidity_yield(H.num(case["width"]), case["quantity"])),
                         ("pt", lambda: bulk.mid_rapidity_mean_pT(H.num(case["width"]), case["quantity"])),
                         ("mt", lambda: bulk.mid_rapidity_mean_mT(H.num(case["width"]), case["quantity"])))
            for name, call in calls:
                try:
                    out[name] = {"value": float(call())}
                except Exception as e:
                    out[name] = {"exc": H.exc_name(e)}
    out["unmodified"] = same_snapshot(before, snapshot(evs), evs, ids)
    try:
        out["earlier_results_unchanged"] = all(json.dumps(H.snap(hp), sort_keys=True) == json.dumps(s0, sort_keys=True) for hp, s0 in kept)
    except Exception:
        out["earlier_results_unchanged"] = False
    return out


# ----------------------------------------------------------------------------- Coq encoding
def coq_bins(case):
    b = case["bins"]
    if b is None:
        lo, hi, n = DEFAULT_BINS[case["method"]]
        return f"(BTuple {H.qc(lo)} {H.qc(hi)} true {n})"
    if b["kind"] == "tuple":
        n = b["n"]
        is_int = isinstance(n, int) and not isinstance(n, bool)
        return f"(BTuple {H.qc(H.num(b['lo']))} {H.qc(H.num(b['hi']))} {C.coq_bool(is_int)} {C.z(int(n))})"
    return "(BList " + H.cl(H.qc, H.nums(b["edges"])) + ")"


def coq_case(case, got):
    ok = True
    if case["kind"] == "yield":
        q = METHOD_Q[case["method"]]
        evs = H.cl(lambda ev: H.cl(lambda s: H.cell(observe(s, q)), ev), case["events"])
        ls = H.cl(H.qc, got["linspace"]) if got["linspace"] is not None else "[]"
        e, r = H.coq_res_state(got["state"], got["exc"])
        ok &= r
        if got["write"] is None:
            ew = "None"
        elif "exc" in got["write"]:
            ew = f"(Some {H.coq_exc(got['write']['exc'])})"
        else:
            ew = "(Some (Ok " + H.cl(lambda t: "(" + H.cl(lambda s: str(H.labnum(s)), t[0]) + ", " + H.cl(lambda r: H.cl(H.cell, r), t[1]) + ")",
                                      got["write"]["tables"]) + "))"
        return f"(check_yield {ls} true {coq_bins(case)} {evs} {e} {ew})", ok
    width, q = mid_args(case)
    callable_ = True
    cells = []
    for ev in case["events"]:
        row = []
        for s in ev:
            v = observe(s, q)
            if v is None:
                callable_ = False
                row.append("(N, N, N)")
            else:
                row.append(f"({H.cell(v)}, {H.cell(observe(s, 'pT_abs'))}, {H.cell(observe(s, 'mT'))})")
        cells.append("[" + "; ".join(row) + "]")

    def res(r):
        return H.coq_exc(r["exc"]) if "exc" in r else f"(Ok {H.cell(r['value'])})"
    return (f"(check_mid {C.coq_bool(callable_)} {H.qc(width)} [{'; '.join(cells)}] "
            f"{res(got['yield'])} {res(got['pt'])} {res(got['mt'])})"), ok


PRELUDE = """From Coq Require Import List ZArith QArith Qcanon.
From SX Require Import Model.Histogram Model.HistCheck Model.Bulk Model.BulkCheck.
Import ListNotations.
Local Open Scope nat_scope.
"""


# ----------------------------------------------------------------------------- generator
def gen_particle(rng, edges, flavour, real_ok=True):
    """a particle whose `flavour` quantity is near / on the given edges"""
    if real_ok and rng.random() < 0.45:
        # a real Particle: pT = |px| exactly, mT = E (pz = 0) or a Pythagorean pair, y from E, pz
        px = rng.choice([0.25, 0.5, 0.75, 1.0, 1.5, 2.0, 3.0, -1.0, -0.5] + [e for e in edges if e > 0])
        s = {"px": px, "py": 0.0}
        if rng.random() < 0.5:
            s.update({"pz": 0.0, "E": abs(px) + rng.choice([0.0, 0.25, 1.0])})
        else:
            k = rng.choice([0.5, 1.0, 2.0])
            s.update({"pz": rng.choice([4.0, -4.0, 3.0, -3.0]) * k, "E": 5.0 * k})
        s.update({"t": rng.choice([2.0, 4.0, 8.0]), "z": rng.choice([0.0, 1.0, -1.0, 0.5])})
        if rng.random() < 0.05:
            s.pop(rng.choice(["px", "E", "pz"]))             # an unset attribute: NaN observations
        return s
    y = H.gen_value(rng, edges)
    pt = rng.choice([0.25, 0.5, 0.75, 1.0, 1.5, 2.0, 3.0, 0.125, 0.0, 0.0])      # 0.0: a particle along the beam axis
    return {"obs": {"y": y, "pt": pt if flavour != "pt" else abs(y), "mt": pt + rng.choice([0.0, 0.25, 1.0]) if flavour != "mt" else abs(y)}}


def gen_events(rng, edges, flavour, nev=None):
    nev = nev or rng.choice([1, 1, 2, 2, 3, 3, 4, 5])
    evs = [[gen_particle(rng, edges, flavour) for _ in range(rng.choice([0, 1, 2, 3, 3, 4, 6]))] for _ in range(nev)]
    if nev > 1 and rng.random() < 0.12:
        # one event whose particles all have exactly zero pT and zero mT (its mean is 0, it is not an event without a mean)
        k = rng.randrange(nev)
        evs[k] = [{"obs": {"y": rng.choice([0.0, 0.125, -0.125, 0.25]), "pt": 0.0, "mt": 0.0}} for _ in range(rng.choice([1, 2, 3]))]
        return evs
    r = rng.random()
    if r < 0.2:
        evs[0] = []                                            # empty first event
    elif r < 0.3:
        evs[-1] = []
    elif r < 0.4 and nev > 2:
        evs[1] = []
    return evs


def _share_particles(rng, case):
    """one particle object in several events / several times in one event (the specification is repeated; mk_events builds one object)"""
    evs = case["events"]
    src = [s for ev in evs for s in ev]
    if not src:
        return
    for _ in range(rng.choice([1, 2, 3])):
        evs[rng.randrange(len(evs))].append(json.loads(json.dumps(rng.choice(src))))
    case["alias_particles"] = True


def gen_case(rng):
    if rng.random() < 0.6:
        method = rng.choice(["dNdy", "dNdpT", "dNdEta", "dNdmT"])
        r = rng.random()
        if r < 0.1:
            bins = None
            edges = [float(x) for x in np.linspace(*DEFAULT_BINS[method][:2], num=12)]
        else:
            while True:
                init = H.gen_init(rng, allow_bad=rng.random() < 0.1)
                if init["kind"] == "tuple" or not init.get("np"):
                    break
            init.pop("np", None)
            if init["kind"] == "tuple" and method in ("dNdpT", "dNdmT") and rng.random() < 0.7:
                init = dict(init, lo=abs(init["lo"]), hi=abs(init["lo"]) + (init["hi"] - init["lo"]))
            bins = init
            edges = H.edges_of(init)
        flavour = {"dNdpT": "pt", "dNdmT": "mt"}.get(method, "y")
        # ObsParticle drives y / pT / mT through obs["y"], obs["pt"], obs["mt"]
        evs = gen_events(rng, edges, flavour)
        for ev in evs:
            for s in ev:
                if "obs" in s and flavour == "pt":
                    s["obs"]["pt"] = abs(s["obs"]["y"]) if rng.random() < 0.8 else s["obs"]["y"]
                if "obs" in s and flavour == "mt":
                    s["obs"]["mt"] = abs(s["obs"]["y"]) if rng.random() < 0.8 else s["obs"]["y"]
        if rng.random() < 0.04:
            evs = []
        case = {"kind": "yield", "method": method, "bins": bins, "events": evs}
        if len(evs) >= 2 and rng.random() < 0.2:
            # the same event object several times in the sample (bootstrap resampling), e.g. the last one also earlier
            evs[rng.randrange(len(evs) - 1)] = json.loads(json.dumps(evs[-1]))
            if rng.random() < 0.5:
                evs.append(json.loads(json.dumps(evs[0])))
            case["alias"] = True
        elif evs and rng.random() < 0.12:
            _share_particles(rng, case)
        if rng.random() < 0.35:
            # the object has been used before and the caller still holds what it returned: the same spectrum with the same binning,
            # with another binning, another spectrum, a mid-rapidity number
            pre = []
            for _ in range(rng.choice([1, 1, 2])):
                r = rng.random()
                if r < 0.4:
                    pre.append({"m": method, "bins": json.loads(json.dumps(bins))})
                elif r < 0.6:
                    pre.append({"m": method, "bins": {"kind": "list", "edges": [edges[0] - 1.0, edges[0], edges[-1] + 0.5]}})
                elif r < 0.85:
                    pre.append({"m": rng.choice(["dNdy", "dNdpT", "dNdEta", "dNdmT"])})
                else:
                    pre.append({"m": rng.choice(MID_METHODS), "width": rng.choice([0.5, 1.0, 2.0]), "quantity": "rapidity"})
            case["prelude"] = pre
        return case
    w = rng.choice([1.0, 1.0, 0.5, 2.0, 3.0, 0.25, 4])
    if rng.random() < 0.05:
        w = rng.choice([0.0, -1.0])
    q = rng.choice(["rapidity", "rapidity", "pseudorapidity", "spacetime_rapidity"])
    if rng.random() < 0.03:
        q = "t"                                                # an attribute that is not callable
    edges = [-w, -w / 2, -w / 4, 0.0, w / 4, w / 2, w] if w > 0 else [-1.0, 0.0, 1.0]
    evs = gen_events(rng, edges, "y")
    if rng.random() < 0.45:                                    # make every window non-empty
        for ev in evs:
            ev.append({"obs": {"y": rng.choice([0.0, w / 2, -w / 2, w / 4] if w > 0 else [0.0]),
                               "pt": rng.choice([0.5, 1.0, 2.0, 0.25]), "mt": rng.choice([0.5, 1.5, 2.0, 1.25])}})
    if rng.random() < 0.03:
        evs = []
    case = {"kind": "mid", "width": w, "quantity": q, "events": evs}
    if w == DEFAULT_MID["y_width"] and q == DEFAULT_MID["quantity"] and rng.random() < 0.5:
        case["defaults"] = True                               # the three methods are called without arguments
    if evs and rng.random() < 0.1:
        _share_particles(rng, case)
    if rng.random() < 0.5:
        # the object has been used before: same width with another flavour, same flavour with another width, a spectrum
        pre = []
        for _ in range(rng.choice([1, 2, 3])):
            r = rng.random()
            m = rng.choice(["mid_rapidity_yield", "mid_rapidity_mean_pT", "mid_rapidity_mean_mT"])
            if r < 0.55:
                pre.append({"m": m, "width": rng.choice([w, float(w), int(w) if float(w) == int(w) else w]),
                            "quantity": rng.choice([x for x in ("rapidity", "pseudorapidity", "spacetime_rapidity") if x != q])})
            elif r < 0.85:
                pre.append({"m": m, "width": rng.choice([0.5, 1.0, 2.0, 8.0]), "quantity": q})
            else:
                pre.append({"m": rng.choice(["dNdy", "dNdpT", "dNdEta", "dNdmT"])})
        case["prelude"] = pre
    return case


# ----------------------------------------------------------------------------- property oracle (real code)
def _close(got, want):
    if not math.isfinite(got):
        return False
    want = Fraction(want)
    return abs(Fraction(got) - want) <= Fraction(1, 10**9) * (abs(want) + abs(Fraction(got))) + Fraction(1, 10**12)


def oracle(case):
    """C14 by direct recomputation from the definition, on the real code"""
    got = run_impl(case, os.path.join(C.VERIF, ".work"))
    nev = len(case["events"])
    if nev == 0:
        return None
    if got["unmodified"] is False:
        return "the particle lists passed to BulkObservables were modified"
    if case["kind"] == "yield":
        q = METHOD_Q[case["method"]]
        vals = [[observe(s, q) for s in ev] for ev in case["events"]]
        if any(v is None or not math.isfinite(v) for ev in vals for v in ev):
            return None
        b = case["bins"]
        if b is not None:
            if b["kind"] == "tuple":
                if not (isinstance(b["n"], int) and b["n"] > 0 and H.num(b["lo"]) < H.num(b["hi"])):
                    return None
            else:
                e = H.nums(b["edges"])
                if len(e) < 2 or not all(x < y for x, y in zip(e, e[1:])):
                    return None
        if got["exc"] is not None:
            return f"{case['method']}({bins_arg(b) if b else ''}) on {nev} event(s) {[len(e) for e in case['events']]} raises {got['exc']}"
        st = got["state"]
        if got.get("earlier_results_unchanged") is False:
            return (f"{case['method']}: a histogram returned by an earlier call on the same BulkObservables object "
                    f"({case.get('prelude')}) changed when the object was used again")
        if b is None:
            edges = [Fraction(x) for x in st["edges"]]          # the default binning is not part of the text: as returned
        elif b["kind"] == "tuple":
            # n bins between lo and hi: the edges of the returned histogram are used once they are lo + i (hi - lo) / n (as in C09:
            # up to the rounding of one double, outer edges exact)
            lo, hi, n = Fraction(H.num(b["lo"])), Fraction(H.num(b["hi"])), b["n"]
            want_e = [lo + i * (hi - lo) / n for i in range(n + 1)]
            if len(st["edges"]) != n + 1 or st["edges"][0] != float(lo) or st["edges"][-1] != float(hi) or not all(
                    abs(Fraction(g) - w) <= Fraction(1, 10**15) + Fraction(1, 10**14) * (abs(w) + abs(Fraction(g))) for g, w in zip(st["edges"], want_e)):
                return (f"{case['method']}({bins_arg(b)}): the returned histogram has the edges {st['edges']}, "
                        f"expected {[float(w) for w in want_e]}")
            edges = [Fraction(x) for x in st["edges"]]
        else:
            edges = [Fraction(x) for x in H.nums(b["edges"])]
            if [Fraction(x) for x in st["edges"]] != edges:
                return f"{case['method']}({bins_arg(b)}): the returned histogram has the edges {st['edges']}"
        if not all(x < y for x, y in zip(edges, edges[1:])):
            return None
        if st["H"]["nd"] != 2 or st["H"]["shape"] != [1, len(edges) - 1]:
            return f"{case['method']}: returned histogram has shape {st['H']['shape']}"
        hv = got.get("hist")
        if hv is None or hv["nd"] != 2 or hv["shape"] != [1, len(edges) - 1]:
            return f"{case['method']}: histogram() of the returned object has shape {hv and hv['shape']}"
        cont = hv["data"][0]
        flat = [Fraction(v) for ev in vals for v in ev]
        total = Fraction(0)
        for i in range(len(edges) - 1):
            n = sum(1 for v in flat if edges[i] <= v < edges[i + 1])
            want = Fraction(n) / (nev * (edges[i + 1] - edges[i]))
            if not _close(cont[i], want):
                return (f"{case['method']}: bin {i} [{float(edges[i])}, {float(edges[i+1])}) holds {cont[i]!r}; {n} particle(s) in the bin / "
                        f"({nev} events * width {float(edges[i+1]-edges[i])}) = {float(want)!r}")
            total += Fraction(cont[i]) * (edges[i + 1] - edges[i])
        inrange = sum(1 for v in flat if edges[0] <= v < edges[-1])
        if not _close(float(total * nev), inrange):
            return f"{case['method']}: N_ev * sum(content*width) = {float(total*nev)!r}, {inrange} particles are in range"
        wr = got["write"]
        if wr is None or "exc" in wr:
            return f"{case['method']}: the returned histogram cannot be written to file ({wr and wr['exc']}: write_to_file raises)"
        rows = wr["tables"][0][1] if wr["tables"] else []
        if [r[3] for r in rows] != [float(x) for x in cont]:
            return f"{case['method']}: the written distribution column {[r[3] for r in rows]} differs from the histogram {cont}"
        return None
    w, q = mid_args(case)
    if not w > 0:
        return None
    obs = [[(observe(s, q), observe(s, "pT_abs"), observe(s, "mT")) for s in ev] for ev in case["events"]]
    if any(o[0] is None for ev in obs for o in ev):
        return None
    half = Fraction(w) / 2

    def inside(v):
        return math.isfinite(v) and -half <= Fraction(v) <= half
    windows = [[o for o in ev if inside(o[0])] for ev in obs]
    y = got["yield"]
    want = Fraction(sum(len(x) for x in windows), nev)
    if "exc" in y:
        return (f"mid_rapidity_yield(y_width={w}, quantity={q!r}) on events with {[len(e) for e in obs]} particles raises {y['exc']}; "
                f"the per-event mean count inside the window is {float(want)}")
    if not _close(y["value"], want):
        return f"mid_rapidity_yield(y_width={w}) returns {y['value']!r}; per-event mean count inside |{q}| <= {w/2} is {float(want)!r}"
    if all(len(x) > 0 for x in windows):
        for name, k, meth in (("pt", 1, "mid_rapidity_mean_pT"), ("mt", 2, "mid_rapidity_mean_mT")):
            if any(not math.isfinite(o[k]) for x in windows for o in x):
                continue
            want = sum(sum(Fraction(o[k]) for o in x) / len(x) for x in windows) / nev
            r = got[name]
            if "exc" in r:
                return f"{meth}(y_width={w}) raises {r['exc']} although every event has particles in the window"
            if not _close(r["value"], want):
                return (f"{meth}(y_width={w}, quantity={q!r}) returns {r['value']!r}; the per-event means over the particles inside the "
                        f"window are {[float(sum(Fraction(o[k]) for o in x) / len(x)) for x in windows]}, their average over {nev} "
                        f"event(s) is {float(want)!r}")
    return None


def classify(msg):
    if msg is None:
        return None
    if "cannot be written" in msg:
        return "C14-returned-histogram-not-writable"
    if "mid_rapidity_mean" in msg:
        return "C14-mean-divides-by-all-particles"
    if "mid_rapidity_yield" in msg and "raises IndexError" in msg:
        return "C14-empty-first-event"
    return None


# ----------------------------------------------------------------------------- correspondence
def correspondence(ctx, model_ok=True):
    n = 300 if ctx.quick else 10000
    cases = []
    corpus = os.path.join(C.VERIF, "corpus", ID)
    if os.path.isdir(corpus):
        for fn in sorted(os.listdir(corpus)):
            cases.append(json.load(open(os.path.join(corpus, fn)))["case"])
    while len(cases) < n:
        cases.append(gen_case(ctx.rng))
    gots = [run_impl(c, ctx.work) for c in cases]
    dist = {"kind": {}, "method": {}, "quantity": {}, "events": {}, "empty_first_event": 0, "empty_other_event": 0,
            "exceptions": 0, "explicit_bins": 0, "default_bins": 0, "real_particles": 0, "prescribed_particles": 0,
            "object_used_before": 0}
    keys = set()
    for c, g in zip(cases, gots):
        dist["kind"][c["kind"]] = dist["kind"].get(c["kind"], 0) + 1
        dist["events"][len(c["events"])] = dist["events"].get(len(c["events"]), 0) + 1
        if c["kind"] == "yield":
            dist["method"][c["method"]] = dist["method"].get(c["method"], 0) + 1
            dist["explicit_bins"] += bool(c["bins"] and c["bins"]["kind"] == "list")
            dist["default_bins"] += c["bins"] is None
            dist["exceptions"] += g["exc"] is not None
            nontrivial = g["exc"] is None and any(x != 0 for x in g["state"]["H"]["data"][0])
        else:
            dist["quantity"][c["quantity"]] = dist["quantity"].get(c["quantity"], 0) + 1
            dist["exceptions"] += any("exc" in g[k] for k in ("yield", "pt", "mt"))
            nontrivial = "value" in g["yield"] and g["yield"]["value"] != 0
        dist["object_used_before"] += bool(c.get("prelude"))
        dist["empty_first_event"] += bool(c["events"]) and c["events"][0] == []
        dist["empty_other_event"] += any(e == [] for e in c["events"][1:])
        dist["real_particles"] += sum(1 for e in c["events"] for s in e if "obs" not in s)
        dist["prescribed_particles"] += sum(1 for e in c["events"] for s in e if "obs" in s)
        if nontrivial:
            keys.add(json.dumps(c, sort_keys=True))
    out = {"evaluations": len(cases), "distinct_nontrivial": len(keys), "distribution": dist,
           "rule": "seeded random samples of 0-5 events with 0-7 particles (empty events first / middle / last), real sparkx Particles "
                   "(pT = |px|, mT from E,pz, rapidities as the methods compute them) and Particle subclasses with prescribed dyadic "
                   "observations (values exactly on edges and on +-width/2); dNdy/dNdpT/dNdEta/dNdmT with default, tuple and explicit "
                   "unequal-width binnings followed by write_to_file of the result; mid_rapidity_yield/mean_pT/mean_mT with several "
                   "widths and the three rapidity flavours; compared inside Coq: all arrays of the returned histogram, the parsed CSV, the "
                   "three mid-rapidity numbers, exception classes; half of the mid-rapidity cases call the same BulkObservables object beforehand with "
                   "the same width and another flavour / another width / a spectrum (results must not depend on earlier calls); the inputs are snapshotted before/after; non-trivial = no exception "
                   "and a non-zero result; distinct by canonical JSON",
           "samples": cases[:3], "model_runner": "Eval vm_compute in generated cases files (sharded coqc), comparison by Model/BulkCheck.v",
           "failures": [], "broken": []}
    out["all_cases"] = cases          # the driver runs the property oracle on these as well
    dist["default_arguments"] = sum(1 for c in cases if c.get("defaults"))
    mismatch = source_tables_mismatch()
    if mismatch:
        out["broken"].append({"what": "the harness tables (which Particle method a spectrum bins, default binnings, default "
                                      "y_width / quantity) differ from the ones read from the source", "detail": mismatch})
    ok, log = C.make(["Model/BulkCheck.vo"])
    if not ok:
        out["broken"].append({"what": "model Model/Bulk.v / Model/BulkCheck.v does not build", "detail": log[-800:]})
        return out
    shard, files, forced = 100, [], {}
    for i in range(0, len(cases), shard):
        terms = []
        for j, (c, g) in enumerate(zip(cases[i:i + shard], gots[i:i + shard])):
            t, representable = coq_case(c, g)
            if not representable:
                forced[i + j] = 98
            terms.append(t)
        files.append((f"c14_{i // shard}", PRELUDE + "Eval vm_compute in [" + ";\n ".join(terms) + "].\n"))
    res = C.coq_eval_many(ctx, files)
    codes = []
    for (ok, o), (name, _) in zip(res, files):
        if not ok:
            out["broken"].append({"what": f"cases file {name} failed to evaluate", "detail": o[-800:]})
            return out
        codes += C.parse_codes(o)
    if len(codes) != len(cases):
        out["broken"].append({"what": "cases output could not be parsed", "detail": f"{len(codes)} codes for {len(cases)} cases"})
        return out
    for k, v in forced.items():
        codes[k] = max(codes[k], v)
    for k, g in enumerate(gots):
        if g["unmodified"] is False:
            codes[k] = max(codes[k], 97)
    out["exact_agreements"] = sum(1 for c in codes if c == 0)
    out["tolerance_agreements"] = sum(1 for c in codes if c == 1)
    out["traces_validated_against_impl"] = sum(1 for c in codes if c <= 1)
    bad = [(c, code) for c, code in zip(cases, codes) if code >= 2]
    for c, code in bad[:40]:
        msg = oracle(c)
        small = c
        if msg:
            key = classify(msg)
            small = shrink(c, lambda x: (oracle(x) is not None) and classify(oracle(x)) == key)
            msg = oracle(small)
        out["failures"].append(Failure(small, f"model and implementation disagree (code {code})", key=classify(msg), on_impl=msg))
    return out


def shrink(case, fails):
    cur, changed = case, True
    while changed:
        changed = False
        evs = cur["events"]
        cands = []
        for i in range(len(evs)):
            if len(evs) > 1:
                cands.append(dict(cur, events=evs[:i] + evs[i + 1:]))
        for i, ev in enumerate(evs):
            for j in range(len(ev)):
                cands.append(dict(cur, events=evs[:i] + [ev[:j] + ev[j + 1:]] + evs[i + 1:]))
        for cand in cands:
            try:
                if fails(cand):
                    cur, changed = cand, True
                    break
            except Exception:
                pass
    return cur


def _obs(y, pt=1.0, mt=1.5):
    return {"obs": {"y": y, "pt": pt, "mt": mt}}


def probe_cases():
    """targeted inputs for the constants, comparison operators and branches that tools/py2coq/gen_bulk.py extracts:
    tried first by search() when the translator aborts or a C14_source_* theorem no longer checks"""
    out = []
    eps = 2.0 ** -20
    # ---- the window -w/2 <= q <= w/2: both bounds inclusive, just outside, both signs, int and float widths, every flavour
    for w in (1.0, 2, 0.5, 3.0, 4):
        h = w / 2
        for q in ("rapidity", "pseudorapidity", "spacetime_rapidity"):
            evs = [[_obs(h, 1.0, 2.0)], [_obs(-h, 0.5, 1.0), _obs(0.0, 2.0, 3.0)],
                   [_obs(h + eps, 4.0, 8.0), _obs(0.0, 1.0, 1.0), _obs(-h - eps, 16.0, 32.0)],
                   [_obs(h - eps, 0.25, 0.5), _obs(-h + eps, 0.75, 1.5), _obs(3 * w, 64.0, 64.0)]]
            out.append({"kind": "mid", "width": w, "quantity": q, "events": evs})
            out.append({"kind": "mid", "width": w, "quantity": q, "events": [evs[0]]})
            out.append({"kind": "mid", "width": w, "quantity": q, "events": [[], evs[1], [], evs[2], []]})
            out.append({"kind": "mid", "width": w, "quantity": q, "events": [evs[2], evs[0]]})
    # ---- which quantity is looked up: real particles whose rapidity, pseudorapidity and space-time rapidity differ
    real = [{"px": 1.0, "py": 0.0, "pz": 1.0, "E": 3.0, "t": 2.0, "z": 1.0},      # y .35, eta .88, eta_s .55
            {"px": 0.5, "py": 0.0, "pz": -2.0, "E": 2.5, "t": 4.0, "z": -1.0},    # y -1.1, eta -2.1, eta_s -.26
            {"px": 2.0, "py": 0.0, "pz": 0.0, "E": 2.5, "t": 8.0, "z": 0.5}]
    for w in (1.0, 2.0, 3.0, 0.5):
        for q in ("rapidity", "pseudorapidity", "spacetime_rapidity"):
            out.append({"kind": "mid", "width": w, "quantity": q, "events": [real, [real[2]], [real[0], real[2]]]})
    # ---- default arguments
    out.append({"kind": "mid", "width": 1.0, "quantity": "rapidity", "defaults": True,
                "events": [[_obs(0.5), _obs(-0.5, 2.0, 2.5), _obs(0.75)], [_obs(0.0, 3.0, 3.5), _obs(-1.0)]]})
    out.append({"kind": "mid", "width": 1.0, "quantity": "rapidity", "defaults": True, "events": [real, [real[2]]]})
    # ---- the spectra: which method is binned (real particles: y != eta, pT != mT), default / tuple / unequal-width
    #      binnings, values on every edge, one / several events, empty events first / middle / last
    for m in ("dNdy", "dNdpT", "dNdEta", "dNdmT"):
        flav = {"dNdpT": "pt", "dNdmT": "mt"}.get(m, "y")
        out.append({"kind": "yield", "method": m, "bins": None, "events": [real, [real[2]], real[:2]]})
        out.append({"kind": "yield", "method": m, "bins": None, "events": [real]})
        for edges in ([0.0, 1.0, 3.0], [0.0, 0.5, 1.0, 3.0, 4.0], [-2.0, -1.0, 0.0, 2.0]):
            if flav != "y" and edges[0] < 0:
                continue
            vals = edges + [(a + b) / 2 for a, b in zip(edges, edges[1:])] + [edges[0] - 1.0, edges[-1] + 1.0]
            ps = [{"obs": {"y": v, "pt": abs(v) if flav == "pt" else 1.0, "mt": abs(v) if flav == "mt" else 1.5}} for v in vals
                  if flav == "y" or v >= 0]
            b = {"kind": "list", "edges": edges}
            for evs in ([ps], [ps, ps[:3]], [[], ps, ps[1:4]], [ps[:2], [], ps], [ps, ps[2:], []], [ps[:1], ps[1:2], ps[2:3], ps[3:]]):
                out.append({"kind": "yield", "method": m, "bins": b, "events": evs})
        lo = 0.0 if flav != "y" else -2.0
        ps = [{"obs": {"y": v, "pt": abs(v), "mt": abs(v)}} for v in (lo, lo + 0.5, lo + 1.0, lo + 1.75, lo + 3.0, lo + 4.0)]
        for n in (2, 4, 8):
            out.append({"kind": "yield", "method": m, "bins": {"kind": "tuple", "lo": lo, "hi": lo + 4.0, "n": n}, "events": [ps, ps[:2], []]})
        # ---- the object was used before and the caller kept the result; one particle object in several events
        tb = {"kind": "tuple", "lo": lo, "hi": lo + 4.0, "n": 4}
        for pre in ([{"m": m, "bins": tb}], [{"m": m, "bins": {"kind": "list", "edges": [lo, lo + 1.0, lo + 4.0]}}], [{"m": "dNdy"}, {"m": "dNdmT"}],
                    [{"m": "mid_rapidity_yield", "width": 1.0, "quantity": "rapidity"}, {"m": m}]):
            out.append({"kind": "yield", "method": m, "bins": tb, "events": [ps, ps[:2], []], "prelude": pre})
        out.append({"kind": "yield", "method": m, "bins": tb, "events": [ps, ps[:2] + ps[:1], [ps[1]]], "alias_particles": True})
    for q in ("rapidity", "pseudorapidity", "spacetime_rapidity"):
        a, b2, c = _obs(0.25, 1.0, 2.0), _obs(-0.5, 0.5, 1.0), _obs(2.0, 4.0, 8.0)
        out.append({"kind": "mid", "width": 1.0, "quantity": q, "events": [[a, b2, a], [a, c], [b2]], "alias_particles": True})
    return out


def search(ctx):
    found, n, seen = [], 0, set()

    def attempt(c):
        msg = oracle(c)
        if msg and classify(msg) not in seen:
            key = classify(msg)
            seen.add(key)
            small = shrink(c, lambda x: (oracle(x) is not None) and classify(oracle(x)) == key)
            found.append(Failure(small, "property oracle fails on the implementation", key=key, on_impl=oracle(small)))
    for c in probe_cases():
        n += 1
        try:
            attempt(c)
        except Exception:
            pass
        if len(found) >= 4:
            return found, n
    for _ in range(300 if ctx.quick else 3000):
        c = gen_case(ctx.rng)
        n += 1
        attempt(c)
        if len(found) >= 4:
            break
    return found, n


LEVEL_TEXT = ("Theorems (Coq, all event samples / binnings / widths): with sorted edges of non-zero widths and >= 1 event (empty events "
              "anywhere), the histogram returned by the differential yield holds, in bin i, (number of particles of all events with "
              "e_i <= q < e_i+1) / (N_ev * width_i), it is one well-shaped histogram (so write_to_file is total on it, C10), and the bin "
              "counts sum to the number of in-range particles; mid_rapidity_yield = (particles with -w/2 <= q <= w/2, NaN outside) / N_ev; "
              "the mid-rapidity mean is the average, over the events whose window is non-empty, of the per-event mean over the particles "
              "in the window - (1/N_ev) sum of per-event means when every window is non-empty. "
              "Tie to the source (C14_source_*, 13 theorems): the bodies of _differential_yield, dNdy, dNdpT, dNdEta, dNdmT, "
              "mid_rapidity_yield, mid_rapidity_mean_pT and mid_rapidity_mean_mT are regenerated from BulkObservables.py on every run "
              "(statement by statement: argument checks and exception classes, tuple/list handling, Histogram(bin_properties), "
              "1/bin_width, the event and particle loops with their loop-carried variables, the not-after-the-last-event "
              "add_histogram, average, scale; the window comparison with its operators, the callable test on the first particle of "
              "the first non-empty event, the counters, the per-event means and which events enter, the final divisions; which "
              "Particle method each spectrum bins and its default binning; the default y_width / quantity; the read-only wrapper) "
              "and the hand model is proved EQUAL to them for all arguments, so the property theorems are about what the source "
              "says now. The hand model is also run against the real code on every run.")
LEVEL_NOTE = ("Trusted: Coq kernel/vm_compute; the translator gen_bulk.py and the runtime Model/BulkRt.v (meaning of the accepted Python "
              "constructs); hand model Model/Histogram.v of the Histogram class validated by correspondence only (the BulkObservables "
              "layer Model/Bulk.v is proved equal to the regenerated source AND corresponded); particles as observation records of one "
              "class; exact rationals instead of IEEE rounding; inputs-unmodified by snapshots plus the validated read-only wrapper; the "
              "warning-only blocks of dNdpT/dNdmT are validated effect-free and not translated.")
TECHNIQUE = ("Coq proof by induction over events and particles on top of the C09 counting theorem and the C10 averaging theorem; "
             "fail-closed typed AST translation of the method bodies to Gallina + equality proofs model = regenerated source "
             "(loop simulation lemmas: fold_leftM vs fold_left, range(len) indexing vs structural recursion, for-break vs first "
             "non-empty event); vm_compute correspondence; targeted failing-input probes for the extracted constants/branches")

"""C08 - Particle kinematics satisfy their definitions; missing data gives NaN (Particle.py)."""
import itertools, json, math, os, re, warnings
from fractions import Fraction
import numpy as np
import common as C
from common import Failure

ID = "C08"
GEN = ["gen_kinematics"]
ALLOWED_AXIOMS = C.STD_REAL_AXIOMS + ["Classical_Prop.classic"]
TRUSTED = [
    "Coq 8.16.1 kernel; stdlib Reals axioms exactly as Print Assumptions reports them: "
    "ClassicalDedekindReals.sig_forall_dec, ClassicalDedekindReals.sig_not_dec, "
    "FunctionalExtensionality.functional_extensionality_dep, Classical_Prop.classic (enters through the "
    "stdlib's ln / atan / acos / cos developments)",
    "translator tools/py2coq/gen_kinematics.py (guardexpr extractor): Python ast of the 11 kinematic methods -> "
    "Gen/GenKinematics.v; float literals are read as the decimals written in the source",
    "Lib/ExtReal.v: numpy/IEEE conventions of + - * / ** sqrt log arccos atan2 abs and comparisons on "
    "Fin r | PInf | NInf | NaN | Raise cls, over the reals (no signed zero, no rounding, no overflow)",
    "correspondence only (not the theorems): coq-interval (`interval`), whose proofs additionally rest on the "
    "stdlib primitive-integer / primitive-float specification axioms",
    "float rounding is not modelled: theorems are exact statements over R; the implementation's doubles are "
    "compared with the real-valued model inside explicit tolerances on every run",
]
ASSUMPTIONS = [
    "a particle is the tuple of values its getters return; pdg is integral or unset",
    "domain of the definitional theorems: finite inputs, ||E|-|pz|| > 1e-9, p-|pz| > 1e-9, pT > 1e-6, |z| < t "
    "(the code's own thresholds 1e-10 / 1e-6 are part of the regenerated model, not of the statements)",
    "C08_unphysical is stated with |pz| > |E| (the code works with |E| throughout): for E >= 0 this is the "
    "property's |pz| > E; for E < 0 with |pz| <= |E| the methods return the values of the reflected energy",
    "mass_from_energy_momentum: pdg is an optional switch (massless species list), not a required input: "
    "C08_nan_total excludes exactly that attribute for exactly that method (classifiers), an unset pdg gives "
    "the plain E^2-p^2 relation (C08_mass)",
    "angular_momentum returns the scalar np.nan when an input is unset and a 3-vector otherwise; the model has "
    "one definition per component",
]
MODEL_INDEPENDENT_OF_PROOFS = True   # the correspondence needs Gen/GenKinematics.v and Lib only

KIN = ["t", "x", "y", "z", "E", "px", "py", "pz"]
REQUIRED = {  # the property's statement, independent of the translator
    "angular_momentum": ["x", "y", "z", "px", "py", "pz"], "rapidity": ["E", "pz"], "p_abs": ["px", "py", "pz"],
    "pT_abs": ["px", "py"], "phi": ["px", "py"], "theta": ["px", "py", "pz"], "pseudorapidity": ["px", "py", "pz"],
    "spacetime_rapidity": ["t", "z"], "proper_time": ["t", "z"],
    "mass_from_energy_momentum": ["E", "px", "py", "pz"], "mT": ["E", "pz"]}
METHODS = list(REQUIRED)
MASSLESS = [22, 21, 12, -12, 14, -14, 16, -16, 18, -18]
EPS9 = Fraction(1, 10**9)


# --------------------------------------------------------------------------- real code
def build(values, path="setters"):
    """a real Particle from {attr: float | None}; path = setters | oscar | ascii"""
    from sparkx.Particle import Particle
    with warnings.catch_warnings():
        warnings.simplefilter("ignore")
        if path == "setters":
            p = Particle()
            for a, v in values.items():
                if v is not None:
                    setattr(p, a, int(v) if a == "pdg" else float(v))
            return p
        if path == "oscar":     # Oscar2013 line with nan in the unset float columns (pdg must be given)
            g = lambda a: float("nan") if values.get(a) is None else float(values[a])
            arr = np.array([g("t"), g("x"), g("y"), g("z"), 0.138, g("E"), g("px"), g("py"), g("pz"),
                            float(values["pdg"]), 7.0, 1.0])
            return Particle("Oscar2013", arr)
        if path == "ascii":     # only the given columns exist in the file
            names = [a for a in values if values[a] is not None]
            arr = np.array([float(values[a]) for a in names])
            return Particle("ASCII", arr, attribute_list=names)
    raise ValueError(path)


def path_ok(values, path):
    if path == "oscar":
        return values.get("pdg") is not None
    if path == "ascii":   # the ASCII table of Particle.py has no working `pz` column (C01's finding), needs >= 1 column
        return values.get("pz") is None and any(v is not None for v in values.values())
    return True


def classify(v):
    v = float(v)
    if math.isnan(v):
        return ["nan"]
    if math.isinf(v):
        return ["pinf"] if v > 0 else ["ninf"]
    return ["fin", v]


def call(p, m):
    with warnings.catch_warnings(), np.errstate(all="ignore"):
        warnings.simplefilter("ignore")
        try:
            r = getattr(p, m)()
            if isinstance(r, np.ndarray) and r.flags.writeable:
                # the caller owns a returned array: it is overwritten in place (normalising, zeroing ...) and the particle is
                # asked again - the answer is still the one its attributes define
                r[...] = 12345.0
                r = getattr(p, m)()
        except Exception as e:
            return ["raise", type(e).__name__]
    if isinstance(r, np.ndarray):
        return ["vec", [classify(x) for x in r.tolist()]]
    return classify(r)


def run_impl(case):
    p = build(case["values"], case.get("path", "setters"))
    return {m: call(p, m) for m in case.get("methods", METHODS)}


# --------------------------------------------------------------------------- property oracle
def _fr(v):
    return Fraction(v)


def _cond(m, V):
    """amplification of an input/rounding perturbation by the subtraction the formula contains"""
    f = lambda a: abs(_fr(V[a]))
    if any(V.get(a) is None or not math.isfinite(V[a]) for a in REQUIRED[m]):
        return 1.0
    try:
        if m == "rapidity":
            return float(max(f("E"), f("pz")) / min(abs(_fr(V["E"]) - _fr(V["pz"])), abs(_fr(V["E"]) + _fr(V["pz"]))))
        if m == "spacetime_rapidity":
            return float(f("t") / (f("t") - f("z")))
        if m in ("pseudorapidity", "theta"):
            s2 = _fr(V["px"]) ** 2 + _fr(V["py"]) ** 2
            s3 = s2 + _fr(V["pz"]) ** 2
            return float(s3 / s2) if m == "pseudorapidity" else math.sqrt(float(s3 / s2))
        if m == "mT":
            return float(_fr(V["E"]) ** 2 / abs(_fr(V["E"]) ** 2 - _fr(V["pz"]) ** 2))
        if m == "proper_time":
            return float(_fr(V["t"]) ** 2 / abs(_fr(V["t"]) ** 2 - _fr(V["z"]) ** 2))
        if m == "mass_from_energy_momentum":
            s3 = _fr(V["px"]) ** 2 + _fr(V["py"]) ** 2 + _fr(V["pz"]) ** 2
            return float(max(_fr(V["E"]) ** 2, s3) / abs(_fr(V["E"]) ** 2 - s3))
    except ZeroDivisionError:
        return float("inf")
    return 1.0


def tolerance(m, V, val, comp=None):
    """1e-9 * scale as an exact rational; scale = magnitude of the value (relative for lengths, max(1,|v|) for
    logarithms / angles) times max(1, 1e-6 * cond): ~10 ulp amplified by the cancellation of the formula itself"""
    c = _cond(m, V)
    amp = Fraction(max(1.0, 1e-6 * c)) if math.isfinite(c) else Fraction(10**6)
    if m == "angular_momentum":
        a, b = [("y", "pz", "z", "py"), ("z", "px", "x", "pz"), ("x", "py", "y", "px")][comp][:2], \
               [("y", "pz", "z", "py"), ("z", "px", "x", "pz"), ("x", "py", "y", "px")][comp][2:]
        mag = abs(_fr(V[a[0]]) * _fr(V[a[1]])) + abs(_fr(V[b[0]]) * _fr(V[b[1]]))
        return EPS9 * max(mag, Fraction(1, 10**30))
    if m in ("p_abs", "pT_abs", "mT", "proper_time", "mass_from_energy_momentum"):
        mag = abs(Fraction(val)) if val else Fraction(0)
        if mag == 0:   # value 0: absolute, on the scale of the inputs
            mag = max([abs(_fr(V[a])) for a in REQUIRED[m] if math.isfinite(V[a])] + [Fraction(1, 10**30)])
        return EPS9 * mag * amp
    return EPS9 * max(Fraction(1), abs(Fraction(val))) * amp


def _ref_half_log(a, b):
    """0.5 ln((a+b)/(a-b)) with the ratio formed exactly"""
    r = (a + b) / (a - b)
    return 0.5 * (math.log(r.numerator) - math.log(r.denominator))


def _is_fin(r):
    return r[0] == "fin"


def oracle_method(m, V, r, impl_of):
    """property of one method on one particle (V: attr -> float|None, r: classified result)"""
    req = REQUIRED[m]
    if any(V.get(a) is None for a in req):
        if r != ["nan"]:
            return f"{m}(): required input {[a for a in req if V.get(a) is None]} unset but the result is {r}, not NaN"
        return None
    if any(not math.isfinite(V[a]) for a in req):
        return None
    f = {a: _fr(V[a]) for a in req}
    tol = lambda val, comp=None: tolerance(m, V, val, comp)
    if m == "angular_momentum":
        exact = [f["y"] * f["pz"] - f["z"] * f["py"], f["z"] * f["px"] - f["x"] * f["pz"], f["x"] * f["py"] - f["y"] * f["px"]]
        if r[0] != "vec":
            return f"angular_momentum(): all inputs set but the result is {r}"
        for i in range(3):
            if not (_is_fin(r[1][i]) and abs(Fraction(r[1][i][1]) - exact[i]) <= tol(None, i)):
                return f"angular_momentum()[{i}] = {r[1][i]} but (r x p)[{i}] = {float(exact[i])!r}"
        return None
    if m in ("pT_abs", "p_abs"):
        s = sum(f[a] ** 2 for a in req)
        if not (_is_fin(r) and r[1] >= 0 and abs(Fraction(r[1]) ** 2 - s) <= 3 * EPS9 * s):
            return f"{m}() = {r} but the squared sum of the components is {float(s)!r}"
        if m == "p_abs":
            pt = impl_of("pT_abs")
            if not (_is_fin(pt) and abs(Fraction(r[1]) ** 2 - (Fraction(pt[1]) ** 2 + f["pz"] ** 2)) <= 3 * EPS9 * s):
                return f"p_abs()^2 = {r[1]**2!r} differs from pT_abs()^2 + pz^2 with pT_abs() = {pt}"
        return None
    if m == "phi":
        s2 = f["px"] ** 2 + f["py"] ** 2
        if s2 <= Fraction(1, 10**12):
            return None
        pt = math.sqrt(float(s2))
        if not (_is_fin(r) and -math.pi < r[1] <= math.pi and abs(math.cos(r[1]) - V["px"] / pt) <= 1e-9
                and abs(math.sin(r[1]) - V["py"] / pt) <= 1e-9):
            return (f"phi() = {r} for px={V['px']!r}, py={V['py']!r} (pT = {pt!r} > 1e-6): "
                    f"not the angle atan2(py,px) = {math.atan2(V['py'], V['px'])!r} in (-pi,pi]")
        return None
    if m in ("theta", "pseudorapidity"):
        s2 = f["px"] ** 2 + f["py"] ** 2
        s3 = s2 + f["pz"] ** 2
        if s3 == 0:
            return None
        p = math.sqrt(float(s3))
        if m == "theta":
            t9 = float(tol(0.0))
            if not (_is_fin(r) and 0 <= r[1] <= math.pi and abs(math.cos(r[1]) - V["pz"] / p) <= t9):
                return f"theta() = {r} but pz/p = {V['pz'] / p!r}"
            return None
        if s2 <= Fraction(1, 10**12) or p - abs(V["pz"]) <= 1.0000001e-9:
            return None
        ref = math.copysign(math.log((p + abs(V["pz"])) / math.sqrt(float(s2))), V["pz"])
        if not (_is_fin(r) and abs(r[1] - ref) <= float(tol(ref))):
            return f"pseudorapidity() = {r} but artanh(pz/p) = {ref!r}"
        th = impl_of("theta")
        if _cond("theta", V) <= 1e3:
            if not (_is_fin(th) and 0 < th[1] < math.pi and abs(r[1] + math.log(math.tan(th[1] / 2))) <= 1e-9 * max(1, abs(ref))):
                return f"pseudorapidity() = {r[1]!r} differs from -ln tan(theta()/2) with theta() = {th}"
        return None
    if m in ("rapidity", "spacetime_rapidity"):
        a, b = (f["E"], f["pz"]) if m == "rapidity" else (f["t"], f["z"])
        if m == "rapidity":
            if abs(abs(a) - abs(b)) <= Fraction(10000001, 10**16):
                return None       # regulated band: outside the property's domain
            if abs(b) > abs(a):
                return None if not _is_fin(r) else f"rapidity() = {r} for |pz| > |E| (E={V['E']!r}, pz={V['pz']!r}): finite"
        else:
            if a <= abs(b):
                if _is_fin(r) or (r[0] == "raise" and r[1] != "ValueError"):
                    return f"spacetime_rapidity() = {r} for |z| >= t (t={V['t']!r}, z={V['z']!r})"
                return None
        ref = _ref_half_log(a, b)
        if not (_is_fin(r) and abs(r[1] - ref) <= float(tol(ref))):
            return f"{m}() = {r} but artanh of the ratio = {ref!r}"
        return None
    if m in ("mT", "proper_time", "mass_from_energy_momentum"):
        if m == "mT":
            a2, b2, phys = f["E"] ** 2, f["pz"] ** 2, abs(f["pz"]) <= abs(f["E"])
        elif m == "proper_time":
            a2, b2, phys = f["t"] ** 2, f["z"] ** 2, abs(f["z"]) < f["t"]
        else:
            a2, b2 = f["E"] ** 2, f["px"] ** 2 + f["py"] ** 2 + f["pz"] ** 2
            phys = b2 <= a2
            if V.get("pdg") is not None and int(V["pdg"]) in MASSLESS:
                return None if r == ["fin", 0.0] else f"mass_from_energy_momentum() = {r} for the massless species {V['pdg']}"
        if abs(a2 - b2) <= Fraction(1, 10**14) * max(a2, b2):
            return None           # on the light cone within rounding: either branch is legitimate in floats
        if not phys:
            if _is_fin(r) or (r[0] == "raise" and r[1] != "ValueError"):
                return f"{m}() = {r} for unphysical input {({a: V[a] for a in req})}"
            return None
        if not (_is_fin(r) and r[1] >= 0 and abs(Fraction(r[1]) ** 2 - (a2 - b2)) <= 3 * EPS9 * (a2 - b2) + Fraction(1, 10**15) * a2):
            return f"{m}()^2 = {r} squared, but the difference of squares is {float(a2 - b2)!r}"
        return None
    raise KeyError(m)


def _transform(V, kind):
    W = dict(V)
    if kind == "flipz":
        W["pz"] = -V["pz"]
    elif kind == "rot90":
        W["px"], W["py"] = -V["py"], V["px"]
        if V.get("x") is not None and V.get("y") is not None:
            W["x"], W["y"] = -V["y"], V["x"]
    elif kind == "rot345":
        c, s = 0.6, 0.8
        W["px"], W["py"] = c * V["px"] - s * V["py"], s * V["px"] + c * V["py"]
        if V.get("x") is not None and V.get("y") is not None:
            W["x"], W["y"] = c * V["x"] - s * V["y"], s * V["x"] + c * V["y"]
    return W


def oracle(case):
    """the property on the real code: definitions within 1e-9*scale, NaN on every unset required input,
    oddness in pz, invariance under azimuthal rotations (fractions + math, no model involved)"""
    V = case["values"]
    methods = case.get("methods", METHODS)
    paths = [case["path"]] if "path" in case else ["setters"]
    for path in paths:
        p = build(V, path)
        got = {}
        impl_of = lambda m: got.setdefault(m, call(p, m))
        for m in methods:
            msg = oracle_method(m, V, impl_of(m), impl_of)
            if msg:
                return msg + (f" [object built through {path}]" if path != "setters" else "")
    # a returned value belongs to the caller: it must still be what was returned after the same and other particles were asked
    # again (results kept in a list, compared between particles)
    for path in paths:
        p = build(V, path)
        held, snap = {}, {}
        with warnings.catch_warnings(), np.errstate(all="ignore"):
            warnings.simplefilter("ignore")
            for m in methods:
                try:
                    held[m] = getattr(p, m)()
                    snap[m] = np.array(held[m], dtype=float, copy=True)
                except Exception:
                    pass
            other = dict(V)
            for a in ("x", "y", "z", "px", "py", "pz", "t", "E"):
                if other.get(a) is not None and math.isfinite(other[a]):
                    other[a] = other[a] * 2.0 + 1.0
            q2 = build(other, path)
            for m in methods:
                for obj in (p, q2):
                    try:
                        getattr(obj, m)()
                    except Exception:
                        pass
        for m in held:
            now = np.array(held[m], dtype=float)
            if now.shape != snap[m].shape or not np.array_equal(now, snap[m], equal_nan=True):
                return (f"{m}(): the value returned for this particle was {snap[m].tolist()} and reads {now.tolist()} after the "
                        f"accessors of this particle again and of another particle were called - a returned result is not the caller's own")
    # one object, re-used: after the accessors were evaluated, the attributes are changed through the setters; the answers must be
    # those of the NEW attributes (nothing computed earlier may be remembered)
    if all(V.get(a) is not None and math.isfinite(V[a]) for a in KIN if a in V) and case.get("kind") != "unset":
        FACT = (("px", 2.0), ("py", -0.5), ("pz", 3.0), ("E", 4.0), ("t", 2.0), ("z", 0.5), ("x", -2.0), ("y", 0.25))
        # all attributes at once, then every attribute ALONE (a setter that forgets what another setter would have cleared)
        for changed in [tuple(a for a, _ in FACT)] + [(a,) for a, _ in FACT]:
            try:
                with warnings.catch_warnings(), np.errstate(all="ignore"):
                    warnings.simplefilter("ignore")
                    p = build(V, "setters")
                    for m in methods:
                        call(p, m)
                    V2 = dict(V)
                    for a, f in FACT:
                        if a in changed and V2.get(a) is not None:
                            V2[a] = V2[a] * f
                    for a in changed:
                        if V2.get(a) is not None:
                            setattr(p, a, V2[a])
                    fresh = build(V2, "setters")
                    for m in methods:
                        a1, b1 = call(p, m), call(fresh, m)
                        if json.dumps(a1) != json.dumps(b1) and not (a1[0] == "nan" and b1[0] == "nan"):
                            return (f"{m}() after the attributes {list(changed)} of ONE particle object were changed through the setters to {V2} returns {a1}; a particle "
                                    f"built with these attributes returns {b1}")
            except Exception:
                pass
    # copies: a particle obtained by copy.deepcopy / copy.copy / a pickle round trip has the same attributes and must give the same
    # answers - also when other particles (with other momenta) lived and died before at the addresses the copies land on
    import copy as _copy, gc as _gc, pickle as _pickle
    for path in paths:
        p = build(V, path)
        ref = {m: call(p, m) for m in methods}
        with warnings.catch_warnings(), np.errstate(all="ignore"):
            warnings.simplefilter("ignore")
            junk = []
            for i in range(40):
                other = dict(V)
                for a in ("px", "py", "pz", "E", "t", "z", "x", "y"):
                    if other.get(a) is not None and math.isfinite(other[a]):
                        other[a] = other[a] * (1.5 + i) + 0.25 * (i + 1)
                try:
                    o = build(other, path)
                    for m in methods:
                        call(o, m)
                    junk.append(o)
                except Exception:
                    pass
            del junk
            try:
                del o
            except NameError:
                pass
            _gc.collect()
            copies = []
            for i in range(60):
                c = _copy.deepcopy(p) if i % 3 == 0 else _copy.copy(p) if i % 3 == 1 else _pickle.loads(_pickle.dumps(p))
                copies.append(c)
        for c in copies:
            for m in methods:
                got_c = call(c, m)
                if json.dumps(got_c) != json.dumps(ref[m]) and not (got_c[0] == "nan" and ref[m][0] == "nan"):
                    return (f"{m}() of a copy (copy / deepcopy / pickle) of the particle returns {got_c}, the particle itself returns {ref[m]}: "
                            f"the answer depends on something other than the particle's own attributes")
    if case.get("kind") == "unset":
        return None
    # symmetries (inputs of the transformed particle must stay inside the domain: same magnitudes)
    if all(V.get(a) is not None and math.isfinite(V[a]) for a in ("px", "py", "pz")):
        base = build(V)
        for kind in ("flipz", "rot90", "rot345"):
            q = build(_transform(V, kind))
            for m in methods:
                if m in ("phi", "angular_momentum") or any(V.get(a) is None for a in REQUIRED[m]):
                    continue
                a, b = call(base, m), call(q, m)
                if kind == "flipz" and m not in ("rapidity", "pseudorapidity"):
                    continue
                if not (_is_fin(a) and _is_fin(b)):
                    if a[0] != b[0] and not (kind == "flipz" and {a[0], b[0]} <= {"pinf", "ninf"}):
                        # a sign flip may move the input into / out of the one-sided regulated band
                        if kind == "flipz" or _cond(m, V) > 1e6:
                            continue
                        return f"{m}(): {a} before and {b} after the transformation {kind}"
                    continue
                if kind == "flipz":
                    if oracle_method(m, V, a, lambda mm: call(base, mm)) is None and _cond(m, V) < 1e15:
                        in_dom = (abs(abs(_fr(V["E"])) - abs(_fr(V["pz"]))) > EPS9 and abs(V["pz"]) < abs(V["E"])) if m == "rapidity" \
                            else (math.sqrt(V["px"] ** 2 + V["py"] ** 2 + V["pz"] ** 2) - abs(V["pz"]) > 1.0000001e-9
                                  and V["px"] ** 2 + V["py"] ** 2 > 1e-12)
                        if in_dom and abs(a[1] + b[1]) > 2 * float(tolerance(m, V, a[1])):
                            return f"{m}() is not odd in pz: {a[1]!r} at pz={V['pz']!r}, {b[1]!r} at pz={-V['pz']!r}"
                else:
                    t = 4 * float(tolerance(m, V, a[1])) if kind == "rot345" else 0.0
                    if abs(a[1] - b[1]) > t:
                        return f"{m}() changes under the azimuthal rotation {kind}: {a[1]!r} -> {b[1]!r}"
    return None


# --------------------------------------------------------------------------- generators
BASE = {"t": 5.0, "x": 1.0, "y": 2.0, "z": 3.0, "E": 6.0, "px": 1.0, "py": 2.0, "pz": 3.0, "pdg": 211}


def analysis():
    from py2coq import gen_kinematics
    return gen_kinematics.analyse()


def unset_cases(an):
    """complete enumeration: every method x every subset of the attributes it reads (transitively) left unset,
    x {all other attributes set, all other attributes unset}"""
    out = []
    for m in METHODS:
        reads = an[m]["reads"]
        for k in range(len(reads) + 1):
            for S in itertools.combinations(reads, k):
                for others in ("set", "unset"):
                    vals = {}
                    for a in KIN + ["pdg"]:
                        if a in S:
                            vals[a] = None
                        elif a in reads or others == "set":
                            vals[a] = BASE[a]
                        else:
                            vals[a] = None
                    out.append({"kind": "unset", "methods": [m], "unset": list(S), "others": others, "values": vals})
    return out


def required_unset_cases():
    """every method x every subset of the inputs the PROPERTY says it needs (REQUIRED) unset x {others set, others unset}"""
    out = []
    for m in METHODS:
        for k in range(len(REQUIRED[m]) + 1):
            for S in itertools.combinations(REQUIRED[m], k):
                for others in ("set", "unset"):
                    vals = {a: (None if a in S or (others == "unset" and a not in REQUIRED[m]) else BASE[a]) for a in KIN + ["pdg"]}
                    out.append({"kind": "unset", "methods": [m], "unset": list(S), "others": others, "values": vals})
                    if m == "mass_from_energy_momentum" and others == "set":
                        # the species switch (massless by convention) must not get ahead of the missing-input guard
                        for pdg in (22, 21, -12):
                            out.append({"kind": "unset", "methods": [m], "unset": list(S), "others": others, "values": dict(vals, pdg=pdg)})
    return out


def _mag(rng, lo, hi):
    return rng.choice([-1.0, 1.0]) * 10.0 ** rng.uniform(lo, hi)


def _energy(m, px, py, pz):
    return math.sqrt(m * m + px * px + py * py + pz * pz)


def gen_sample(rng, stream=None):
    if stream is None:
        stream = rng.choices(["generic", "ultra", "soft", "near", "unphysical", "regulated", "infinite"],
                             [34, 14, 10, 20, 10, 10, 2])[0]
    V = {}
    masses = [0.000511, 0.13957, 0.49368, 0.93827, 1.8756, 3.0969]
    V["x"], V["y"] = _mag(rng, -2, 2), _mag(rng, -2, 2)
    V["t"] = 10.0 ** rng.uniform(-1, 2.5)
    V["z"] = V["t"] * rng.uniform(-0.99, 0.99)
    V["pdg"] = rng.choice([211, -211, 2212, 321, 111, None, 3122])
    if stream == "generic":
        V["px"], V["py"], V["pz"] = _mag(rng, -2, 2), _mag(rng, -2, 2), _mag(rng, -2, 2)
        V["E"] = _energy(rng.choice(masses), V["px"], V["py"], V["pz"])
        if rng.random() < 0.15:
            V["pdg"] = rng.choice(MASSLESS)
    elif stream == "ultra":
        p = 10.0 ** rng.uniform(1, 3.7)
        eta, ph = rng.uniform(-6.5, 6.5), rng.uniform(-math.pi, math.pi)
        V["px"], V["py"], V["pz"] = p / math.cosh(eta) * math.cos(ph), p / math.cosh(eta) * math.sin(ph), p * math.tanh(eta)
        V["E"] = _energy(rng.choice(masses[1:]), V["px"], V["py"], V["pz"])
        V["t"] = 10.0 ** rng.uniform(1, 4)
        V["z"] = V["t"] * math.tanh(rng.uniform(-6, 6))
    elif stream == "soft":
        V["px"], V["py"], V["pz"] = _mag(rng, -5, -2.5), _mag(rng, -5, -2.5), _mag(rng, -5, -2.5)
        V["E"] = _energy(rng.choice(masses), V["px"], V["py"], V["pz"])
        V["t"], V["z"] = 10.0 ** rng.uniform(-4, -1), 0.0
        V["z"] = V["t"] * rng.uniform(-0.9, 0.9)
    elif stream == "near":
        sub = rng.choice(["y", "eta", "phi", "etas"])
        V["px"], V["py"], V["pz"] = _mag(rng, -2, 1), _mag(rng, -2, 1), _mag(rng, -2, 1)
        V["E"] = _energy(rng.choice(masses), V["px"], V["py"], V["pz"])
        if sub == "y":          # E - |pz| slightly above the regulated band
            E = 10.0 ** rng.uniform(-4, -1)
            d = 10.0 ** rng.uniform(math.log10(2.5e-9), -7)
            V["E"], V["pz"] = E, rng.choice([-1, 1]) * (E - d)
            pt = math.sqrt(2 * E * d) * rng.choice([0.3, 0.5, 2.0, 5.0])   # off the light cone E^2 = p^2
            ph = rng.uniform(-math.pi, math.pi)
            V["px"], V["py"] = pt * math.cos(ph), pt * math.sin(ph)
        elif sub == "eta":      # p - |pz| slightly above the regulated band, pT > 1e-6
            p = 10.0 ** rng.uniform(-4, -1)
            d = 10.0 ** rng.uniform(math.log10(2.5e-9), -7)
            pt = math.sqrt(d * (2 * p - d))
            if pt < 1.5e-6:
                pt = 1.5e-6 * rng.uniform(1, 3)
                p = max(p, (pt * pt / 2.6e-9))
            ph = rng.uniform(-math.pi, math.pi)
            V["px"], V["py"] = pt * math.cos(ph), pt * math.sin(ph)
            V["pz"] = rng.choice([-1, 1]) * math.sqrt(max(p * p - pt * pt, 0.0))
            V["E"] = _energy(rng.choice(masses), V["px"], V["py"], V["pz"])
        elif sub == "phi":      # pT slightly above 1e-6 (includes |px|,|py| < 1e-6 < pT)
            pt = 1e-6 * rng.uniform(1.001, 3.0)
            ph = rng.uniform(-math.pi, math.pi)
            V["px"], V["py"] = pt * math.cos(ph), pt * math.sin(ph)
            V["E"] = _energy(rng.choice(masses), V["px"], V["py"], V["pz"])
        else:                   # t - |z| small
            V["t"] = 10.0 ** rng.uniform(-1, 2)
            V["z"] = rng.choice([-1, 1]) * V["t"] * (1 - 10.0 ** rng.uniform(-9, -3))
    elif stream == "unphysical":
        sub = rng.choice(["pz>E", "E<p", "z>=t", "negE"])
        V["px"], V["py"], V["pz"] = _mag(rng, -2, 2), _mag(rng, -2, 2), _mag(rng, -2, 2)
        V["E"] = _energy(rng.choice(masses), V["px"], V["py"], V["pz"])
        if sub == "pz>E":
            V["E"] = abs(V["pz"]) * rng.choice([0.0, 0.5, 0.99, 1 - 1e-6]) - rng.choice([0, 3e-9])
            V["E"] = max(V["E"], 0.0)
            if abs(V["pz"]) - V["E"] < 3e-9:
                V["E"] = abs(V["pz"]) / 2
        elif sub == "E<p":
            V["E"] = math.sqrt(V["px"] ** 2 + V["py"] ** 2 + V["pz"] ** 2) * rng.choice([0.5, 0.9, 0.999])
        elif sub == "z>=t":
            V["t"] = rng.choice([0.0, 1.0, 2.5, -3.0, 10.0 ** rng.uniform(-2, 2)])
            V["z"] = rng.choice([V["t"], -V["t"], V["t"] * 1.5 + 0.25, -(abs(V["t"]) * 3 + 1)])
            if rng.random() < 0.35:
                # negative time with |z| < |t| (inside the backward light cone): still |z| >= t, t^2 - z^2 > 0
                V["t"] = -abs(V["t"]) - rng.choice([0.5, 3.0, 40.0])
                V["z"] = V["t"] * rng.choice([0.0, 0.5, -0.25, 0.9, -0.6])
        else:
            V["E"] = -V["E"]
    elif stream == "regulated":   # outside the property's domain: the regulation branches of the model
        sub = rng.choice(["E=pz", "E=-pz", "beam+", "beam-", "rest", "tinypT", "E~pz"])
        pz = rng.choice([0.5, 1.0, 3.25, 100.0, 10.0 ** rng.uniform(-1, 2)])
        V["px"], V["py"], V["pz"] = _mag(rng, -2, 1), _mag(rng, -2, 1), pz
        V["E"] = _energy(0.13957, V["px"], V["py"], V["pz"])
        if sub == "E=pz":
            V["E"] = pz
            V["px"] = V["py"] = 0.0
        elif sub == "E=-pz":
            V["pz"], V["E"] = -pz, pz
            V["px"] = V["py"] = 0.0
        elif sub == "beam+":
            V["px"] = V["py"] = 0.0
            V["E"] = _energy(0.93827, 0.0, 0.0, pz)
        elif sub == "beam-":
            V["px"] = V["py"] = 0.0
            V["pz"] = -pz
            V["E"] = _energy(0.93827, 0.0, 0.0, pz)
        elif sub == "rest":
            V["px"] = V["py"] = V["pz"] = 0.0
            V["E"] = 0.93827
        elif sub == "tinypT":
            pt = 10.0 ** rng.uniform(-9, -6.2)
            ph = rng.uniform(-math.pi, math.pi)
            V["px"], V["py"] = pt * math.cos(ph), pt * math.sin(ph)
            V["pz"] = rng.choice([-1, 1]) * 10.0 ** rng.uniform(-3, -1)    # p - |pz| = pT^2/2p < 1e-10
            V["E"] = _energy(0.13957, V["px"], V["py"], V["pz"])
        else:
            V["E"] = pz
            V["pz"] = pz * (1 - 2.0 ** -rng.choice([40, 45, 50]))
            V["px"] = V["py"] = 0.0
    elif stream == "axis":
        # exact zeros and integer-valued components: momenta / positions along or in the coordinate planes (phi exactly pi,
        # +-pi/2, 0; theta = pi/2; y = eta = eta_s = 0; L with vanishing components), values that are whole numbers
        k = lambda: float(rng.choice([-1, 1]) * rng.randint(1, 4))
        sub = rng.choice(["phi=pi", "px=0", "py=0", "pz=0", "z=0", "r=0", "ints", "r||p"])
        V["px"], V["py"], V["pz"] = k(), k(), k()
        V["x"], V["y"] = k(), k()
        V["t"] = float(rng.randint(5, 9))
        V["z"] = float(rng.randint(-4, 4))
        if sub == "phi=pi":
            V["px"], V["py"] = -abs(V["px"]), 0.0
        elif sub == "px=0":
            V["px"] = 0.0
        elif sub == "py=0":
            V["py"] = 0.0
        elif sub == "pz=0":
            V["pz"] = 0.0
        elif sub == "z=0":
            V["z"] = 0.0
        elif sub == "r=0":
            V["x"] = V["y"] = V["z"] = 0.0
        elif sub == "r||p":
            V["x"], V["y"], V["z"] = 2.0 * V["px"], 2.0 * V["py"], 2.0 * V["pz"]
            V["t"] = abs(V["z"]) + float(rng.randint(1, 3))
        V["E"] = rng.choice([_energy(rng.choice(masses), V["px"], V["py"], V["pz"]),
                             float(math.ceil(_energy(0.0, V["px"], V["py"], V["pz"])) + rng.randint(1, 2))])
    else:   # infinite components: model and implementation must agree on the IEEE conventions
        V["px"], V["py"], V["pz"] = _mag(rng, -1, 1), _mag(rng, -1, 1), _mag(rng, -1, 1)
        V["E"] = _energy(0.13957, V["px"], V["py"], V["pz"])
        a = rng.choice(["px", "py", "pz", "E", "t", "z"])
        V[a] = rng.choice([float("inf"), float("-inf")])
    return {"kind": "sample", "stream": stream, "values": {a: V.get(a) for a in KIN + ["pdg"]}}


def risky(case):
    """inputs on which float rounding can flip a discrete decision of the code (a comparison with a margin of
    a few ulp) - the real-valued model is not expected to follow those; they are not generated"""
    V = case["values"]
    f = lambda a: Fraction(V[a])
    if any(V[a] is None or not math.isfinite(V[a]) for a in KIN):
        return False
    s3 = f("px") ** 2 + f("py") ** 2 + f("pz") ** 2
    near = lambda a, b, rel: abs(a - b) <= rel * max(abs(a), abs(b))
    if V.get("pdg") not in MASSLESS and near(f("E") ** 2, s3, Fraction(1, 10**12)):
        return True
    if near(abs(f("E")), abs(f("pz")), Fraction(1, 10**14)) and f("E") != f("pz") and f("E") != -f("pz"):
        return True
    if near(f("t"), abs(f("z")), Fraction(1, 10**14)) and f("t") != abs(f("z")):
        return True
    s2 = float(f("px") ** 2 + f("py") ** 2)
    if abs(math.sqrt(s2) - 1e-6) < 1e-15:
        return True
    for (a, b) in ((abs(f("E") - f("pz")), Fraction(1, 10**10)),
                   (abs(Fraction(math.sqrt(float(s3))) - f("pz")), Fraction(1, 10**10))):
        if abs(a - b) <= Fraction(1, 10**12) * b + Fraction(1, 10**15) * Fraction(max(abs(V["pz"]), 1e-300)):
            return True
    return False


# --------------------------------------------------------------------------- Coq side
def rq(x):
    f = Fraction(x)
    n, d = f.numerator, f.denominator
    s = f"{abs(n)}" if d == 1 else f"({abs(n)} / {d})"
    return f"(- {s})" if n < 0 else s


def coq_ext(v):
    if v is None:
        return "NaN"
    if isinstance(v, float) and math.isinf(v):
        return "PInf" if v > 0 else "NInf"
    if isinstance(v, float) and math.isnan(v):
        return "NaN"
    return f"Fin {rq(v)}"


def coq_particle(values):
    arms = [f"A_{a} => {coq_ext(values[a])}" for a in KIN + ["pdg"] if values.get(a) is not None]
    return "(fun a => match a with " + " | ".join(arms + ["_ => NaN"]) + " end)"


TAGS = {"nan": "TNaN", "pinf": "TPInf", "ninf": "TNInf"}


def coq_goal(unit, m, values, r, comp=None):
    """the proposition `model(unit) on this particle agrees with what the implementation returned`"""
    P = coq_particle(values)
    if r[0] == "fin":
        tol = tolerance(m, values, r[1], comp)
        rel = "close_angle" if m == "theta" else "close"
        return f"{rel} ({unit} {P}) {rq(r[1])} {rq(tol)}"
    if r[0] == "raise":
        cls = r[1] if r[1] in ("ValueError", "TypeError", "ZeroDivisionError") else "OtherError"
        return f"is_tag ({unit} {P}) (TRaise {cls})"
    return f"is_tag ({unit} {P}) {TAGS[r[0]]}"


def goals_of(case, got):
    """[(label, goal)] for one case"""
    out = []
    for m in case.get("methods", METHODS):
        r = got[m]
        if m == "angular_momentum":
            comps = r[1] if r[0] == "vec" else [r, r, r]
            for i in range(3):
                out.append((f"{m}_{i}", coq_goal(f"angular_momentum_{i}", m, case["values"], comps[i], i)))
        else:
            out.append((m, coq_goal(m, m, case["values"], r)))
    return out


PRELUDE = r"""From Coq Require Import Reals List Bool ZArith Lra.
From Interval Require Import Tactic.
From SX Require Import Lib.RealAux Lib.ExtReal Gen.GenKinematics.
Import ListNotations.
Local Open Scope R_scope.

Definition close (v : ext) (d tol : R) : Prop :=
  match v with Fin r => Rabs (r - d) <= tol | _ => False end.
(* an angle in [0, PI] is compared through its cosine and sine (interval has no acos) *)
Definition close_angle (v : ext) (d tol : R) : Prop :=
  match v with
  | Fin r => 0 <= r <= PI /\ Rabs (cos r - cos d) <= tol /\ Rabs (sin r - sin d) <= tol
  | _ => False
  end.
Inductive tag := TNaN | TPInf | TNInf | TRaise (e : pyexc).
Definition is_tag (v : ext) (k : tag) : Prop :=
  match v, k with
  | NaN, TNaN => True | PInf, TPInf => True | NInf, TNInf => True
  | Raise ValueError, TRaise ValueError => True
  | Raise TypeError, TRaise TypeError => True
  | Raise ZeroDivisionError, TRaise ZeroDivisionError => True
  | Raise OtherError, TRaise OtherError => True
  | _, _ => False
  end.

Lemma sqrt_zero3 : sqrt (0 * 0 + 0 * 0 + 0 * 0) = 0.
Proof. replace (0 * 0 + 0 * 0 + 0 * 0) with 0 by ring. apply sqrt_0. Qed.
Lemma sqrt_zero2 : sqrt (0 * 0 + 0 * 0) = 0.
Proof. replace (0 * 0 + 0 * 0) with 0 by ring. apply sqrt_0. Qed.
Lemma sqrt_beam z : sqrt (0 * 0 + 0 * 0 + z * z) = Rabs z.
Proof. replace (0 * 0 + 0 * 0 + z * z) with (Rsqr z) by (unfold Rsqr; ring). apply sqrt_Rsqr_abs. Qed.
Lemma Reqb_true_le a b : a <= b -> b <= a -> Reqb a b = true.
Proof. intros; apply Reqb_true; lra. Qed.

Ltac itv := first [ interval | interval with (i_prec 80) | interval with (i_prec 160) ].
Ltac num := solve [ lra | itv ].
Ltac zeros :=
  match goal with
  | |- context [0 * 0 + 0 * 0] => rewrite ?sqrt_zero3, ?sqrt_zero2, ?sqrt_beam
  | _ => idtac
  end.
Ltac dec_lt a b :=
  let H := fresh in
  first [ assert (H : a < b) by lra; rewrite (Rltb_true a b H); clear H
        | assert (H : b <= a) by lra; rewrite (Rltb_false a b H); clear H
        | interval_intro (a - b) with (i_prec 80) as H;
          first [ rewrite (Rltb_true a b) by lra | rewrite (Rltb_false a b) by lra ]; clear H ].
Ltac dec_le a b :=
  let H := fresh in
  first [ assert (H : a <= b) by lra; rewrite (Rleb_true a b H); clear H
        | assert (H : b < a) by lra; rewrite (Rleb_false a b H); clear H
        | interval_intro (a - b) with (i_prec 80) as H;
          first [ rewrite (Rleb_true a b) by lra | rewrite (Rleb_false a b) by lra ]; clear H ].
Ltac dec_eq a b :=
  let H := fresh in
  first [ assert (H : a < b) by lra; rewrite (Reqb_false_lt a b H); clear H
        | assert (H : b < a) by lra; rewrite (Reqb_false_gt a b H); clear H
        | assert (H : a = b) by lra; rewrite (Reqb_true a b H); clear H
        | interval_intro (a - b) with (i_prec 80) as H;
          first [ rewrite (Reqb_false_lt a b) by lra | rewrite (Reqb_false_gt a b) by lra
                | rewrite (Reqb_true a b) by lra ]; clear H ].
Ltac dec_cmp :=
  match goal with
  | |- context [Rltb ?a ?b] => dec_lt a b
  | |- context [Rleb ?a ?b] => dec_le a b
  | |- context [Reqb ?a ?b] => dec_eq a b
  end.
Ltac red1 :=
  cbv beta iota zeta delta
    [run angular_momentum_0 angular_momentum_1 angular_momentum_2 rapidity p_abs pT_abs phi theta
     pseudorapidity spacetime_rapidity proper_time mass_from_energy_momentum mT
     mass_from_energy_momentum_massless_pdg
     is_nan orb andb negb einf eneg eadd esub emul esqr eabs eatan2
     elt ele egt ege eeq ein existsb close close_angle is_tag];
  zeros.
Ltac is_val t :=
  lazymatch t with Fin _ => idtac | PInf => idtac | NInf => idtac | NaN => idtac | Raise _ => idtac end.
(* a conditional operation is unfolded only once its arguments are values: innermost first, no stuck matches *)
Ltac step_op :=
  match goal with
  | |- context [esqrt ?a] => is_val a; let v := eval cbv beta iota delta [esqrt] in (esqrt a) in change (esqrt a) with v
  | |- context [elog ?a] => is_val a; let v := eval cbv beta iota delta [elog] in (elog a) in change (elog a) with v
  | |- context [eacos ?a] => is_val a; let v := eval cbv beta iota delta [eacos] in (eacos a) in change (eacos a) with v
  | |- context [ediv ?a ?b] => is_val a; is_val b;
      let v := eval cbv beta iota delta [ediv] in (ediv a b) in change (ediv a b) with v
  | |- context [emul_inf ?s ?x] =>
      let v := eval cbv beta iota delta [emul_inf einf negb] in (emul_inf s x) in change (emul_inf s x) with v
  end.
Ltac ev := red1; repeat (first [ dec_cmp | step_op ]; red1).
Ltac real_ifs := cbv beta iota delta [atan2]; repeat (dec_cmp; cbv beta iota).
Ltac fin_angle :=
  match goal with
  | |- 0 <= acos ?c <= PI /\ _ =>
      let Hc := fresh in
      assert (Hc : -1 <= c <= 1) by (split; itv);
      rewrite (cos_acos c Hc), (sin_acos c Hc);
      split; [ apply acos_bound | split; itv ]
  | |- _ => split; [ split; itv | split; itv ]
  end.
Ltac solve_case :=
  ev;
  lazymatch goal with
  | |- True => exact I
  | |- _ /\ _ => fin_angle
  | |- _ <= _ => real_ifs; itv
  end.
Tactic Notation "ck" constr(n) constr(G) :=
  first [ assert G by (timeout 120 solve_case); idtac "C08CASE" n "OK" | idtac "C08CASE" n "BAD" ].
"""


def cases_file(goals):
    """goals: [(index, goal)] -> text of one scratch file; every goal is proved (or reported BAD) separately"""
    body = []
    for i, g in goals:
        body.append(f"Goal True. ck {i}%Z ({g}). exact I. Qed.")
    return PRELUDE + "\n".join(body) + "\n"


def run_goals(ctx, goals, per_file, tag):
    """[(idx, goal)] -> {idx: True|False}, list of broken file reports"""
    files = []
    for k in range(0, len(goals), per_file):
        files.append((f"c08_{tag}_{k // per_file}", cases_file(goals[k:k + per_file])))
    res = C.coq_eval_many(ctx, files, timeout=1400)
    status, broken = {}, []
    for (ok, out), (name, _) in zip(res, files):
        for mm in re.finditer(r"C08CASE (\d+)%Z (OK|BAD)", out):
            status[int(mm.group(1))] = mm.group(2) == "OK"
        if not ok:
            broken.append({"what": f"cases file {name} failed to compile", "detail": out[-800:]})
    return status, broken


def correspondence(ctx, model_ok=True):
    import time
    t0 = time.time()
    out = {"failures": [], "broken": [], "evaluations": 0, "distinct_nontrivial": 0, "samples": [],
           "model_runner": "generated goals over the generated real-valued model, each proved by `interval` "
                           "(coq-interval, i_prec 80) inside sharded coqc runs",
           "rule": "(a) complete enumeration: every method x every subset of the attributes it reads (reads_m, "
                   "regenerated) unset x {other attributes set, unset}, on real Particle objects built through the "
                   "setters, from an Oscar2013 line with nan columns, and from an ASCII line with only the given "
                   "columns (where that reader can express the subset); all construction paths must return the same "
                   "value and the model must return it too (NaN / Raise by computation, numbers by interval). "
                   "(b) seeded four-momenta / space-time points in seven streams (generic, ultra-relativistic, soft, "
                   "near-but-outside the regulated zones, unphysical, inside the regulated zones, infinite "
                   "components); for each and for each of the 13 generated definitions the goal "
                   "|model(inputs) - implementation's double| <= 1e-9*scale (scale: |value| for lengths, max(1,|value|) "
                   "for logarithms/angles, times max(1, 1e-6*cond) with cond the cancellation factor of the formula; "
                   "theta through cos and sin) is proved by interval arithmetic; non-finite results must agree as tags. "
                   "non-trivial = goal whose particle has at least one attribute set; distinct by goal text"}
    try:
        an, attrs = analysis()
    except Exception as e:
        out["broken"].append({"what": "correspondence not run: the translator cannot read the methods",
                              "detail": f"{type(e).__name__}: {e}"})
        return out
    # ---- (a) complete enumeration of unset subsets
    ucases = unset_cases(an)
    goals, owners, seen = [], [], set()
    n_eval = 0
    for c in ucases:
        ref = None
        for path in ("setters", "oscar", "ascii"):
            if not path_ok(c["values"], path) or (path == "oscar" and c["others"] == "unset"):
                continue
            cc = dict(c, path=path)
            got = run_impl(cc)
            n_eval += 1
            if ref is None:
                ref = got
            elif json.dumps(got) != json.dumps(ref):
                out["failures"].append(Failure(cc, f"construction paths disagree: setters -> {ref}, {path} -> {got}"))
            msg = oracle_method(c["methods"][0], c["values"], got[c["methods"][0]], lambda mm: call(build(c["values"], path), mm))
            if msg:
                out["failures"].append(Failure(cc, msg, on_impl=msg))
        for label, g in goals_of(c, ref):
            goals.append((len(goals), g))
            owners.append((c, label, ref))
            if any(v is not None for v in c["values"].values()):
                seen.add(g)
    # ---- (b) samples
    n = 45 if ctx.quick else 700
    scases = []
    corpus = os.path.join(C.VERIF, "corpus", ID)
    if os.path.isdir(corpus):
        for fn in sorted(os.listdir(corpus)):
            scases.append(json.load(open(os.path.join(corpus, fn)))["case"])
    streams = ["generic", "ultra", "soft", "near", "unphysical", "regulated", "infinite", "axis"]
    for s in streams * 2:                      # every stream at least twice
        scases.append(gen_sample(ctx.rng, s))
    while len(scases) < n:
        scases.append(gen_sample(ctx.rng))
    scases = [c for c in scases if not risky(c)]
    # the driver runs the property oracle (definitions from the case values, symmetries, returned values stay the caller's)
    # on these as well: the sampled particles, further axis-aligned ones, and every subset of the property's OWN required
    # inputs unset (REQUIRED - not the read sets the translator extracts from the source)
    out["all_cases"] = scases + [gen_sample(ctx.rng, "axis") for _ in range(60 if ctx.quick else 600)] + required_unset_cases()
    dist = {"streams": {}, "results": {}, "unset_cases": len(ucases)}
    for c in scases:
        got = run_impl(c)
        n_eval += len(METHODS)
        dist["streams"][c.get("stream", "corpus")] = dist["streams"].get(c.get("stream", "corpus"), 0) + 1
        for label, g in goals_of(c, got):
            goals.append((len(goals), g))
            owners.append((c, label, got))
            seen.add(g)
    for c, label, got in owners:
        r = got[label] if label in got else got["angular_momentum"]
        k = r[0] if r[0] != "vec" else "fin"
        dist["results"][k] = dist["results"].get(k, 0) + 1
    out["evaluations"] = max(n_eval, len(goals))          # goals proved/evaluated (theta is checked through cos and sin)
    out["distinct_nontrivial"] = len(seen)
    out["distribution"] = dist
    out["samples"] = [ucases[5], scases[0], scases[1]]
    out["exhaustive"] = True   # part (a) only, see `rule`
    out["exhaustive_part"] = ("part (a): all 2^k unset subsets of reads_m for each of the 11 methods "
                              f"({len(ucases)} cases), complete")
    if not model_ok:
        out["broken"].append({"what": "correspondence not run: the model's proofs/definitions did not build"})
        return out
    ok, log = C.make(["Gen/GenKinematics.vo"])
    if not ok:
        out["broken"].append({"what": "Gen/GenKinematics.v does not build", "detail": log[-800:]})
        return out
    # heavy goals (numbers) are spread evenly over the shards
    order = sorted(range(len(goals)), key=lambda i: (i * 7919) % len(goals))
    goals = [goals[i] for i in order]
    nshard = 14 if ctx.quick else 56
    per_file = max(20, -(-len(goals) // nshard))
    status, broken = run_goals(ctx, goals, per_file, "g")
    out["broken"] += broken
    bad = [i for i, _ in goals if status.get(i) is not True]
    missing = [i for i, _ in goals if i not in status]
    if missing and not broken:
        out["broken"].append({"what": "cases output could not be parsed", "detail": f"{len(missing)} goals without a verdict"})
    out["traces_validated_against_impl"] = sum(1 for i, _ in goals if status.get(i) is True)
    out["tolerance_agreements"] = out["traces_validated_against_impl"]
    reported = set()
    for i in bad:
        if i in missing:
            continue
        c, label, got = owners[i]
        key = json.dumps(c, sort_keys=True)
        if key in reported:
            continue
        reported.add(key)
        r = got[label] if label in got else got["angular_momentum"]
        out["failures"].append(Failure(c, f"model and implementation disagree on {label}: implementation returned {r}; "
                                          f"the goal `{dict(goals)[i][:300]}` could not be proved"))
    out["goals"] = len(goals)
    out["correspondence_wall_s"] = round(time.time() - t0, 1)
    ctx.notes.append(f"C08 correspondence: {len(goals)} interval/computation goals in {out['correspondence_wall_s']} s")
    return out


# --------------------------------------------------------------------------- search
def shrink(case):
    """keep only the failing method and the attributes it needs; round the values while the oracle still fails"""
    cur = case
    for m in case.get("methods", METHODS):
        cand = dict(cur, methods=[m])
        try:
            if oracle(cand):
                cur = cand
                break
        except Exception:
            pass
    changed = True
    while changed:
        changed = False
        for a in list(cur["values"]):
            v = cur["values"][a]
            cands = []
            if v is not None:
                cands.append(None)
                if isinstance(v, float) and math.isfinite(v) and v != 0:
                    cands.append(float(f"{v:.2g}"))
            for nv in cands:
                if nv == v:
                    continue
                cand = dict(cur, values=dict(cur["values"], **{a: nv}))
                try:
                    if oracle(cand):
                        cur, changed = cand, True
                        break
                except Exception:
                    pass
    return cur


def search(ctx):
    """property oracle on the real code: all unset subsets, then seeded samples of every stream"""
    found, n = [], 0
    an = None
    try:
        an, _ = analysis()
    except Exception:
        pass
    cases = []
    if an is not None:
        cases += unset_cases(an)
    # ... and always over the property's own required sets (the read sets above come from the source under test)
    cases += required_unset_cases()
    budget = 400 if ctx.quick else 4000
    for i in range(budget):
        cases.append(gen_sample(ctx.rng, "axis" if i % 10 == 9 else None))
    for c in cases:
        n += 1
        try:
            msg = oracle(c)
        except Exception as e:
            msg = f"oracle crashed: {type(e).__name__}: {e}"
        if msg:
            c2 = shrink(c)
            found.append(Failure(c2, "property oracle fails on the implementation", on_impl=oracle(c2) or msg))
            break
    return found, n


LEVEL_TEXT = ("Theorems (Coq, over the reals, all finite inputs in the stated domain) about the 13 definitions regenerated "
              "from Particle.py on every run: pT^2, p^2=pT^2+pz^2, cos(theta)=pz/p, y=artanh(pz/E), eta=artanh(pz/p)="
              "-ln tan(theta/2), mT^2, m^2, tau^2, eta_s, L=r x p, phi=atan2(py,px) in (-pi,pi] with atan2 characterised by "
              "its cosine and sine; oddness of y and eta in pz; invariance of every scalar under azimuthal rotations for "
              "all values of the other attributes, covariance of L and phi; NaN for every unset read attribute of every "
              "method (from the regenerated guard/read sets); unphysical inputs give NaN or Raise ValueError. "
              "The generated model is evaluated by interval proofs against the implementation's doubles on every run, "
              "and on the complete enumeration of unset-attribute subsets.")
LEVEL_NOTE = ("Trusted: Coq kernel; stdlib Reals axioms (sig_forall_dec, sig_not_dec, functional_extensionality_dep, "
              "Classical_Prop.classic); translator gen_kinematics and Lib/ExtReal.v (numpy/IEEE conventions over R, no "
              "rounding, no signed zero, no overflow); coq-interval for the correspondence only. Float rounding is the "
              "systematic gap: theorems are exact, the implementation is tied within 1e-9*scale on sampled inputs. "
              "pdg is treated as an optional switch of mass_from_energy_momentum; |pz|>E is read as |pz|>|E|.")
TECHNIQUE = ("Coq real analysis (Reals, lra/nra/field) on definitions regenerated from the Python source by a fail-closed "
             "ast translator; guard-set inclusion by computation; interval-arithmetic proofs for the model/implementation correspondence")
